"""Unit `det_decl` (C06): constructor_order, private_constant, private_vars_leading_underscore."""
O = "src/analyzer/optimizations/"
Q = "src/analyzer/qa/"


def per_contract(name, rel, f, locs, inner_match, inner_inv, inner_body="", r5=False, requires="", pre_inner="", extra_loops=()):
    h = "|c: Node| %s(c)" % f
    loops = [dict(match=r"^contract_definition_nodes$", binder="it",
                  inv="it.seq() == w, w == w_contracts(source_unit), %s %s@ =~= union_hits(w, it.index@, %s)" % (
                      ("all_wf(w, |c: Node| wf_contract_vars(c))," if requires else ""), locs, h),
                  body="proof { axiom_loc_key_model(); lemma_flt_wanted(set![Target::ContractDefinition], all_nodes(su_node(source_unit)), it.index@); %s } let ghost base = %s@; let ghost cur = w[it.index@];" % (
                      "assert(wf_contract_vars(w[it.index@]));" if requires else "", locs)),
             dict(match=inner_match, binder="ip", r5=r5, pre=pre_inner, inv=inner_inv, body=inner_body)]
    loops += list(extra_loops)
    return dict(name=name, rel=rel, attrs=["#[verifier::loop_isolation(false)]", "#[verifier::allow_complex_invariants]"],
                contract=(("requires " + requires + "\n    ") if requires else "") + "ensures r@ == union_hits(w_contracts(source_unit), w_contracts(source_unit).len() as int, %s)" % h,
                start="    proof { axiom_loc_key_model(); }",
                after=[dict(match=r"let contract_definition_nodes", text="let ghost w = contract_definition_nodes@;")],
                loops=loops)


FUNCTIONS = [
    per_contract("constructor_order_qa", Q + "constructor_order.rs", "co_of_contract", "$ret",
                 r"box_contract_definition\.parts", r5=True,
                 inner_inv="function_seen == co_seen($s, $k), $ret@ =~= base.union(co_hits($s, $k))",
                 inner_body="proof { axiom_loc_key_model(); }"),
    per_contract("private_constant_optimization", O + "private_constant.rs", "pc_of_contract", "$ret",
                 r"box_contract_definition\.parts", requires="all_wf(w_contracts(source_unit), |c: Node| wf_contract_vars(c))",
                 inner_inv="ip.seq() == contract_of(cur).unwrap().parts@, $ret@ =~= base.union(pc_hits(ip.seq(), ip.index@))",
                 inner_body="proof { axiom_loc_key_model(); } let ghost base2 = $ret@;",
                 extra_loops=[dict(match=r"box_variable_definition\.attrs$", binder="ia",
                                   inv="is_constant == has_constant(ia.seq(), ia.index@), is_private == has_private(ia.seq(), ia.index@), $ret@ == base2")]),
    per_contract("private_vars_leading_underscore", Q + "private_vars_leading_underscore.rs", "pv_of_contract", "$ret",
                 r"box_contract_definition\.parts", r5=True, requires="all_wf(w_contracts(source_unit), |c: Node| wf_contract_vars(c))",
                 inner_inv="$s == contract_of(cur).unwrap().parts@, $ret@ =~= base.union(pv_hits($s, $k))",
                 inner_body="proof { axiom_loc_key_model(); } let ghost base2 = $ret@;",
                 extra_loops=[dict(match=r"box_variable_definition\.attrs\.clone\(\)", binder="ic",
                                   inv="ic.seq() == box_variable_definition.attrs@, is_constant == has_constant(ic.seq(), ic.index@), $ret@ == base2"),
                              dict(match=r"box_variable_definition\.attrs$", binder="ia",
                                   inv="$ret@ =~= (if vis_contradicts(ia.seq(), ia.index@, sp_starts_with::<char>(variable_name@, '_')) { base2.insert(loc) } else { base2 })",
                                   body="proof { axiom_loc_key_model(); }")]),
    dict(name="payable_function_optimization", rel=O + "payable_function.rs",
         attrs=["#[verifier::loop_isolation(false)]", "#[verifier::allow_complex_invariants]"],
         contract="ensures r@ == union_hits(w_contracts(source_unit), w_contracts(source_unit).len() as int, |c: Node| payable_of_contract(c))",
         start="    proof { axiom_loc_key_model(); axiom_node_into_identity(); }",
         after=[dict(match="@x0", text="let ghost w = $x0@;"),
                dict(match="@x1", text="let ghost w2 = $x1@;")],
         loops=[dict(match=r"^$x0$", binder="it",
                     inv="it.seq() == w, w == w_contracts(source_unit), $ret@ =~= union_hits(w, it.index@, |c: Node| payable_of_contract(c))",
                     body="proof { axiom_loc_key_model(); lemma_flt_wanted(set![Target::ContractDefinition], all_nodes(su_node(source_unit)), it.index@); } let ghost base = $ret@; let ghost cur = w[it.index@];"),
                dict(match=r"^$x1$", binder="it2",
                     inv="it2.seq() == w2, w2 == w_fns(cur), $ret@ =~= base.union(hits(w2, it2.index@, |n: Node| pat_payable(n), |n: Node| loc_fn(n)))",
                     body="proof { axiom_loc_key_model(); lemma_fn_nodes_in_contract(cur, it2.index@); } let ghost base2 = $ret@;"),
                dict(match=r"box_function_definition\.attributes$", binder="ia",
                     inv="payable == has_payable(ia.seq(), ia.index@), public_or_external == has_pub_ext(ia.seq(), ia.index@), $ret@ == base2")]),
    dict(name="private_func_leading_underscore", rel=Q + "private_func_leading_underscore.rs",
         attrs=["#[verifier::loop_isolation(false)]", "#[verifier::allow_complex_invariants]"],
         contract="ensures r@ == hits_all(spec_walk(set![Target::FunctionDefinition], su_node(source_unit)), |n: Node| pat_private_func(n), |n: Node| loc_fn_name(n))",
         start="    proof { axiom_loc_key_model(); axiom_function_ty_eq(); }",
         after=[dict(match="@x0", text="let ghost w = $x0@;")],
         loops=[dict(match=r"^$x0$", binder="it", r5=True,
                     inv="$s == w, w == spec_walk(set![Target::FunctionDefinition], su_node(source_unit)), $ret@ == hits(w, $k, |n: Node| pat_private_func(n), |n: Node| loc_fn_name(n))",
                     body="proof { axiom_loc_key_model(); } let ghost base = $ret@; let ghost cur = w[$k - 1];"),
                dict(match=r"box_fn_definition\.attributes$", binder="ia",
                     inv="$ret@ == (if pat_private_func_prefix(cur, ia.index@) { base.insert(loc_fn_name(cur)) } else { base })",
                     body="proof { axiom_loc_key_model(); }")]),
]
LEMMAS = [
    ("lemma_bt_SourceUnitPart", "GENERATED structural lemma: no SourceUnit/SourceUnitPart node strictly below a top-level item (with lemma_bt_ContractPart/_Statement/_Expression and 11 vector lemmas)"),
    ("lemma_fn_nodes_in_contract", "FunctionDefinition nodes found inside a contract are contract parts (discharges contract_part().unwrap())"),
    ("lemma_co_seen", "co_seen(parts, k) <==> some earlier member of the same contract is a function other than constructor/modifier"),
]

GENERATED_SPEC = "below_top"
