// ---------------------------------------------------------------- C05: increment_decrement
pub open spec fn su_node(su: pt::SourceUnit) -> Node { Node::SourceUnit(su) }
pub assume_specification[ <pt::SourceUnit as Clone>::clone ](a: &pt::SourceUnit) -> (r: pt::SourceUnit) ensures r == *a;

// TRUSTED model of by-value iteration over HashSet (order unspecified; no duplicates; exactly the set's elements)
#[verifier::external_type_specification]
#[verifier::external_body]
#[verifier::reject_recursive_types(K)]
#[verifier::reject_recursive_types(A)]
pub struct ExHsIntoIter<K, A: core::alloc::Allocator>(std::collections::hash_set::IntoIter<K, A>);
pub uninterp spec fn hs_rem<K, A: core::alloc::Allocator>(it: std::collections::hash_set::IntoIter<K, A>) -> Seq<K>;
#[verifier::external_body]
pub fn vx_into_iter_hs<K>(s: HashSet<K>) -> (it: std::collections::hash_set::IntoIter<K>)
    ensures
        hs_rem(it).no_duplicates(),
        forall|k: K| #![trigger hs_rem(it).contains(k)] hs_rem(it).contains(k) <==> s@.contains(k),
{
    s.into_iter()
}
pub assume_specification<K, A: core::alloc::Allocator>[ <std::collections::hash_set::IntoIter<K, A> as Iterator>::next ](it: &mut std::collections::hash_set::IntoIter<K, A>) -> (r: Option<K>)
    ensures
        match r {
            Some(k) => hs_rem(*old(it)).len() > 0 && k == hs_rem(*old(it))[0] && hs_rem(*final(it)) == hs_rem(*old(it)).subrange(1, hs_rem(*old(it)).len() as int),
            None => hs_rem(*old(it)).len() == 0 && hs_rem(*final(it)) == hs_rem(*old(it)),
        };
// HashSet::extend with another HashSet (TRUSTED): union
pub uninterp spec fn iter_items<I, T>(i: I) -> Set<T>;
pub assume_specification<T: Eq + core::hash::Hash, S: core::hash::BuildHasher, A: core::alloc::Allocator, I: IntoIterator<Item = T>>
    [ <HashSet<T, S, A> as Extend<T>>::extend::<I> ](s: &mut HashSet<T, S, A>, iter: I)
    ensures final(s)@ == old(s)@.union(iter_items::<I, T>(iter));
#[verifier::external_body]
pub proof fn axiom_iter_items_hashset()
    ensures forall|h: HashSet<pt::Loc>| #[trigger] iter_items::<HashSet<pt::Loc>, pt::Loc>(h) == h@
{}

pub open spec fn wn_node(ts: Seq<Target>, root: Node) -> Seq<Node> { spec_walk(tset(ts, ts.len() as int), root) }
pub open spec fn incdec_loc(n: Node) -> pt::Loc {
    match n {
        Node::Expression(pt::Expression::PreIncrement(l, _)) => l,
        Node::Expression(pt::Expression::PreDecrement(l, _)) => l,
        Node::Expression(pt::Expression::PostIncrement(l, _)) => l,
        Node::Expression(pt::Expression::PostDecrement(l, _)) => l,
        _ => pt::Loc::Builtin,
    }
}
pub open spec fn is_incdec(n: Node) -> bool {
    match n { Node::Expression(e) => (e is PreIncrement) || (e is PreDecrement) || (e is PostIncrement) || (e is PostDecrement), _ => false }
}
pub open spec fn is_pre(n: Node) -> bool {
    match n { Node::Expression(e) => (e is PreIncrement) || (e is PreDecrement), _ => false }
}
/// locations of every x++ / x-- / ++x / --x below a node
pub open spec fn incdec_locs(root: Node) -> Set<pt::Loc> {
    hits_all(wn_node(seq![Target::PreIncrement, Target::PreDecrement, Target::PostIncrement, Target::PostDecrement], root), |n: Node| is_incdec(n), |n: Node| incdec_loc(n))
}
/// locations of every ++x / --x below a node
pub open spec fn pre_locs(root: Node) -> Set<pt::Loc> {
    hits_all(wn_node(seq![Target::PreIncrement, Target::PreDecrement], root), |n: Node| is_pre(n), |n: Node| incdec_loc(n))
}
pub open spec fn stmts_pre(s: Seq<pt::Statement>, k: int) -> Set<pt::Loc>
    decreases k
{ if 0 < k <= s.len() { stmts_pre(s, k - 1).union(pre_locs(Node::Statement(s[k - 1]))) } else { Set::<pt::Loc>::empty() } }
/// prefix forms nested (at any depth) in a statement of an `unchecked { }` block
pub open spec fn block_exempt(n: Node) -> Set<pt::Loc> {
    match n {
        Node::Statement(pt::Statement::Block { loc: _, unchecked, statements }) => if unchecked { stmts_pre(statements@, statements@.len() as int) } else { Set::<pt::Loc>::empty() },
        _ => Set::<pt::Loc>::empty(),
    }
}
pub open spec fn union_hits(w: Seq<Node>, k: int, f: spec_fn(Node) -> Set<pt::Loc>) -> Set<pt::Loc>
    decreases k
{ if 0 < k <= w.len() { union_hits(w, k - 1, f).union(f(w[k - 1])) } else { Set::<pt::Loc>::empty() } }
pub open spec fn exempt(su: pt::SourceUnit) -> Set<pt::Loc> {
    union_hits(spec_walk(set![Target::Block], su_node(su)), spec_walk(set![Target::Block], su_node(su)).len() as int, |n: Node| block_exempt(n))
}
pub open spec fn seq_set(s: Seq<pt::Loc>, k: int) -> Set<pt::Loc>
    decreases k
{ if 0 < k <= s.len() { seq_set(s, k - 1).insert(s[k - 1]) } else { Set::<pt::Loc>::empty() } }
pub proof fn lemma_seq_set(s: Seq<pt::Loc>, k: int, l: pt::Loc)
    requires 0 <= k <= s.len()
    ensures seq_set(s, k).contains(l) <==> (exists|j: int| 0 <= j < k && #[trigger] s[j] == l)
    decreases k
{ if k > 0 { lemma_seq_set(s, k - 1, l); if s[k - 1] == l { assert(s[k - 1] == l); } } }
pub proof fn lemma_seq_set_all(s: Seq<pt::Loc>, a: Set<pt::Loc>)
    requires forall|k: pt::Loc| #![trigger s.contains(k)] s.contains(k) <==> a.contains(k)
    ensures seq_set(s, s.len() as int) =~= a
{
    assert forall|l: pt::Loc| seq_set(s, s.len() as int).contains(l) <==> a.contains(l) by {
        lemma_seq_set(s, s.len() as int, l);
        if a.contains(l) { assert(s.contains(l)); let j = choose|j: int| 0 <= j < s.len() && s[j] == l; assert(s[j] == l); }
        if (exists|j: int| 0 <= j < s.len() && #[trigger] s[j] == l) { let j = choose|j: int| 0 <= j < s.len() && #[trigger] s[j] == l; assert(s.contains(s[j])); }
    }
}
