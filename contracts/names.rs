// ---------------------------------------------------------------- unit names
/// the result of str::to_lowercase, as a function of the character sequence (TRUSTED: uninterpreted)
pub uninterp spec fn lower(s: Seq<char>) -> Seq<char>;
pub assume_specification[ str::to_lowercase ](s: &str) -> (r: String)
    ensures r@ == lower(s@);
/// TRUSTED: two str values with the same character sequence are the same value (string-literal patterns compare values)
#[verifier::external_body]
pub proof fn axiom_str_ext()
    ensures forall|a: &str, b: &str| #![trigger a@, b@] a@ == b@ ==> a == b
{}
