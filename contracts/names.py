"""Unit `names` (C14): the three name tables str_to_optimization / str_to_vulnerability / str_to_qa.

Contract (per table): `requires known_<cat>(lower(name@))` `ensures r == <cat>_of_name(lower(name@))`, where `lower` is the
(uninterpreted) result of str::to_lowercase and the name -> variant table is generated from the DOCUMENTED names (the
DETECTORS table of contracts/dispatch.py, written from docs/identified-*.md), not from the match in the code.
Proved lemmas per table: every documented name is known and selects its own variant (so distinct documented names select
distinct patterns: the variants in the table are pairwise different, checked when the table is generated) and every variant is
selected by some documented name (every pattern that runs by default can be selected by name, with get_all_* of unit dispatch).
NOT expressible in Verus: "an unknown name makes the run fail" (Verus has no must-panic postcondition; under the precondition the
`other => panic!` arm is proved unreachable, outside it nothing is claimed) -- that clause stays with the bounded check."""
import os
import importlib.util

STANDALONE = True
FEATURES = "#![allow(unused_imports, unused_variables, dead_code)]"
OPT = "src/analyzer/optimizations/mod.rs"
VUL = "src/analyzer/vulnerabilities/mod.rs"
QA = "src/analyzer/qa/mod.rs"
ITEMS = [dict(rel=OPT, kind="enum", name="Optimization"), dict(rel=VUL, kind="enum", name="Vulnerability"), dict(rel=QA, kind="enum", name="QualityAssurance")]
CAT = {"Optimization": "opt", "Vulnerability": "vuln", "QualityAssurance": "qa"}


def _detectors():
    p = os.path.join(os.path.dirname(os.path.abspath(__file__)), "dispatch.py")
    spec = importlib.util.spec_from_file_location("contracts_dispatch_for_names", p)
    m = importlib.util.module_from_spec(spec)
    spec.loader.exec_module(m)
    return m.DETECTORS


def extra_spec(ctx):
    per = {}
    for (en, var, doc, _modfile, _fn) in _detectors():
        per.setdefault(en, []).append((doc, var))
    out = ["// ---- documented name -> variant tables (generated from the documentation table) and their lemmas"]
    for en, rows in per.items():
        c = CAT[en]
        names = [d for d, _ in rows]
        variants = [v for _, v in rows]
        assert len(set(names)) == len(names) and len(set(variants)) == len(variants), "documented names / variants must be pairwise different"
        reveal = " ".join('reveal_strlit("%s");' % d for d in names)
        out.append("pub open spec fn known_%s(s: Seq<char>) -> bool {\n    %s\n}" % (c, "\n    || ".join('s == "%s"@' % d for d in names)))
        chain = ""
        for d, v in rows[:-1]:
            chain += 'if s == "%s"@ { %s::%s } else ' % (d, en, v)
        chain += "{ %s::%s }" % (en, rows[-1][1])
        out.append("pub open spec fn %s_of_name(s: Seq<char>) -> %s {\n    %s\n}" % (c, en, chain))
        out.append("pub proof fn reveal_%s_names()\n    ensures %s\n{\n    %s\n}" % (
            c, ",\n        ".join('"%s"@.len() == %d' % (d, len(d)) for d in names), reveal))
        hints = []
        for i, a in enumerate(names):
            for b in names[i + 1:]:
                if len(a) == len(b):
                    k = [j for j in range(len(a)) if a[j] != b[j]][0]
                    hints.append('assert("%s"@[%d] != "%s"@[%d]);' % (a, k, b, k))
        lens = " ".join('assert("%s"@.len() == %d);' % (d, len(d)) for d in names)
        reveal = reveal + "\n    " + lens + "\n    " + "\n    ".join(hints)
        out.append("/// every documented name is known and selects its own pattern\npub proof fn lemma_%s_names_select()\n    ensures\n%s\n{\n    %s\n}" % (
            c, "\n".join('        known_%s("%s"@) && %s_of_name("%s"@) == %s::%s,' % (c, d, c, d, en, v) for d, v in rows), reveal))
        out.append("/// every pattern is selected by some documented name\npub proof fn lemma_%s_every_pattern_has_a_name(p: %s)\n    ensures exists|s: Seq<char>| known_%s(s) && %s_of_name(s) == p\n{\n    lemma_%s_names_select();\n    match p {\n%s\n    }\n}" % (
            c, en, c, c, c, "\n".join('        %s::%s => { assert(known_%s("%s"@) && %s_of_name("%s"@) == p); }' % (en, v, c, d, c, d) for d, v in rows)))
    return "\n".join(out) + "\n"


def _tab(name, rel, param, c):
    reveal = "reveal_%s_names" % c
    return dict(name=name, rel=rel,
                contract="requires known_%s(lower(%s@))\n    ensures r == %s_of_name(lower(%s@))" % (c, param, c, param),
                start="    proof { axiom_str_ext(); %s(); lemma_%s_names_select(); }" % (reveal, c))


FUNCTIONS = [
    _tab("str_to_optimization", OPT, "opt", "opt"),
    _tab("str_to_vulnerability", VUL, "vuln", "vuln"),
    _tab("str_to_qa", QA, "qa", "qa"),
]
LEMMAS = [
    ("lemma_opt_names_select", "every documented optimization name is known and selects its own pattern"),
    ("lemma_vuln_names_select", "every documented vulnerability name is known and selects its own pattern"),
    ("lemma_qa_names_select", "every documented QA name is known and selects its own pattern"),
    ("lemma_opt_every_pattern_has_a_name", "every optimization can be selected by a documented name"),
    ("lemma_vuln_every_pattern_has_a_name", "every vulnerability can be selected by a documented name"),
    ("lemma_qa_every_pattern_has_a_name", "every QA pattern can be selected by a documented name"),
]
