// ---------------------------------------------------------------- unit lines: get_line_number over a TRUSTED model of the regex crate
// The regex crate cannot be compiled into a single-file unit. The five types and six methods that
// `get_line_number` uses are declared here with ASSUMED contracts (all external_body): this is the trusted
// model of the dependency, listed as such in the evidence. Everything the model says about the pattern `\n`:
// its matches over a text are exactly the line-feed characters of the text, one capture per line feed with a
// single group (the whole match) whose start() is the byte offset of that line feed, in increasing order.
pub mod regex_model {
    use super::*;
    #[verifier::external_body] pub struct Regex { _p: () }
    #[verifier::external_body] #[derive(Debug)] #[verifier::external_derive] pub struct Error { _p: () }
    #[verifier::external_body] pub struct CaptureMatches { _p: () }
    #[verifier::external_body] pub struct Captures { _p: () }
    #[verifier::external_body] pub struct SubCaptureMatches { _p: () }
    #[verifier::external_body] pub struct Match { _p: () }

    /// the pattern text a Regex was compiled from
    pub uninterp spec fn re_pattern(r: Regex) -> Seq<char>;
    /// captures still to be produced by a CaptureMatches iterator
    pub uninterp spec fn cm_rem(it: CaptureMatches) -> Seq<Captures>;
    /// groups still to be produced by a SubCaptureMatches iterator
    pub uninterp spec fn sc_rem(it: SubCaptureMatches) -> Seq<Option<Match>>;
    /// the groups of one capture (group 0 = the whole match)
    pub uninterp spec fn cap_groups(c: Captures) -> Seq<Option<Match>>;
    /// byte offset at which a match starts
    pub uninterp spec fn match_start(m: Match) -> usize;
    /// all non-overlapping matches of a pattern over a text, leftmost first
    pub uninterp spec fn all_captures(pattern: Seq<char>, text: Seq<char>) -> Seq<Captures>;

    impl Regex {
        #[verifier::external_body]
        pub fn new(re: &str) -> (r: Result<Regex, Error>)
            ensures
                is_newline_pattern(re@) ==> r is Ok,
                r is Ok ==> re_pattern(r->Ok_0) == re@,
        { unimplemented!() }

        #[verifier::external_body]
        pub fn captures_iter(&self, text: &str) -> (it: CaptureMatches)
            ensures cm_rem(it) == all_captures(re_pattern(*self), text@)
        { unimplemented!() }
    }
    impl CaptureMatches {
        /// `IntoIterator for I: Iterator` is the identity
        #[verifier::external_body]
        pub fn into_iter(self) -> (r: CaptureMatches) ensures cm_rem(r) == cm_rem(self) { unimplemented!() }
        #[verifier::external_body]
        pub fn next(&mut self) -> (r: Option<Captures>)
            ensures match r {
                Some(c) => cm_rem(*old(self)).len() > 0 && c == cm_rem(*old(self))[0] && cm_rem(*final(self)) == cm_rem(*old(self)).subrange(1, cm_rem(*old(self)).len() as int),
                None => cm_rem(*old(self)).len() == 0 && cm_rem(*final(self)) == cm_rem(*old(self)),
            }
        { unimplemented!() }
    }
    impl Captures {
        #[verifier::external_body]
        pub fn iter(&self) -> (it: SubCaptureMatches) ensures sc_rem(it) == cap_groups(*self) { unimplemented!() }
    }
    impl SubCaptureMatches {
        #[verifier::external_body]
        pub fn into_iter(self) -> (r: SubCaptureMatches) ensures sc_rem(r) == sc_rem(self) { unimplemented!() }
        #[verifier::external_body]
        pub fn next(&mut self) -> (r: Option<Option<Match>>)
            ensures match r {
                Some(c) => sc_rem(*old(self)).len() > 0 && c == sc_rem(*old(self))[0] && sc_rem(*final(self)) == sc_rem(*old(self)).subrange(1, sc_rem(*old(self)).len() as int),
                None => sc_rem(*old(self)).len() == 0 && sc_rem(*final(self)) == sc_rem(*old(self)),
            }
        { unimplemented!() }
    }
    impl Match {
        #[verifier::external_body]
        pub fn start(&self) -> (r: usize) ensures r == match_start(*self) { unimplemented!() }
    }

    /// the two-character pattern text `\n`
    pub open spec fn is_newline_pattern(p: Seq<char>) -> bool { p.len() == 2 && p[0] == '\\' && p[1] == 'n' }


    /// TRUSTED: what the regex crate does for the pattern `\n`
    #[verifier::external_body]
    pub proof fn axiom_newline_regex(p: Seq<char>, text: Seq<char>)
        requires is_newline_pattern(p)
        ensures
            all_captures(p, text).len() == lf_positions(text).len(),
            forall|k: int| 0 <= k < lf_positions(text).len() ==> {
                let g = #[trigger] cap_groups(all_captures(p, text)[k]);
                g.len() == 1 && g[0] is Some && match_start(g[0]->Some_0) == lf_positions(text)[k]
            },
            forall|a: int, b: int| 0 <= a < b < lf_positions(text).len() ==> lf_positions(text)[a] < lf_positions(text)[b],
    {}
}
pub use regex_model::*;

pub fn vx_ident<T>(t: T) -> (r: T) ensures r == t { t }

