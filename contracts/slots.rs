// ---------------------------------------------------------------- C10: storage-slot model (DESIGN §8 C10)
/// size in bits of a declared type: bool 8, address 160, (u)intN N, bytesN 8N, everything else 256
pub open spec fn spec_size(e: pt::Expression) -> int {
    match e {
        pt::Expression::Type(_, ty) => match ty {
            pt::Type::Address => 160,
            pt::Type::AddressPayable => 160,
            pt::Type::Bytes(n) => n as int * 8,
            pt::Type::Bool => 8,
            pt::Type::Int(n) => n as int,
            pt::Type::Uint(n) => n as int,
            _ => 256,
        },
        _ => 256,
    }
}
/// ASSUMED about the parser (checked on every parsed program by the native harness, bounded):
/// intN/uintN have 8 <= N <= 256, bytesN has 1 <= N <= 32
pub open spec fn wf_type_expr(e: pt::Expression) -> bool {
    match e {
        pt::Expression::Type(_, ty) => match ty {
            pt::Type::Bytes(n) => 1 <= n <= 32,
            pt::Type::Int(n) => 8 <= n <= 256,
            pt::Type::Uint(n) => 8 <= n <= 256,
            _ => true,
        },
        _ => true,
    }
}
pub proof fn lemma_size_range(e: pt::Expression)
    requires wf_type_expr(e)
    ensures 8 <= spec_size(e) <= 256
{}

/// layout state after placing the first k items: (bits used in the current slot, slots closed so far)
pub open spec fn lay(s: Seq<u16>, k: int) -> (int, int)
    decreases k
{
    if 0 < k <= s.len() {
        let (used, closed) = lay(s, k - 1);
        if used + s[k - 1] > 256 { (s[k - 1] as int, closed + 1) } else { (used + s[k - 1], closed) }
    } else { (0, 0) }
}
/// number of 32-byte slots Solidity's layout rule assigns to the sequence of sizes
pub open spec fn slots(s: Seq<u16>) -> int {
    let (used, closed) = lay(s, s.len() as int);
    if used > 0 { closed + 1 } else { closed }
}
pub open spec fn sizes_ok(s: Seq<u16>) -> bool {
    forall|i: int| 0 <= i < s.len() ==> 8 <= #[trigger] s[i] <= 256
}
pub proof fn lemma_lay_bounds(s: Seq<u16>, k: int)
    requires 0 <= k <= s.len(), sizes_ok(s)
    ensures 0 <= lay(s, k).0 <= 256, 0 <= lay(s, k).1 <= k
    decreases k
{
    if k > 0 { lemma_lay_bounds(s, k - 1); }
}

pub open spec fn leq16() -> spec_fn(u16, u16) -> bool { |a: u16, b: u16| a <= b }
/// the sizes sorted in ascending order (mathematical sort)
pub open spec fn asc(v: Seq<u16>) -> Seq<u16> { v.sort_by(leq16()) }
/// what the two pack_* detectors decide for a member-size sequence
pub open spec fn packable(v: Seq<u16>) -> bool { slots(v) > slots(asc(v)) }

pub proof fn lemma_leq16_total()
    ensures vstd::relations::total_ordering(leq16())
{
    assert(vstd::relations::total_ordering(leq16())) by {
        assert(vstd::relations::reflexive(leq16()));
        assert(vstd::relations::antisymmetric(leq16()));
        assert(vstd::relations::transitive(leq16()));
        assert(vstd::relations::strongly_connected(leq16()));
    }
}
// TRUSTED contract of slice::sort: an ascending (w.r.t. T's Ord) permutation of the input;
// for u16 the order is the numeric order.
pub uninterp spec fn ord_leq<T>(a: T, b: T) -> bool;
#[verifier::external_body]
pub proof fn axiom_ord_leq_u16()
    ensures forall|a: u16, b: u16| #[trigger] ord_leq::<u16>(a, b) == (a <= b)
{}
pub assume_specification<T: Ord> [<[T]>::sort] (v: &mut [T])
    ensures
        vstd::relations::sorted_by(final(v)@, |a: T, b: T| ord_leq::<T>(a, b)),
        final(v)@.to_multiset() == old(v)@.to_multiset();

/// the executable sort result is THE ascending sort
pub proof fn lemma_sorted_is_asc(v: Seq<u16>, w: Seq<u16>)
    requires vstd::relations::sorted_by(w, |a: u16, b: u16| ord_leq::<u16>(a, b)), w.to_multiset() == v.to_multiset()
    ensures w == asc(v)
{
    axiom_ord_leq_u16();
    assert(vstd::relations::sorted_by(w, leq16())) by {
        assert forall|i: int, j: int| 0 <= i < j < w.len() implies #[trigger] leq16()(w[i], w[j]) by {
            assert((|a: u16, b: u16| ord_leq::<u16>(a, b))(w[i], w[j]));
        }
    }
    lemma_leq16_total();
    v.lemma_sort_by_ensures(leq16());
    vstd::seq_lib::lemma_sorted_unique(w, asc(v), leq16());
}

// sizes of the variable members of a contract / the fields of a struct (prefix folds)
pub open spec fn part_sizes(s: Seq<pt::ContractPart>, k: int) -> Seq<u16>
    decreases k
{
    if 0 < k <= s.len() {
        match s[k - 1] {
            pt::ContractPart::VariableDefinition(d) => part_sizes(s, k - 1).push(spec_size(d.ty) as u16),
            _ => part_sizes(s, k - 1),
        }
    } else { Seq::<u16>::empty() }
}
pub open spec fn field_sizes(s: Seq<pt::VariableDeclaration>, k: int) -> Seq<u16>
    decreases k
{
    if 0 < k <= s.len() { field_sizes(s, k - 1).push(spec_size(s[k - 1].ty) as u16) } else { Seq::<u16>::empty() }
}
pub open spec fn wf_parts(s: Seq<pt::ContractPart>) -> bool {
    forall|i: int| 0 <= i < s.len() ==> (match #[trigger] s[i] { pt::ContractPart::VariableDefinition(d) => wf_type_expr(d.ty), _ => true })
}
pub open spec fn wf_fields(s: Seq<pt::VariableDeclaration>) -> bool {
    forall|i: int| 0 <= i < s.len() ==> wf_type_expr(#[trigger] s[i].ty)
}
pub proof fn lemma_part_sizes_ok(s: Seq<pt::ContractPart>, k: int)
    requires 0 <= k <= s.len(), wf_parts(s)
    ensures sizes_ok(part_sizes(s, k)), part_sizes(s, k).len() <= k
    decreases k
{
    if k > 0 {
        lemma_part_sizes_ok(s, k - 1);
        match s[k - 1] { pt::ContractPart::VariableDefinition(d) => { lemma_size_range(d.ty); } _ => {} }
    }
}
pub proof fn lemma_field_sizes_ok(s: Seq<pt::VariableDeclaration>, k: int)
    requires 0 <= k <= s.len(), wf_fields(s)
    ensures sizes_ok(field_sizes(s, k)), field_sizes(s, k).len() == k
    decreases k
{
    if k > 0 { lemma_field_sizes_ok(s, k - 1); lemma_size_range(s[k - 1].ty); }
}

// ---------------------------------------------------------------- property-level lemmas of C10
pub open spec fn is_perm(p: Seq<u16>, v: Seq<u16>) -> bool { p.to_multiset() == v.to_multiset() }
/// reported ==> some reordering occupies strictly fewer slots
pub proof fn lemma_c10_reported_has_witness(v: Seq<u16>)
    requires packable(v)
    ensures exists|p: Seq<u16>| is_perm(p, v) && slots(p) < slots(v)
{
    lemma_leq16_total();
    v.lemma_sort_by_ensures(leq16());
    assert(is_perm(asc(v), v) && slots(asc(v)) < slots(v));
}
/// declared order already optimal ==> never reported
pub proof fn lemma_c10_optimal_not_reported(v: Seq<u16>)
    requires forall|p: Seq<u16>| is_perm(p, v) ==> slots(p) >= slots(v)
    ensures !packable(v)
{
    lemma_leq16_total();
    v.lemma_sort_by_ensures(leq16());
    assert(is_perm(asc(v), v));
}
/// sorting saves a slot whichever direction is used ==> always reported
pub proof fn lemma_c10_sorting_saves_reported(v: Seq<u16>, desc: Seq<u16>)
    requires slots(asc(v)) < slots(v), slots(desc) < slots(v)
    ensures packable(v)
{}
/// a permutation of in-range sizes is in range
pub proof fn lemma_perm_sizes_ok(v: Seq<u16>, p: Seq<u16>)
    requires sizes_ok(v), is_perm(p, v)
    ensures sizes_ok(p), p.len() == v.len()
{
    v.to_multiset_ensures();
    p.to_multiset_ensures();
    assert forall|i: int| 0 <= i < p.len() implies 8 <= #[trigger] p[i] <= 256 by {
        assert(p.contains(p[i]));
        assert(p.to_multiset().count(p[i]) > 0);
        assert(v.contains(p[i]));
        let j = choose|j: int| 0 <= j < v.len() && v[j] == p[i];
        assert(8 <= v[j] <= 256);
    }
}

// ---------------------------------------------------------------- the two pack_* detectors
pub open spec fn w_structs(su: pt::SourceUnit) -> Seq<Node> { spec_walk(set![Target::StructDefinition], Node::SourceUnit(su)) }
pub open spec fn w_contracts(su: pt::SourceUnit) -> Seq<Node> { spec_walk(set![Target::ContractDefinition], Node::SourceUnit(su)) }

pub open spec fn struct_of(n: Node) -> Option<pt::StructDefinition> {
    match n {
        Node::SourceUnitPart(pt::SourceUnitPart::StructDefinition(sd)) => Some(*sd),
        Node::ContractPart(pt::ContractPart::StructDefinition(sd)) => Some(*sd),
        _ => None,
    }
}
pub open spec fn pat_pack_struct(n: Node) -> bool {
    match struct_of(n) { Some(sd) => packable(field_sizes(sd.fields@, sd.fields@.len() as int)), None => false }
}
pub open spec fn loc_pack_struct(n: Node) -> pt::Loc {
    match struct_of(n) { Some(sd) => sd.loc, None => pt::Loc::Builtin }
}
/// ASSUMED about parser output (see wf_type_expr)
pub open spec fn wf_struct_node(n: Node) -> bool {
    match struct_of(n) { Some(sd) => wf_fields(sd.fields@) && sd.fields@.len() < u32::MAX, None => true }
}
pub open spec fn contract_of(n: Node) -> Option<pt::ContractDefinition> {
    match n {
        Node::SourceUnitPart(pt::SourceUnitPart::ContractDefinition(cd)) => Some(*cd),
        _ => None,
    }
}
pub open spec fn pat_pack_storage(n: Node) -> bool {
    match contract_of(n) { Some(cd) => packable(part_sizes(cd.parts@, cd.parts@.len() as int)), None => false }
}
pub open spec fn loc_pack_storage(n: Node) -> pt::Loc {
    match contract_of(n) { Some(cd) => cd.loc, None => pt::Loc::Builtin }
}
pub open spec fn wf_contract_node(n: Node) -> bool {
    match contract_of(n) { Some(cd) => wf_parts(cd.parts@) && cd.parts@.len() < u32::MAX, None => true }
}
pub open spec fn all_wf(w: Seq<Node>, p: spec_fn(Node) -> bool) -> bool { forall|i: int| 0 <= i < w.len() ==> p(#[trigger] w[i]) }
// TRUSTED: derived Clone of the boxed contract definition returns an equal value
pub assume_specification[ <pt::ContractDefinition as Clone>::clone ](c: &pt::ContractDefinition) -> (r: pt::ContractDefinition) ensures r == *c;
