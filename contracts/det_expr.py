"""Unit `det_expr`: expression-level detectors of C05 / C07 with a single extraction loop."""
O = "src/analyzer/optimizations/"
V = "src/analyzer/vulnerabilities/"


def single_loop(name, rel, w, T, pat, loc, locs="optimization_locations", fuel=False, extra_body=""):
    """`let target_nodes = extract..(..); for node in target_nodes { .. insert(loc) .. }`"""
    h = "|n: Node| %s(n), |n: Node| %s(n)" % (pat, loc)
    body = "proof { axiom_loc_key_model(); %s lemma_flt_wanted(%s, all_nodes(su_node(source_unit)), it.index@); %s }" % (
        "reveal_with_fuel(tset, 8);" if fuel else "", T, extra_body)
    return dict(name=name, rel=rel,
                contract="ensures r@ == hits_all(%s, %s)" % (w, h),
                start="    proof { axiom_loc_key_model(); }",
                after=[dict(match="@x0", text="let ghost w = $x0@;")],
                loops=[dict(match=r"^$x0$", binder="it",
                            inv="it.seq() == w, w == %s, %s@ == hits(w, it.index@, %s)" % (w, locs, h),
                            body=body)])


def ts(*names):
    return "seq![%s]" % ", ".join("Target::" + n for n in names)


FUNCTIONS = [
    single_loop("address_balance_optimization", O + "address_balance.rs", "w1(source_unit, Target::MemberAccess)", "set![Target::MemberAccess]",
                "pat_address_balance", "expr_loc"),
    dict(name="check_for_bool_equals_bool", rel=O + "bool_equals_bool.rs",
         contract="ensures r == ((*box_expression is BoolLiteral) || (*box_expression_1 is BoolLiteral))"),
    single_loop("bool_equals_bool_optimization", O + "bool_equals_bool.rs", "wn(source_unit, %s)" % ts("Equal", "NotEqual"),
                "tset(%s, 2)" % ts("Equal", "NotEqual"), "pat_bool_equals_bool", "expr_loc", fuel=True),
    single_loop("optimal_comparison_optimization", O + "optimal_comparison.rs", "wn(source_unit, %s)" % ts("MoreEqual", "LessEqual"),
                "tset(%s, 2)" % ts("MoreEqual", "LessEqual"), "pat_optimal_comparison", "expr_loc", fuel=True),
    single_loop("solidity_math_optimization", O + "solidity_math.rs", "wn(source_unit, %s)" % ts("Add", "Subtract", "Multiply", "Divide"),
                "tset(%s, 4)" % ts("Add", "Subtract", "Multiply", "Divide"), "pat_solidity_math", "expr_loc", fuel=True),
    single_loop("solidity_keccak256_optimization", O + "solidity_keccak256.rs", "w1(source_unit, Target::FunctionCall)", "set![Target::FunctionCall]",
                "pat_keccak", "loc_keccak"),
    single_loop("unsafe_erc20_operation_vulnerability", V + "unsafe_erc20_operation.rs", "w1(source_unit, Target::MemberAccess)", "set![Target::MemberAccess]",
                "pat_unsafe_erc20", "expr_loc", locs="$ret"),
    single_loop("floating_pragma_vulnerability", V + "floating_pragma.rs", "w1(source_unit, Target::PragmaDirective)", "set![Target::PragmaDirective]",
                "pat_floating_pragma", "loc_pragma", locs="$ret"),
    dict(name="check_for_address_zero", rel=O + "address_zero.rs",
         contract="ensures r == is_address_zero(*box_expression)",
         start="    proof { axiom_string_str_eq(); }"),
    single_loop("address_zero_optimization", O + "address_zero.rs", "wn(source_unit, %s)" % ts("Equal", "NotEqual"),
                "tset(%s, 2)" % ts("Equal", "NotEqual"), "pat_address_zero", "expr_loc", fuel=True),
    dict(name="number_literal_is_power_of_two", rel=O + "shift_math.rs", attrs=["#[verifier::external_body]"],
         contract="ensures r == spec_pow2_literal(val_string@, exp_string@)"),
    dict(name="check_if_inputs_are_power_of_two", rel=O + "shift_math.rs",
         contract="ensures r == (lit_pow2(*box_expression) || lit_pow2(*box_expression_1))"),
    single_loop("shift_math_optimization", O + "shift_math.rs", "wn(source_unit, %s)" % ts("Multiply", "Divide"),
                "tset(%s, 2)" % ts("Multiply", "Divide"), "pat_shift_math", "expr_loc", fuel=True),
    single_loop("assign_update_array_optimization", O + "assign_update_array_value.rs", "w1(source_unit, Target::Assign)", "set![Target::Assign]",
                "pat_assign_update", "expr_loc", extra_body="axiom_tup_eq_strings();"),
    dict(name="cache_array_length_optimization", rel=O + "cache_array_length.rs",
         contract="ensures r@ == union_hits(w1(source_unit, Target::For), w1(source_unit, Target::For).len() as int, |n: Node| length_hits_of_for(n))",
         start="    proof { axiom_loc_key_model(); }",
         after=[dict(match="@x0", text="let ghost w = $x0@;"),
                dict(match="@x1", text="let ghost w2 = $x1@; let ghost base = $ret@; let ghost cond0 = for_cond(w[it.index@]).unwrap();")],
         loops=[dict(match=r"^$x0$", binder="it",
                     inv="it.seq() == w, w == w1(source_unit, Target::For), $ret@ =~= union_hits(w, it.index@, |n: Node| length_hits_of_for(n))",
                     body="proof { axiom_loc_key_model(); lemma_flt_wanted(set![Target::For], all_nodes(su_node(source_unit)), it.index@); }"),
                dict(match=r"^$x1$", binder="it2",
                     inv="it2.seq() == w2, w2 == w_cond(cond0), $ret@ =~= base.union(hits(w2, it2.index@, |m: Node| pat_length(m), |m: Node| expr_loc(m)))",
                     body="proof { axiom_loc_key_model(); lemma_flt_wanted(set![Target::MemberAccess], all_nodes(Node::Expression(cond0)), it2.index@); }")]),
    dict(name="divide_before_multiply_vulnerability", rel=V + "divide_before_multiply.rs",
         contract="ensures r@ == hits_all(wn(source_unit, %s), |n: Node| pat_div_before_mul(n), |n: Node| expr_loc(n))" % ts("Multiply", "AssignDivide"),
         start="    proof { axiom_loc_key_model(); }",
         after=[dict(match="@x0", text="let ghost w = $x0@;")],
         loops=[dict(match=r"^$x0$", binder="it",
                     inv="it.seq() == w, w == wn(source_unit, %s), $ret@ == hits(w, it.index@, |n: Node| pat_div_before_mul(n), |n: Node| expr_loc(n))" % ts("Multiply", "AssignDivide"),
                     body="proof { axiom_loc_key_model(); reveal_with_fuel(tset, 8); lemma_flt_wanted(tset(%s, 2), all_nodes(su_node(source_unit)), it.index@); } let ghost base = $ret@;" % ts("Multiply", "AssignDivide"))],
         plain_loops=[dict(nth=0, pre="let ghost orig = curr_expression;",
                           clauses="invariant_except_break chain_div(curr_expression) == chain_div(orig), $ret@ == base\n    ensures $ret@ == (if chain_div(orig) { base.insert(loc) } else { base })\n    decreases curr_expression",
                           body="proof { axiom_loc_key_model(); }"),
                      dict(nth=1, pre="let ghost orig = curr_expression;",
                           clauses="invariant_except_break chain_mul(curr_expression) == chain_mul(orig), $ret@ == base\n    ensures $ret@ == (if chain_mul(orig) { base.insert(loc) } else { base })\n    decreases curr_expression",
                           body="proof { axiom_loc_key_model(); }")]),
    dict(name="multiple_require_optimization", rel=O + "multiple_require.rs", attrs=["#[verifier::loop_isolation(false)]", "#[verifier::allow_complex_invariants]"],
         contract="ensures r@ == hits_all(w1(source_unit, Target::FunctionCall), |n: Node| pat_multiple_require(n), |n: Node| expr_loc(n))",
         start="    proof { axiom_loc_key_model(); }",
         after=[dict(match="@x0", text="let ghost w = $x0@;")],
         loops=[dict(match=r"^$x0$", binder="it",
                     inv="it.seq() == w, w == w1(source_unit, Target::FunctionCall), $ret@ == hits(w, it.index@, |n: Node| pat_multiple_require(n), |n: Node| expr_loc(n))",
                     body="proof { axiom_loc_key_model(); lemma_flt_wanted(set![Target::FunctionCall], all_nodes(su_node(source_unit)), it.index@); } let ghost base = $ret@; let ghost cur = w[it.index@];"),
                dict(match=r"^function_call_expressions$", binder="ia", r5=True,
                     inv="$ret@ == (if any_and($s, $k) { base.insert(expr_loc(cur)) } else { base })",
                     body="proof { axiom_loc_key_model(); }")]),
]
LEMMAS = [
    ("lemma_multiple_require_canon", "canonical require(a && b, ..) is matched"),
    ("lemma_assign_update", "canon a[k] = a[k] op E ==> flagged ==> some operand is the same a[k]"),
    ("lemma_address_zero_canon", "canonical address(0) operand is matched"),
    ("lemma_address_balance_canon", "canonical address(this).balance is matched"),
    ("lemma_hits_contains", "a location is reported iff some extracted node matches and has that location"),
    ("lemma_hits_concat", "hits distributes over concatenation (C19)"),
]
