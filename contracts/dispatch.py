"""Unit `dispatch` (C02 / C14 / C15): the three `analyze_for_*` functions, the three `get_all_*` lists and pt's `Loc::start`.

What is under contract: parse -> pattern-to-detector dispatch -> by-value iteration of the location set -> offset-to-line
conversion -> BTreeSet of lines.  The detectors themselves are external_body stubs here, each with the contract
`r@ == spec_<fn>(source_unit)` over an uninterpreted function (a detector is a function of the parse tree; for the detectors
of units det_expr / det_decl / det_gate / det_vuln / det_incdec that function is the one PROVED there).
`get_line_number` is used under the contract PROVED in unit lines.

The variant -> detector table below is written from the documentation (docs/identified-*.md names the pattern, the module file
of that name defines the detector function); it is NOT read from the match in mod.rs, so that a mix-up in the match fails the
postcondition. `extra_spec` checks that each function really is defined in the module file named after the documented pattern."""
import os

OPT = "src/analyzer/optimizations/mod.rs"
VUL = "src/analyzer/vulnerabilities/mod.rs"
QA = "src/analyzer/qa/mod.rs"
STANDALONE = "pt"
INCLUDES = ["_linespec"]
FEATURES = "#![feature(allocator_api)]"
USES = "use std::collections::BTreeSet;"

# (enum, variant, documented pattern name, module file (relative to the category directory), detector function)
DETECTORS = [
    ("Optimization", "AddressBalance", "address_balance", "address_balance.rs", "address_balance_optimization"),
    ("Optimization", "AddressZero", "address_zero", "address_zero.rs", "address_zero_optimization"),
    ("Optimization", "AssignUpdateArrayValue", "assign_update_array_value", "assign_update_array_value.rs", "assign_update_array_optimization"),
    ("Optimization", "CacheArrayLength", "cache_array_length", "cache_array_length.rs", "cache_array_length_optimization"),
    ("Optimization", "ConstantVariables", "constant_variables", "constant_variables.rs", "constant_variable_optimization"),
    ("Optimization", "BoolEqualsBool", "bool_equals_bool", "bool_equals_bool.rs", "bool_equals_bool_optimization"),
    ("Optimization", "ImmutableVarialbes", "immutable_variables", "immutable_variables.rs", "immutable_variables_optimization"),
    ("Optimization", "IncrementDecrement", "increment_decrement", "increment_decrement.rs", "increment_decrement_optimization"),
    ("Optimization", "MemoryToCalldata", "memory_to_calldata", "memory_to_calldata.rs", "memory_to_calldata_optimization"),
    ("Optimization", "MultipleRequire", "multiple_require", "multiple_require.rs", "multiple_require_optimization"),
    ("Optimization", "PackStorageVariables", "pack_storage_variables", "pack_storage_variables.rs", "pack_storage_variables_optimization"),
    ("Optimization", "PackStructVariables", "pack_struct_variables", "pack_struct_variables.rs", "pack_struct_variables_optimization"),
    ("Optimization", "PayableFunction", "payable_function", "payable_function.rs", "payable_function_optimization"),
    ("Optimization", "PrivateConstant", "private_constant", "private_constant.rs", "private_constant_optimization"),
    ("Optimization", "SafeMathPre080", "safe_math_pre_080", "safe_math.rs", "safe_math_pre_080_optimization"),
    ("Optimization", "SafeMathPost080", "safe_math_post_080", "safe_math.rs", "safe_math_post_080_optimization"),
    ("Optimization", "ShiftMath", "shift_math", "shift_math.rs", "shift_math_optimization"),
    ("Optimization", "SolidityKeccak256", "solidity_keccak256", "solidity_keccak256.rs", "solidity_keccak256_optimization"),
    ("Optimization", "SolidityMath", "solidity_math", "solidity_math.rs", "solidity_math_optimization"),
    ("Optimization", "Sstore", "sstore", "sstore.rs", "sstore_optimization"),
    ("Optimization", "StringErrors", "string_errors", "string_errors.rs", "string_error_optimization"),
    ("Optimization", "OptimalComparison", "optimal_comparison", "optimal_comparison.rs", "optimal_comparison_optimization"),
    ("Optimization", "ShortRevertString", "short_revert_string", "short_revert_string.rs", "short_revert_string_optimization"),
    ("Vulnerability", "FloatingPragma", "floating_pragma", "floating_pragma.rs", "floating_pragma_vulnerability"),
    ("Vulnerability", "UnsafeERC20Operation", "unsafe_erc20_operation", "unsafe_erc20_operation.rs", "unsafe_erc20_operation_vulnerability"),
    ("Vulnerability", "UnprotectedSelfdestruct", "unprotected_selfdestruct", "unprotected_selfdestruct.rs", "unprotected_selfdestruct_vulnerability"),
    ("Vulnerability", "DivideBeforeMultiply", "divide_before_multiply", "divide_before_multiply.rs", "divide_before_multiply_vulnerability"),
    ("QualityAssurance", "ConstructorOrder", "constructor_order", "constructor_order.rs", "constructor_order_qa"),
    ("QualityAssurance", "PrivateVarsLeadingUnderscore", "private_vars_leading_underscore", "private_vars_leading_underscore.rs", "private_vars_leading_underscore"),
    ("QualityAssurance", "PrivateFuncLeadingUnderscore", "private_func_leading_underscore", "private_func_leading_underscore.rs", "private_func_leading_underscore"),
]
CAT_DIR = {"Optimization": "src/analyzer/optimizations", "Vulnerability": "src/analyzer/vulnerabilities", "QualityAssurance": "src/analyzer/qa"}
LOCS_FN = {"Optimization": "opt_locs", "Vulnerability": "vuln_locs", "QualityAssurance": "qa_locs"}

ITEMS = [dict(rel=OPT, kind="enum", name="Optimization"), dict(rel=VUL, kind="enum", name="Vulnerability"), dict(rel=QA, kind="enum", name="QualityAssurance")]


def extra_spec(ctx):
    """detector stubs + the documented dispatch as a spec function per category"""
    from vxlib import common as C
    out = ["// ---- detector stubs (external_body; a detector is a function of the parse tree) and the documented dispatch"]
    per = {}
    for (en, var, doc, modfile, fn) in DETECTORS:
        rel = os.path.join(CAT_DIR[en], modfile)
        ctx.fn(rel, fn)   # LostAnchor if the documented module no longer defines this detector
        out.append("pub uninterp spec fn spec_%s(su: pt::SourceUnit) -> Set<pt::Loc>;" % fn)
        out.append("#[verifier::external_body] pub fn %s(source_unit: pt::SourceUnit) -> (r: HashSet<pt::Loc>) ensures r@ == spec_%s(source_unit) { unimplemented!() }" % (fn, fn))
        per.setdefault(en, []).append((var, fn))
    for en, arms in per.items():
        out.append("/// the locations the documented detector of a pattern reports for a parse tree")
        out.append("pub open spec fn %s(p: %s, su: pt::SourceUnit) -> Set<pt::Loc> {\n    match p {\n%s\n    }\n}" % (
            LOCS_FN[en], en, "\n".join("        %s::%s => spec_%s(su)," % (en, v, f) for v, f in arms)))
    return "\n".join(out) + "\n"


def _analyze(name, rel, param, locs_fn):
    tree = "parse_tree(file_contents@, file_number)"
    return dict(name=name, rel=rel,
                attrs=["#[verifier::loop_isolation(false)]", "#[verifier::allow_complex_invariants]"],
                contract=("requires parse_ok(file_contents@, file_number), lf_positions(file_contents@).len() < 0x7fff_fff0,\n"
                          "        locs_in_text(file_contents@, %s(%s, %s))\n"
                          "    ensures is_lines_of(r@, file_contents@, %s(%s, %s))" % (locs_fn, param, tree, locs_fn, param, tree)),
                start="    proof { axiom_loc_key_model(); }",
                loops=[dict(match=r"^locations$", binder="iv", r5=True, rem="hs_rem", into_iter="vx_into_iter_hs",
                            pre="let ghost all = locations@;",
                            inv="all == %s(%s, %s), locs_in_text(file_contents@, all), line_numbers@ =~= seq_lines(file_contents@, $s, $k), forall|k: pt::Loc| #![trigger $s.contains(k)] $s.contains(k) <==> all.contains(k)" % (locs_fn, param, tree),
                            body="proof { assert($s.contains(loc)); }",
                            after="proof { lemma_seq_lines_all(file_contents@, iv_s, all); }")])


FUNCTIONS = [
    dict(name="start", rel="@pt", impl="Loc", wrap="impl pt::Loc {", contract="requires self is File\n    ensures r == self->File_1"),
    dict(name="end", rel="@pt", impl="Loc", wrap="impl pt::Loc {", contract="requires self is File\n    ensures r == self->File_2"),
    dict(name="get_all_optimizations", rel=OPT, contract="ensures forall|o: Optimization| #[trigger] r@.contains(o)"),
    dict(name="get_all_vulnerabilities", rel=VUL, contract="ensures forall|o: Vulnerability| #[trigger] r@.contains(o)"),
    dict(name="get_all_qa", rel=QA, contract="ensures forall|o: QualityAssurance| #[trigger] r@.contains(o)"),
    _analyze("analyze_for_optimization", OPT, "optimization", "opt_locs"),
    _analyze("analyze_for_vulnerability", VUL, "vulnerability", "vuln_locs"),
    _analyze("analyze_for_qa", QA, "qa", "qa_locs"),
]
LEMMAS = [
    ("lemma_seq_lines_member", "a line is in the set built from the first k iterated locations iff one of them lies on it"),
    ("lemma_seq_lines_all", "iterating the whole location set yields exactly the lines of the set (is_lines_of)"),
]
