"""Unit `blind` (C17): the verdict of a detector does not depend on the locations stored in the parse tree.

No function of /repo is verified here; the unit holds LEMMAS over the contracts proved in the other units:
  * generated (vxlib/eqvgen.py): `eqv_<T>(a, b)` = equal up to the values of Loc fields, and for every node type the PROVED
    correspondence lemma eqv(a, b) ==> all_nodes(a), all_nodes(b) have the same length and are pairwise eqv;
  * `lemma_walk_eqv`: the tree search of two such trees yields corresponding node sequences (with C01: so does the real walker);
  * per detector predicate P: eqv_Node(a, b) ==> P(a) == P(b).
Together with the proved postconditions `r@ == hits_all(spec_walk(T, root), pat_P, loc_P)`: for two parse trees that differ only in
locations -- what a token-preserving re-layout of the source produces, ASSUMING the parser's tree shape depends on the token
sequence only -- a detector flags the construct at position i of the search result in one tree iff it flags the construct at
position i in the other ("the same tokens start flagged constructs"). The parser assumption, comments and string contents are the
bounded check's business."""
GENERATED_SPEC = "eqv"
INCLUDES = ["det_expr", "_blind"]
FUNCTIONS = []
PREDICATES = [
    "pat_address_balance", "pat_bool_equals_bool", "pat_optimal_comparison", "pat_solidity_math", "pat_keccak",
    "pat_unsafe_erc20", "pat_floating_pragma", "pat_address_zero", "pat_shift_math", "pat_assign_update",
    "pat_multiple_require", "pat_div_before_mul",
]
DEFAULT_HINT = "    reveal_with_fuel(eqv_Expression, 4);"
HINTS = {
    "pat_div_before_mul": """    match (a, b) {
        (Node::Expression(pt::Expression::Multiply(_, l, _)), Node::Expression(pt::Expression::Multiply(_, m, _))) => { lemma_chain_div_eqv(*l, *m); }
        (Node::Expression(pt::Expression::AssignDivide(_, _, l)), Node::Expression(pt::Expression::AssignDivide(_, _, m))) => { lemma_chain_mul_eqv(*l, *m); }
        _ => {}
    }""",
    "pat_multiple_require": """    reveal_with_fuel(eqv_Expression, 3);
    match (a, b) {
        (Node::Expression(pt::Expression::FunctionCall(_, f, x)), Node::Expression(pt::Expression::FunctionCall(_, g, y))) => {
            lemma_any_and_eqv(x@, y@, x@.len() as int, x@.len() as int);
        }
        _ => {}
    }""",
    "pat_address_zero": """    reveal_with_fuel(eqv_Expression, 3);
    match (a, b) {
        (Node::Expression(pt::Expression::Equal(_, l1, r1)), Node::Expression(pt::Expression::Equal(_, l2, r2))) => { lemma_is_address_zero_eqv(*l1, *l2); lemma_is_address_zero_eqv(*r1, *r2); }
        (Node::Expression(pt::Expression::NotEqual(_, l1, r1)), Node::Expression(pt::Expression::NotEqual(_, l2, r2))) => { lemma_is_address_zero_eqv(*l1, *l2); lemma_is_address_zero_eqv(*r1, *r2); }
        _ => {}
    }""",
}


def extra_spec(ctx):
    out = []
    for p in PREDICATES:
        out.append("/// %s looks at no location\npub proof fn lemma_blind_%s(a: Node, b: Node)\n    requires eqv_Node(a, b)\n    ensures %s(a) == %s(b)\n{\n%s\n}\n" % (
            p, p, p, p, HINTS.get(p, DEFAULT_HINT)))
    return "\n".join(out)


LEMMAS = [("lemma_c17_same_positions_flagged", "hits-form detector on trees equal up to locations: the same positions of the search result are flagged"),
          ("lemma_walk_eqv", "trees equal up to locations: the tree search yields corresponding nodes"),
          ("lemma_all_nodes_eqv", "trees equal up to locations: the node enumerations correspond"),
          ("lemma_flt_eqv", "filtering by kind keeps the correspondence"),
          ("lemma_eqv_kind", "the kind of a node depends on its variant only")] + [("lemma_blind_%s" % p, "%s looks at no location" % p) for p in PREDICATES]
