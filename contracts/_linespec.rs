// ---------------------------------------------------------------- the text model of C02 (shared by units lines and dispatch)
/// byte offsets of the line-feed characters of a text, in increasing order
pub uninterp spec fn lf_positions(text: Seq<char>) -> Seq<usize>;
/// number of positions in the prefix s[..n] that are < x   ("line feeds that precede offset x")
pub open spec fn count_lt(s: Seq<usize>, n: int, x: usize) -> int
    decreases n
{
    if n <= 0 { 0 } else { count_lt(s, n - 1, x) + if s[n - 1] < x { 1int } else { 0int } }
}
pub open spec fn increasing(s: Seq<usize>) -> bool { forall|a: int, b: int| 0 <= a < b < s.len() ==> s[a] < s[b] }
/// offset x is not itself a line feed (true of the first byte of every construct the parser locates)
pub open spec fn not_a_line_feed(text: Seq<char>, x: usize) -> bool { forall|j: int| 0 <= j < lf_positions(text).len() ==> lf_positions(text)[j] != x }

/// C02: the line on which byte offset x lies, as the property states it:
/// one plus the number of line-feed characters that precede x
pub open spec fn line_of(text: Seq<char>, x: usize) -> int { 1 + count_lt(lf_positions(text), lf_positions(text).len() as int, x) }

pub proof fn lemma_count_lt_all(s: Seq<usize>, n: int, x: usize)
    requires 0 <= n <= s.len(), forall|j: int| 0 <= j < n ==> s[j] < x
    ensures count_lt(s, n, x) == n
    decreases n
{
    if n > 0 { lemma_count_lt_all(s, n - 1, x); }
}
pub proof fn lemma_count_lt_none_after(s: Seq<usize>, k: int, n: int, x: usize)
    requires 0 <= k <= n <= s.len(), forall|j: int| k <= j < n ==> s[j] >= x
    ensures count_lt(s, n, x) == count_lt(s, k, x)
    decreases n - k
{
    if n > k { lemma_count_lt_none_after(s, k, n - 1, x); }
}
