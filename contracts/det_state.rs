// ---------------------------------------------------------------- C08: state-variable table and its consumers
pub open spec fn su_node(su: pt::SourceUnit) -> Node { Node::SourceUnit(su) }
pub open spec fn w1(su: pt::SourceUnit, t: Target) -> Seq<Node> { spec_walk(set![t], su_node(su)) }
pub open spec fn contract_of(n: Node) -> Option<pt::ContractDefinition> {
    match n { Node::SourceUnitPart(pt::SourceUnitPart::ContractDefinition(cd)) => Some(*cd), _ => None }
}
// TRUSTED: String keys obey the hash-map key model; Strings with the same characters are the same value
#[verifier::external_body]
pub proof fn axiom_string_key_model() ensures vstd::std_specs::hash::obeys_key_model::<String>() {}
#[verifier::external_body]
pub proof fn axiom_string_ext() ensures forall|a: String, b: String| a@ == b@ ==> a == b {}
pub assume_specification[ <pt::SourceUnit as Clone>::clone ](a: &pt::SourceUnit) -> (r: pt::SourceUnit) ensures r == *a;
pub assume_specification[ <pt::VariableAttribute as Clone>::clone ](a: &pt::VariableAttribute) -> (r: pt::VariableAttribute) ensures r == *a;

pub type VarInfo = (Option<Vec<pt::VariableAttribute>>, pt::Loc);

/// an attribute among the first k that excludes the variable from the table
pub open spec fn attrs_skip(a: Seq<pt::VariableAttribute>, k: int, ic: bool, ii: bool) -> bool
    decreases k
{
    if 0 < k <= a.len() {
        attrs_skip(a, k - 1, ic, ii) || ((a[k - 1] is Constant) && ic) || ((a[k - 1] is Immutable) && ii)
    } else { false }
}
pub proof fn lemma_attrs_skip_mono(a: Seq<pt::VariableAttribute>, k: int, n: int, ic: bool, ii: bool)
    requires 0 <= k <= n <= a.len(), attrs_skip(a, k, ic, ii)
    ensures attrs_skip(a, n, ic, ii)
    decreases n - k
{ if k < n { lemma_attrs_skip_mono(a, k + 1, n, ic, ii); } }
/// the table entry contributed by one contract member (None: contributes nothing)
pub open spec fn var_entry(p: pt::ContractPart, ic: bool, ii: bool) -> Option<(String, VarInfo)> {
    match p {
        pt::ContractPart::VariableDefinition(d) =>
            if d.attrs@.len() > 0 && attrs_skip(d.attrs@, d.attrs@.len() as int, ic, ii) { None } else {
                match d.ty {
                    pt::Expression::Type(loc, ty) => if ty is Mapping { None } else {
                        Some((d.name.name, (if d.attrs@.len() > 0 { Some(d.attrs) } else { None::<Vec<pt::VariableAttribute>> }, loc)))
                    },
                    _ => None,
                }
            },
        _ => None,
    }
}
pub open spec fn tbl_parts(parts: Seq<pt::ContractPart>, k: int, ic: bool, ii: bool, acc: Map<String, VarInfo>) -> Map<String, VarInfo>
    decreases k
{
    if 0 < k <= parts.len() {
        let m = tbl_parts(parts, k - 1, ic, ii, acc);
        match var_entry(parts[k - 1], ic, ii) { Some((name, info)) => m.insert(name, info), None => m }
    } else { acc }
}
pub open spec fn tbl_contracts(w: Seq<Node>, k: int, ic: bool, ii: bool) -> Map<String, VarInfo>
    decreases k
{
    if 0 < k <= w.len() {
        let m = tbl_contracts(w, k - 1, ic, ii);
        match contract_of(w[k - 1]) { Some(cd) => tbl_parts(cd.parts@, cd.parts@.len() as int, ic, ii, m), None => m }
    } else { Map::<String, VarInfo>::empty() }
}
/// DESIGN §8 C08: the elementary-typed (type expression, not a mapping) member variables of all contracts,
/// minus constant / immutable ones as requested
pub open spec fn sv_table(su: pt::SourceUnit, ic: bool, ii: bool) -> Map<String, VarInfo> {
    tbl_contracts(w1(su, Target::ContractDefinition), w1(su, Target::ContractDefinition).len() as int, ic, ii)
}

// sstore: exactly the plain assignments whose target identifier is in the table (constants and immutables excluded)
pub open spec fn assign_target_name(n: Node) -> Option<String> {
    match n {
        Node::Expression(pt::Expression::Assign(_, lhs, _)) => match *lhs { pt::Expression::Variable(id) => Some(id.name), _ => None },
        _ => None,
    }
}
pub open spec fn pat_sstore(n: Node, tbl: Map<String, VarInfo>) -> bool {
    match assign_target_name(n) { Some(name) => tbl.contains_key(name), None => false }
}
pub open spec fn assign_loc(n: Node) -> pt::Loc { match n { Node::Expression(pt::Expression::Assign(l, _, _)) => l, _ => pt::Loc::Builtin } }

// ---------------------------------------------------------------- TRUSTED model of by-value iteration over HashMap / HashSet
// (std's IntoIter types are opaque; the order of iteration is unspecified: the model only says that the
//  sequence of remaining items has no duplicates and holds exactly the entries of the map / set)
#[verifier::external_type_specification]
#[verifier::external_body]
#[verifier::reject_recursive_types(K)]
#[verifier::reject_recursive_types(V)]
#[verifier::reject_recursive_types(A)]
pub struct ExHmIntoIter<K, V, A: core::alloc::Allocator>(std::collections::hash_map::IntoIter<K, V, A>);
pub uninterp spec fn hm_rem<K, V, A: core::alloc::Allocator>(it: std::collections::hash_map::IntoIter<K, V, A>) -> Seq<(K, V)>;
/// `IntoIterator::into_iter(m)` for a HashMap, under its trusted contract (used by the R5 desugaring of `for (k, v) in map`)
#[verifier::external_body]
pub fn vx_into_iter_hm<K, V>(m: HashMap<K, V>) -> (it: std::collections::hash_map::IntoIter<K, V>)
    ensures
        hm_rem(it).no_duplicates(),
        forall|k: K, v: V| #![trigger hm_rem(it).contains((k, v))] hm_rem(it).contains((k, v)) <==> (m@.contains_key(k) && m@[k] == v),
{
    m.into_iter()
}
pub assume_specification<K, V, A: core::alloc::Allocator>[ <std::collections::hash_map::IntoIter<K, V, A> as Iterator>::next ](it: &mut std::collections::hash_map::IntoIter<K, V, A>) -> (r: Option<(K, V)>)
    ensures
        match r {
            Some(kv) => hm_rem(*old(it)).len() > 0 && kv == hm_rem(*old(it))[0] && hm_rem(*final(it)) == hm_rem(*old(it)).subrange(1, hm_rem(*old(it)).len() as int),
            None => hm_rem(*old(it)).len() == 0 && hm_rem(*final(it)) == hm_rem(*old(it)),
        };

// ---- writes: the 15 forms of DESIGN §8 C08 whose direct target is an identifier
pub open spec fn var_name(e: pt::Expression) -> Option<String> { match e { pt::Expression::Variable(id) => Some(id.name), _ => None } }
pub open spec fn write_target(n: Node) -> Option<String> {
    match n {
        Node::Expression(e) => match e {
            pt::Expression::Assign(_, l, _) => var_name(*l),
            pt::Expression::PreIncrement(_, l) => var_name(*l),
            pt::Expression::PostIncrement(_, l) => var_name(*l),
            pt::Expression::PreDecrement(_, l) => var_name(*l),
            pt::Expression::PostDecrement(_, l) => var_name(*l),
            pt::Expression::AssignAdd(_, l, _) => var_name(*l),
            pt::Expression::AssignAnd(_, l, _) => var_name(*l),
            pt::Expression::AssignDivide(_, l, _) => var_name(*l),
            pt::Expression::AssignModulo(_, l, _) => var_name(*l),
            pt::Expression::AssignMultiply(_, l, _) => var_name(*l),
            pt::Expression::AssignOr(_, l, _) => var_name(*l),
            pt::Expression::AssignShiftLeft(_, l, _) => var_name(*l),
            pt::Expression::AssignShiftRight(_, l, _) => var_name(*l),
            pt::Expression::AssignSubtract(_, l, _) => var_name(*l),
            pt::Expression::AssignXor(_, l, _) => var_name(*l),
            _ => None,
        },
        _ => None,
    }
}
pub open spec fn write_kinds() -> Seq<Target> {
    seq![Target::Assign, Target::PreIncrement, Target::PostIncrement, Target::PreDecrement, Target::PostDecrement,
         Target::AssignAdd, Target::AssignAnd, Target::AssignDivide, Target::AssignModulo, Target::AssignMultiply,
         Target::AssignOr, Target::AssignShiftLeft, Target::AssignShiftRight, Target::AssignSubtract, Target::AssignXor]
}
pub open spec fn w_writes(root: Node) -> Seq<Node> { spec_walk(tset(write_kinds(), 15), root) }
/// the table after removing every written name among the first k write nodes
pub open spec fn after_writes<V>(w: Seq<Node>, k: int, m: Map<String, V>) -> Map<String, V>
    decreases k
{
    if 0 < k <= w.len() {
        match write_target(w[k - 1]) { Some(name) => after_writes(w, k - 1, m).remove(name), None => after_writes(w, k - 1, m) }
    } else { m }
}
/// C08 never-clause as a lemma: a name that is the target of some write is not in the final table
pub proof fn lemma_written_removed<V>(w: Seq<Node>, k: int, m: Map<String, V>, i: int)
    requires 0 <= i < k <= w.len(), write_target(w[i]) is Some
    ensures !after_writes(w, k, m).contains_key(write_target(w[i]).unwrap())
    decreases k
{
    if i < k - 1 { lemma_written_removed(w, k - 1, m, i); }
}
/// C08 always-clause: a name in the table that no write targets stays in the final table with its entry
pub proof fn lemma_unwritten_kept<V>(w: Seq<Node>, k: int, m: Map<String, V>, name: String)
    requires 0 <= k <= w.len(), m.contains_key(name), forall|i: int| 0 <= i < k ==> write_target(#[trigger] w[i]) != Some(name)
    ensures after_writes(w, k, m).contains_key(name), after_writes(w, k, m)[name] == m[name]
    decreases k
{
    if k > 0 { lemma_unwritten_kept(w, k - 1, m, name); }
}
pub open spec fn const_final(su: pt::SourceUnit) -> Map<String, VarInfo> {
    after_writes(w_writes(su_node(su)), w_writes(su_node(su)).len() as int, sv_table(su, true, false))
}

// ---------------------------------------------------------------- memory_to_calldata
pub open spec fn any_fn_def(n: Node) -> Option<pt::FunctionDefinition> {
    match n {
        Node::ContractPart(pt::ContractPart::FunctionDefinition(f)) => Some(*f),
        Node::SourceUnitPart(pt::SourceUnitPart::FunctionDefinition(f)) => Some(*f),
        _ => None,
    }
}
/// named `memory` parameters: name -> location of the `memory` keyword
pub open spec fn margs(ps: Seq<(pt::Loc, Option<pt::Parameter>)>, k: int) -> Map<String, pt::Loc>
    decreases k
{
    if 0 < k <= ps.len() {
        let m = margs(ps, k - 1);
        match ps[k - 1].1 {
            Some(p) => match (p.storage, p.name) {
                (Some(pt::StorageLocation::Memory(loc)), Some(id)) => m.insert(id.name, loc),
                _ => m,
            },
            None => m,
        }
    } else { Map::<String, pt::Loc>::empty() }
}
/// innermost base of a chain of index accesses
pub open spec fn peel(e: pt::Expression) -> pt::Expression
    decreases e
{
    match e { pt::Expression::ArraySubscript(_, inner, _) => peel(*inner), _ => e }
}
/// the parameter name a plain assignment writes to: `p = ..` or `p[i]..[j] = ..`
pub open spec fn assign_base(n: Node) -> Option<String> {
    match n {
        Node::Expression(pt::Expression::Assign(_, lhs, _)) => match *lhs {
            pt::Expression::Variable(id) => Some(id.name),
            pt::Expression::ArraySubscript(_, b, _) => var_name(peel(*b)),
            _ => None,
        },
        _ => None,
    }
}
pub open spec fn after_assigns(w: Seq<Node>, k: int, m: Map<String, pt::Loc>) -> Map<String, pt::Loc>
    decreases k
{
    if 0 < k <= w.len() {
        match assign_base(w[k - 1]) { Some(name) => after_assigns(w, k - 1, m).remove(name), None => after_assigns(w, k - 1, m) }
    } else { m }
}
pub open spec fn w_assigns(body: pt::Statement) -> Seq<Node> { spec_walk(set![Target::Assign], Node::Statement(body)) }
pub open spec fn mtc_final(f: pt::FunctionDefinition) -> Map<String, pt::Loc> {
    after_assigns(w_assigns(f.body.unwrap()), w_assigns(f.body.unwrap()).len() as int, margs(f.params@, f.params@.len() as int))
}
pub open spec fn mtc_of_fn(n: Node) -> Set<pt::Loc> {
    match any_fn_def(n) {
        Some(f) => if !(f.ty is Constructor) && (f.body is Some) { mtc_final(f).values() } else { Set::<pt::Loc>::empty() },
        None => Set::<pt::Loc>::empty(),
    }
}
pub open spec fn union_hits(w: Seq<Node>, k: int, f: spec_fn(Node) -> Set<pt::Loc>) -> Set<pt::Loc>
    decreases k
{
    if 0 < k <= w.len() { union_hits(w, k - 1, f).union(f(w[k - 1])) } else { Set::<pt::Loc>::empty() }
}
/// C08 never-clause: a parameter assigned (directly or through indexes) in the body is not suggested
pub proof fn lemma_assigned_removed(w: Seq<Node>, k: int, m: Map<String, pt::Loc>, i: int)
    requires 0 <= i < k <= w.len(), assign_base(w[i]) is Some
    ensures !after_assigns(w, k, m).contains_key(assign_base(w[i]).unwrap())
    decreases k
{
    if i < k - 1 { lemma_assigned_removed(w, k - 1, m, i); }
}
#[verifier::external_body]
pub proof fn axiom_function_ty_eq()
    ensures
        <pt::FunctionTy as vstd::std_specs::cmp::PartialEqSpec<pt::FunctionTy>>::obeys_eq_spec(),
        forall|a: pt::FunctionTy, b: pt::FunctionTy| #[trigger] <pt::FunctionTy as vstd::std_specs::cmp::PartialEqSpec<pt::FunctionTy>>::eq_spec(&a, &b) == (a == b),
{}
pub assume_specification[ <pt::FunctionDefinition as Clone>::clone ](a: &pt::FunctionDefinition) -> (r: pt::FunctionDefinition) ensures r == *a;
/// values seen among the first k items of an iteration sequence
pub open spec fn seq_vals(s: Seq<(String, pt::Loc)>, k: int) -> Set<pt::Loc>
    decreases k
{
    if 0 < k <= s.len() { seq_vals(s, k - 1).insert(s[k - 1].1) } else { Set::<pt::Loc>::empty() }
}
pub proof fn lemma_seq_vals_contains(s: Seq<(String, pt::Loc)>, k: int, l: pt::Loc)
    requires 0 <= k <= s.len()
    ensures seq_vals(s, k).contains(l) <==> (exists|j: int| 0 <= j < k && (#[trigger] s[j]).1 == l)
    decreases k
{
    if k > 0 {
        lemma_seq_vals_contains(s, k - 1, l);
        if s[k - 1].1 == l { assert(s[k - 1].1 == l); }
    }
}
/// iterating a map by value visits exactly its values
pub proof fn lemma_seq_vals_all(s: Seq<(String, pt::Loc)>, fin: Map<String, pt::Loc>)
    requires forall|k: String, v: pt::Loc| #![trigger s.contains((k, v))] s.contains((k, v)) <==> (fin.contains_key(k) && fin[k] == v)
    ensures seq_vals(s, s.len() as int) =~= fin.values()
{
    assert forall|l: pt::Loc| seq_vals(s, s.len() as int).contains(l) <==> fin.values().contains(l) by {
        lemma_seq_vals_contains(s, s.len() as int, l);
        if fin.values().contains(l) {
            let name = choose|name: String| fin.contains_key(name) && fin[name] == l;
            assert(s.contains((name, l)));
            let j = choose|j: int| 0 <= j < s.len() && s[j] == (name, l);
            assert(s[j].1 == l);
        }
        if (exists|j: int| 0 <= j < s.len() && (#[trigger] s[j]).1 == l) {
            let j = choose|j: int| 0 <= j < s.len() && (#[trigger] s[j]).1 == l;
            assert(s.contains(s[j]));
            assert(s[j] == (s[j].0, s[j].1));
            assert(fin.contains_key(s[j].0) && fin[s[j].0] == l);
        }
    }
}

// ---------------------------------------------------------------- immutable_variables
pub open spec fn fn_def_of(n: Node) -> Option<pt::FunctionDefinition> {
    match n { Node::ContractPart(pt::ContractPart::FunctionDefinition(f)) => Some(*f), _ => None }
}
pub open spec fn w_fns(c: Node) -> Seq<Node> { spec_walk(set![Target::FunctionDefinition], c) }
/// the assigned value can not be stored in an immutable (string literal, abi.*(..) call, bytes(..) conversion)
pub open spec fn non_value(e: pt::Expression) -> bool {
    match e {
        pt::Expression::StringLiteral(_) => true,
        pt::Expression::FunctionCall(_, f, _) => match *f {
            pt::Expression::MemberAccess(_, b, _) => match *b { pt::Expression::Variable(id) => id.name@ == "abi"@, _ => false },
            pt::Expression::Type(_, ty) => ty is DynamicBytes,
            _ => false,
        },
        _ => false,
    }
}
pub open spec fn ctor_assign_step(n: Node, tbl: Map<String, VarInfo>, m: Map<String, pt::Loc>) -> Map<String, pt::Loc> {
    match n {
        Node::Expression(pt::Expression::Assign(_, lhs, rhs)) => if non_value(*rhs) { m } else {
            match *lhs {
                pt::Expression::Variable(id) => if tbl.contains_key(id.name) { m.insert(id.name, tbl[id.name].1) } else { m },
                _ => m,
            }
        },
        _ => m,
    }
}
pub open spec fn ctor_assigns(w: Seq<Node>, k: int, tbl: Map<String, VarInfo>, m: Map<String, pt::Loc>) -> Map<String, pt::Loc>
    decreases k
{ if 0 < k <= w.len() { ctor_assign_step(w[k - 1], tbl, ctor_assigns(w, k - 1, tbl, m)) } else { m } }
pub open spec fn ctor_fn(n: Node, tbl: Map<String, VarInfo>, m: Map<String, pt::Loc>) -> Map<String, pt::Loc> {
    match fn_def_of(n) {
        Some(f) => if (f.ty is Constructor) && (f.body is Some) {
            ctor_assigns(w_assigns(f.body.unwrap()), w_assigns(f.body.unwrap()).len() as int, tbl, m)
        } else { m },
        None => m,
    }
}
pub open spec fn ctor_fns(w: Seq<Node>, k: int, tbl: Map<String, VarInfo>, m: Map<String, pt::Loc>) -> Map<String, pt::Loc>
    decreases k
{ if 0 < k <= w.len() { ctor_fn(w[k - 1], tbl, ctor_fns(w, k - 1, tbl, m)) } else { m } }
pub open spec fn ctor_contracts(w: Seq<Node>, k: int, tbl: Map<String, VarInfo>) -> Map<String, pt::Loc>
    decreases k
{
    if 0 < k <= w.len() { ctor_fns(w_fns(w[k - 1]), w_fns(w[k - 1]).len() as int, tbl, ctor_contracts(w, k - 1, tbl)) } else { Map::<String, pt::Loc>::empty() }
}
/// table variables that receive a value-typed plain assignment inside some constructor body
pub open spec fn assigned_in_ctor(su: pt::SourceUnit, tbl: Map<String, VarInfo>) -> Map<String, pt::Loc> {
    ctor_contracts(w1(su, Target::ContractDefinition), w1(su, Target::ContractDefinition).len() as int, tbl)
}
pub open spec fn imm_fn(n: Node, m: Map<String, pt::Loc>) -> Map<String, pt::Loc> {
    match fn_def_of(n) {
        Some(f) => if f.ty is Constructor { m } else { after_writes(w_writes(n), w_writes(n).len() as int, m) },
        None => m,
    }
}
pub open spec fn imm_fns(w: Seq<Node>, k: int, m: Map<String, pt::Loc>) -> Map<String, pt::Loc>
    decreases k
{ if 0 < k <= w.len() { imm_fn(w[k - 1], imm_fns(w, k - 1, m)) } else { m } }
pub open spec fn imm_contracts(w: Seq<Node>, k: int, m: Map<String, pt::Loc>) -> Map<String, pt::Loc>
    decreases k
{ if 0 < k <= w.len() { imm_fns(w_fns(w[k - 1]), w_fns(w[k - 1]).len() as int, imm_contracts(w, k - 1, m)) } else { m } }
pub open spec fn imm_final(su: pt::SourceUnit) -> Map<String, pt::Loc> {
    imm_contracts(w1(su, Target::ContractDefinition), w1(su, Target::ContractDefinition).len() as int,
                  assigned_in_ctor(su, sv_table(su, true, true)))
}
pub assume_specification[ <pt::Expression as Clone>::clone ](a: &pt::Expression) -> (r: pt::Expression) ensures r == *a;
pub assume_specification[ <pt::ContractPart as Clone>::clone ](a: &pt::ContractPart) -> (r: pt::ContractPart) ensures r == *a;
// TRUSTED: derived PartialEq of pt::Type is structural equality
#[verifier::external_body]
pub proof fn axiom_type_eq()
    ensures
        <pt::Type as vstd::std_specs::cmp::PartialEqSpec<pt::Type>>::obeys_eq_spec(),
        forall|a: pt::Type, b: pt::Type| #[trigger] <pt::Type as vstd::std_specs::cmp::PartialEqSpec<pt::Type>>::eq_spec(&a, &b) == (a == b),
{}
#[verifier::external_body]
pub proof fn axiom_node_into_identity()
    ensures <Node as FromSpec<Node>>::obeys_from_spec(), forall|n: Node| #[trigger] <Node as FromSpec<Node>>::from_spec(n) == n
{}
pub proof fn lemma_flt_member(t: Set<Target>, s: Seq<Node>, x: Node)
    requires flt(t, s).contains(x)
    ensures s.contains(x), wanted(t, x)
    decreases s.len()
{
    reveal(Seq::filter);
    if s.len() > 0 {
        let sub = s.drop_last();
        if flt(t, sub).contains(x) {
            lemma_flt_member(t, sub, x);
            let j = choose|j: int| 0 <= j < sub.len() && sub[j] == x;
            assert(s[j] == x);
        } else {
            let i = choose|i: int| 0 <= i < flt(t, s).len() && flt(t, s)[i] == x;
            assert(wanted(t, s.last()));
            assert(flt(t, s) =~= flt(t, sub).push(s.last()));
            if i < flt(t, sub).len() { assert(flt(t, sub)[i] == x); assert(false); }
            assert(x == s.last());
            assert(s[s.len() - 1] == x);
        }
    }
}
pub proof fn lemma_fn_nodes_in_contract(c: Node, i: int)
    requires contract_of(c) is Some, 0 <= i < spec_walk(set![Target::FunctionDefinition], c).len()
    ensures
        spec_walk(set![Target::FunctionDefinition], c)[i] is ContractPart,
        kind(spec_walk(set![Target::FunctionDefinition], c)[i]) == Target::FunctionDefinition,
{
    let t = set![Target::FunctionDefinition];
    let s = all_nodes(c);
    let x = flt(t, s)[i];
    assert(flt(t, s).contains(x));
    lemma_flt_member(t, s, x);
    let j = choose|j: int| 0 <= j < s.len() && s[j] == x;
    match c {
        Node::SourceUnitPart(p) => {
            lemma_bt_SourceUnitPart(p);
            if j == 0 { assert(s[0] == c); } else { assert(s.subrange(1, s.len() as int)[j - 1] == s[j]); assert(below_top(x)); }
        }
        _ => {}
    }
}
