// ---------------------------------------------------------------- C08: state-variable table and its consumers
pub open spec fn su_node(su: pt::SourceUnit) -> Node { Node::SourceUnit(su) }
pub open spec fn w1(su: pt::SourceUnit, t: Target) -> Seq<Node> { spec_walk(set![t], su_node(su)) }
pub open spec fn contract_of(n: Node) -> Option<pt::ContractDefinition> {
    match n { Node::SourceUnitPart(pt::SourceUnitPart::ContractDefinition(cd)) => Some(*cd), _ => None }
}
// TRUSTED: String keys obey the hash-map key model; Strings with the same characters are the same value
#[verifier::external_body]
pub proof fn axiom_string_key_model() ensures vstd::std_specs::hash::obeys_key_model::<String>() {}
#[verifier::external_body]
pub proof fn axiom_string_ext() ensures forall|a: String, b: String| a@ == b@ ==> a == b {}
pub assume_specification[ <pt::SourceUnit as Clone>::clone ](a: &pt::SourceUnit) -> (r: pt::SourceUnit) ensures r == *a;
pub assume_specification[ <pt::VariableAttribute as Clone>::clone ](a: &pt::VariableAttribute) -> (r: pt::VariableAttribute) ensures r == *a;

pub type VarInfo = (Option<Vec<pt::VariableAttribute>>, pt::Loc);

/// an attribute among the first k that excludes the variable from the table
pub open spec fn attrs_skip(a: Seq<pt::VariableAttribute>, k: int, ic: bool, ii: bool) -> bool
    decreases k
{
    if 0 < k <= a.len() {
        attrs_skip(a, k - 1, ic, ii) || ((a[k - 1] is Constant) && ic) || ((a[k - 1] is Immutable) && ii)
    } else { false }
}
pub proof fn lemma_attrs_skip_mono(a: Seq<pt::VariableAttribute>, k: int, n: int, ic: bool, ii: bool)
    requires 0 <= k <= n <= a.len(), attrs_skip(a, k, ic, ii)
    ensures attrs_skip(a, n, ic, ii)
    decreases n - k
{ if k < n { lemma_attrs_skip_mono(a, k + 1, n, ic, ii); } }
/// the table entry contributed by one contract member (None: contributes nothing)
pub open spec fn var_entry(p: pt::ContractPart, ic: bool, ii: bool) -> Option<(String, VarInfo)> {
    match p {
        pt::ContractPart::VariableDefinition(d) =>
            if d.attrs@.len() > 0 && attrs_skip(d.attrs@, d.attrs@.len() as int, ic, ii) { None } else {
                match d.ty {
                    pt::Expression::Type(loc, ty) => if ty is Mapping { None } else {
                        Some((d.name.name, (if d.attrs@.len() > 0 { Some(d.attrs) } else { None::<Vec<pt::VariableAttribute>> }, loc)))
                    },
                    _ => None,
                }
            },
        _ => None,
    }
}
pub open spec fn tbl_parts(parts: Seq<pt::ContractPart>, k: int, ic: bool, ii: bool, acc: Map<String, VarInfo>) -> Map<String, VarInfo>
    decreases k
{
    if 0 < k <= parts.len() {
        let m = tbl_parts(parts, k - 1, ic, ii, acc);
        match var_entry(parts[k - 1], ic, ii) { Some((name, info)) => m.insert(name, info), None => m }
    } else { acc }
}
pub open spec fn tbl_contracts(w: Seq<Node>, k: int, ic: bool, ii: bool) -> Map<String, VarInfo>
    decreases k
{
    if 0 < k <= w.len() {
        let m = tbl_contracts(w, k - 1, ic, ii);
        match contract_of(w[k - 1]) { Some(cd) => tbl_parts(cd.parts@, cd.parts@.len() as int, ic, ii, m), None => m }
    } else { Map::<String, VarInfo>::empty() }
}
/// DESIGN §8 C08: the elementary-typed (type expression, not a mapping) member variables of all contracts,
/// minus constant / immutable ones as requested
pub open spec fn sv_table(su: pt::SourceUnit, ic: bool, ii: bool) -> Map<String, VarInfo> {
    tbl_contracts(w1(su, Target::ContractDefinition), w1(su, Target::ContractDefinition).len() as int, ic, ii)
}

// sstore: exactly the plain assignments whose target identifier is in the table (constants and immutables excluded)
pub open spec fn assign_target_name(n: Node) -> Option<String> {
    match n {
        Node::Expression(pt::Expression::Assign(_, lhs, _)) => match *lhs { pt::Expression::Variable(id) => Some(id.name), _ => None },
        _ => None,
    }
}
pub open spec fn pat_sstore(n: Node, tbl: Map<String, VarInfo>) -> bool {
    match assign_target_name(n) { Some(name) => tbl.contains_key(name), None => false }
}
pub open spec fn assign_loc(n: Node) -> pt::Loc { match n { Node::Expression(pt::Expression::Assign(l, _, _)) => l, _ => pt::Loc::Builtin } }

// ---------------------------------------------------------------- TRUSTED model of by-value iteration over HashMap / HashSet
// (std's IntoIter types are opaque; the order of iteration is unspecified: the model only says that the
//  sequence of remaining items has no duplicates and holds exactly the entries of the map / set)
#[verifier::external_type_specification]
#[verifier::external_body]
#[verifier::reject_recursive_types(K)]
#[verifier::reject_recursive_types(V)]
#[verifier::reject_recursive_types(A)]
pub struct ExHmIntoIter<K, V, A: core::alloc::Allocator>(std::collections::hash_map::IntoIter<K, V, A>);
pub uninterp spec fn hm_rem<K, V, A: core::alloc::Allocator>(it: std::collections::hash_map::IntoIter<K, V, A>) -> Seq<(K, V)>;
/// `IntoIterator::into_iter(m)` for a HashMap, under its trusted contract (used by the R5 desugaring of `for (k, v) in map`)
#[verifier::external_body]
pub fn vx_into_iter_hm<K, V>(m: HashMap<K, V>) -> (it: std::collections::hash_map::IntoIter<K, V>)
    ensures
        hm_rem(it).no_duplicates(),
        forall|k: K, v: V| #![trigger hm_rem(it).contains((k, v))] hm_rem(it).contains((k, v)) <==> (m@.contains_key(k) && m@[k] == v),
{
    m.into_iter()
}
pub assume_specification<K, V, A: core::alloc::Allocator>[ <std::collections::hash_map::IntoIter<K, V, A> as Iterator>::next ](it: &mut std::collections::hash_map::IntoIter<K, V, A>) -> (r: Option<(K, V)>)
    ensures
        match r {
            Some(kv) => hm_rem(*old(it)).len() > 0 && kv == hm_rem(*old(it))[0] && hm_rem(*final(it)) == hm_rem(*old(it)).subrange(1, hm_rem(*old(it)).len() as int),
            None => hm_rem(*old(it)).len() == 0 && hm_rem(*final(it)) == hm_rem(*old(it)),
        };

// ---- writes: the 15 forms of DESIGN §8 C08 whose direct target is an identifier
pub open spec fn var_name(e: pt::Expression) -> Option<String> { match e { pt::Expression::Variable(id) => Some(id.name), _ => None } }
pub open spec fn write_target(n: Node) -> Option<String> {
    match n {
        Node::Expression(e) => match e {
            pt::Expression::Assign(_, l, _) => var_name(*l),
            pt::Expression::PreIncrement(_, l) => var_name(*l),
            pt::Expression::PostIncrement(_, l) => var_name(*l),
            pt::Expression::PreDecrement(_, l) => var_name(*l),
            pt::Expression::PostDecrement(_, l) => var_name(*l),
            pt::Expression::AssignAdd(_, l, _) => var_name(*l),
            pt::Expression::AssignAnd(_, l, _) => var_name(*l),
            pt::Expression::AssignDivide(_, l, _) => var_name(*l),
            pt::Expression::AssignModulo(_, l, _) => var_name(*l),
            pt::Expression::AssignMultiply(_, l, _) => var_name(*l),
            pt::Expression::AssignOr(_, l, _) => var_name(*l),
            pt::Expression::AssignShiftLeft(_, l, _) => var_name(*l),
            pt::Expression::AssignShiftRight(_, l, _) => var_name(*l),
            pt::Expression::AssignSubtract(_, l, _) => var_name(*l),
            pt::Expression::AssignXor(_, l, _) => var_name(*l),
            _ => None,
        },
        _ => None,
    }
}
pub open spec fn write_kinds() -> Seq<Target> {
    seq![Target::Assign, Target::PreIncrement, Target::PostIncrement, Target::PreDecrement, Target::PostDecrement,
         Target::AssignAdd, Target::AssignAnd, Target::AssignDivide, Target::AssignModulo, Target::AssignMultiply,
         Target::AssignOr, Target::AssignShiftLeft, Target::AssignShiftRight, Target::AssignSubtract, Target::AssignXor]
}
pub open spec fn w_writes(root: Node) -> Seq<Node> { spec_walk(tset(write_kinds(), 15), root) }
/// the table after removing every written name among the first k write nodes
pub open spec fn after_writes<V>(w: Seq<Node>, k: int, m: Map<String, V>) -> Map<String, V>
    decreases k
{
    if 0 < k <= w.len() {
        match write_target(w[k - 1]) { Some(name) => after_writes(w, k - 1, m).remove(name), None => after_writes(w, k - 1, m) }
    } else { m }
}
/// C08 never-clause as a lemma: a name that is the target of some write is not in the final table
pub proof fn lemma_written_removed<V>(w: Seq<Node>, k: int, m: Map<String, V>, i: int)
    requires 0 <= i < k <= w.len(), write_target(w[i]) is Some
    ensures !after_writes(w, k, m).contains_key(write_target(w[i]).unwrap())
    decreases k
{
    if i < k - 1 { lemma_written_removed(w, k - 1, m, i); }
}
/// C08 always-clause: a name in the table that no write targets stays in the final table with its entry
pub proof fn lemma_unwritten_kept<V>(w: Seq<Node>, k: int, m: Map<String, V>, name: String)
    requires 0 <= k <= w.len(), m.contains_key(name), forall|i: int| 0 <= i < k ==> write_target(#[trigger] w[i]) != Some(name)
    ensures after_writes(w, k, m).contains_key(name), after_writes(w, k, m)[name] == m[name]
    decreases k
{
    if k > 0 { lemma_unwritten_kept(w, k - 1, m, name); }
}
pub open spec fn const_final(su: pt::SourceUnit) -> Map<String, VarInfo> {
    after_writes(w_writes(su_node(su)), w_writes(su_node(su)).len() as int, sv_table(su, true, false))
}
