"""Unit `lines` (C02): utils::get_line_number against a TRUSTED model of the regex crate (contracts/lines.rs)."""
U_ = "src/analyzer/utils.rs"
STANDALONE = True
INCLUDES = ["_linespec"]
FEATURES = "#![allow(unused_imports, unused_variables, unused_mut, unused_parens, dead_code, unused_assignments, unreachable_code)]"

FUNCTIONS = [
    dict(name="get_line_number", rel=U_,
         attrs=["#[verifier::loop_isolation(false)]", "#[verifier::allow_complex_invariants]"],
         contract="requires lf_positions(file_contents@).len() < 0x7fff_fff0, not_a_line_feed(file_contents@, char_number)\n    ensures r as int == line_of(file_contents@, char_number)",
         start="    let ghost lf = lf_positions(file_contents@);",
         after=[dict(match=r"^let\s+re\s*=", where="before", text="proof { reveal_strlit(r\"\\n\"); }"),
                dict(match=r"^let\s+mut\s+i\s*=", text="proof { axiom_newline_regex(re_pattern(re), file_contents@); }")],
         loops=[dict(match=r"captures_iter", binder="cm", r5=True, rem="cm_rem", into_iter="vx_ident",
                     inv="i as int == 1 + $k, forall|j: int| 0 <= j < $k ==> lf[j] < char_number, $s == all_captures(re_pattern(re), file_contents@), $s.len() == lf.len(), increasing(lf)",
                     body="let ghost k0 = $k - 1;",
                     after="proof { lemma_count_lt_all(lf, lf.len() as int, char_number); }"),
                dict(match=r"capture\s*\.\s*iter", binder="sc", r5=True, rem="sc_rem", into_iter="vx_ident",
                     inv="$s == cap_groups(cm_s[k0]), $s.len() == 1, i as int == 1 + k0 + $k, $k == 1 ==> lf[k0] < char_number",
                     body="proof { if lf[k0] > char_number { lemma_count_lt_all(lf, k0, char_number); lemma_count_lt_none_after(lf, k0, lf.len() as int, char_number); } }")]),
]
LEMMAS = [
    ("lemma_count_lt_all", "all of the first n positions are < x: the count is n"),
    ("lemma_count_lt_none_after", "no position from k on is < x: the count stops at k"),
]
