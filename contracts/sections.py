"""Unit `sections` (C11 / C12): the three pattern -> report-section tables and the severity table.

get_optimization_report_section / get_vulnerability_report_section / get_qa_report_section are PROVED to return, for each
pattern, the text produced by the `report_section_content` of the report-section module documented for that pattern, and
get_vulnerability_report_section the severity the property statement names (selfdestruct high, divide-before-multiply
medium, ERC20 and pragma low). The section modules themselves are external_body stubs (`r@ == section_text_<module>()`,
an uninterpreted constant per module); `extra_spec` checks that every module file exists and defines the function.
The variant -> module table is written from the documentation, not read from the match."""
import os

OPT = "src/report/optimization_report.rs"
VUL = "src/report/vulnerability_report.rs"
QA = "src/report/qa_report.rs"
STANDALONE = True
FEATURES = "#![allow(unused_imports, unused_variables, dead_code)]"

SECTIONS = [
    ("Optimization", "AddressBalance", "address_balance"),
    ("Optimization", "AddressZero", "address_zero"),
    ("Optimization", "AssignUpdateArrayValue", "assign_update_array_value"),
    ("Optimization", "BoolEqualsBool", "bool_equals_bool"),
    ("Optimization", "CacheArrayLength", "cache_array_length"),
    ("Optimization", "ConstantVariables", "constant_variable"),
    ("Optimization", "ImmutableVarialbes", "immutable_variable"),
    ("Optimization", "IncrementDecrement", "increment_decrement"),
    ("Optimization", "MemoryToCalldata", "memory_to_calldata"),
    ("Optimization", "MultipleRequire", "multiple_require"),
    ("Optimization", "PackStorageVariables", "pack_storage_variables"),
    ("Optimization", "PackStructVariables", "pack_struct_variables"),
    ("Optimization", "PayableFunction", "payable_function"),
    ("Optimization", "PrivateConstant", "private_constant"),
    ("Optimization", "SafeMathPre080", "safe_math_pre_080"),
    ("Optimization", "SafeMathPost080", "safe_math_post_080"),
    ("Optimization", "ShiftMath", "shift_math"),
    ("Optimization", "SolidityKeccak256", "solidity_keccak256"),
    ("Optimization", "SolidityMath", "solidity_math"),
    ("Optimization", "Sstore", "sstore"),
    ("Optimization", "StringErrors", "string_errors"),
    ("Optimization", "OptimalComparison", "optimal_comparison"),
    ("Optimization", "ShortRevertString", "short_revert_string"),
    ("Vulnerability", "FloatingPragma", "floating_pragma"),
    ("Vulnerability", "UnsafeERC20Operation", "unsafe_erc20_operation"),
    ("Vulnerability", "UnprotectedSelfdestruct", "unprotected_selfdestruct"),
    ("Vulnerability", "DivideBeforeMultiply", "divide_before_multiply"),
    ("QualityAssurance", "ConstructorOrder", "constructor_order"),
    ("QualityAssurance", "PrivateVarsLeadingUnderscore", "private_vars_leading_underscore"),
    ("QualityAssurance", "PrivateFuncLeadingUnderscore", "private_func_leading_underscore"),
]
# C12: "selfdestruct high, divide-before-multiply medium, ERC20 and pragma low"
SEVERITY = {"UnprotectedSelfdestruct": "High", "DivideBeforeMultiply": "Medium", "UnsafeERC20Operation": "Low", "FloatingPragma": "Low"}
CAT_DIR = {"Optimization": "src/report/report_sections/optimizations", "Vulnerability": "src/report/report_sections/vulnerabilities",
           "QualityAssurance": "src/report/report_sections/qa"}
SEC_FN = {"Optimization": "opt_section", "Vulnerability": "vuln_section", "QualityAssurance": "qa_section"}

ITEMS = [dict(rel="src/analyzer/optimizations/mod.rs", kind="enum", name="Optimization"),
         dict(rel="src/analyzer/vulnerabilities/mod.rs", kind="enum", name="Vulnerability"),
         dict(rel="src/analyzer/qa/mod.rs", kind="enum", name="QualityAssurance"),
         dict(rel=VUL, kind="enum", name="VulnerabilitySeverity")]


def extra_spec(ctx):
    out = ["// ---- report-section module stubs (external_body) and the documented pattern -> section tables"]
    per = {}
    for (en, var, mod) in SECTIONS:
        ctx.fn(os.path.join(CAT_DIR[en], mod + ".rs"), "report_section_content")   # LostAnchor if the module is gone
        out.append("pub uninterp spec fn section_text_%s() -> Seq<char>;" % mod)
        out.append("pub mod %s { use super::*; #[verifier::external_body] pub fn report_section_content() -> (r: String) ensures r@ == section_text_%s() { unimplemented!() } }" % (mod, mod))
        per.setdefault(en, []).append((var, mod))
    for en, arms in per.items():
        out.append("pub open spec fn %s(p: %s) -> Seq<char> {\n    match p {\n%s\n    }\n}" % (
            SEC_FN[en], en, "\n".join("        %s::%s => section_text_%s()," % (en, v, m) for v, m in arms)))
    out.append("pub open spec fn vuln_severity(p: Vulnerability) -> VulnerabilitySeverity {\n    match p {\n%s\n    }\n}" % (
        "\n".join("        Vulnerability::%s => VulnerabilitySeverity::%s," % (v, s) for v, s in SEVERITY.items())))
    return "\n".join(out) + "\n"


FUNCTIONS = [
    dict(name="get_optimization_report_section", rel=OPT, contract="ensures r@ == opt_section(optimization)"),
    dict(name="get_vulnerability_report_section", rel=VUL, contract="ensures r.0@ == vuln_section(vulnerability), r.1 == vuln_severity(vulnerability)"),
    dict(name="get_qa_report_section", rel=QA, contract="ensures r@ == qa_section(qa)"),
]
