// ---------------------------------------------------------------- C17: the detectors' verdicts do not depend on locations
/// the kind of a node depends on its variant only
pub proof fn lemma_eqv_kind(a: Node, b: Node)
    requires eqv_Node(a, b)
    ensures kind(a) == kind(b)
{
    match (a, b) {
        (Node::Statement(x), Node::Statement(y)) => { assert(eqv_Statement(x, y)); }
        (Node::Expression(x), Node::Expression(y)) => { assert(eqv_Expression(x, y)); lemma_eqv_kind_Expression(x, y); }
        (Node::SourceUnit(x), Node::SourceUnit(y)) => {}
        (Node::SourceUnitPart(x), Node::SourceUnitPart(y)) => { assert(eqv_SourceUnitPart(x, y)); }
        (Node::ContractPart(x), Node::ContractPart(y)) => { assert(eqv_ContractPart(x, y)); }
        _ => {}
    }
}
pub proof fn lemma_eqv_kind_Expression(x: pt::Expression, y: pt::Expression)
    requires eqv_Expression(x, y)
    ensures kind_Expression(x) == kind_Expression(y)
{}
/// filtering by kind keeps the correspondence
pub proof fn lemma_flt_eqv(t: Set<Target>, s1: Seq<Node>, s2: Seq<Node>)
    requires nodes_eqv(s1, s2)
    ensures nodes_eqv(flt(t, s1), flt(t, s2))
    decreases s1.len()
{
    reveal(Seq::filter);
    if s1.len() == 0 {
        assert(s2.len() == 0);
    } else {
        let a = s1.drop_last();
        let b = s2.drop_last();
        assert(nodes_eqv(a, b)) by {
            assert forall|i: int| 0 <= i < a.len() implies eqv_Node(#[trigger] a[i], b[i]) by { assert(a[i] == s1[i] && b[i] == s2[i]); }
        }
        lemma_flt_eqv(t, a, b);
        assert(eqv_Node(s1.last(), s2.last())) by { assert(s1.last() == s1[s1.len() - 1]); }
        lemma_eqv_kind(s1.last(), s2.last());
        if wanted(t, s1.last()) {
            lemma_neq_one(s1.last(), s2.last());
            lemma_neq_add(flt(t, a), flt(t, b), seq![s1.last()], seq![s2.last()]);
            assert(flt(t, s1) =~= flt(t, a) + seq![s1.last()]);
            assert(flt(t, s2) =~= flt(t, b) + seq![s2.last()]);
        }
    }
}
pub proof fn lemma_all_nodes_eqv(a: Node, b: Node)
    requires eqv_Node(a, b)
    ensures nodes_eqv(all_nodes(a), all_nodes(b))
{
    match (a, b) {
        (Node::Statement(x), Node::Statement(y)) => { lemma_eqv_an_Statement(x, y); }
        (Node::Expression(x), Node::Expression(y)) => { lemma_eqv_an_Expression(x, y); }
        (Node::SourceUnit(x), Node::SourceUnit(y)) => { lemma_eqv_an_SourceUnit(x, y); }
        (Node::SourceUnitPart(x), Node::SourceUnitPart(y)) => { lemma_eqv_an_SourceUnitPart(x, y); }
        (Node::ContractPart(x), Node::ContractPart(y)) => { lemma_eqv_an_ContractPart(x, y); }
        _ => {}
    }
}
/// C17 over the tree search: two trees that differ only in locations yield corresponding search results
pub proof fn lemma_walk_eqv(t: Set<Target>, a: Node, b: Node)
    requires eqv_Node(a, b)
    ensures nodes_eqv(spec_walk(t, a), spec_walk(t, b))
{
    lemma_all_nodes_eqv(a, b);
    lemma_flt_eqv(t, all_nodes(a), all_nodes(b));
}

// ---- helpers for the recursive predicates
pub proof fn lemma_chain_div_eqv(x: pt::Expression, y: pt::Expression)
    requires eqv_Expression(x, y)
    ensures chain_div(x) == chain_div(y)
    decreases x
{
    match (x, y) {
        (pt::Expression::Multiply(_, l, _), pt::Expression::Multiply(_, m, _)) => { lemma_chain_div_eqv(*l, *m); }
        (pt::Expression::Parenthesis(_, l), pt::Expression::Parenthesis(_, m)) => { lemma_chain_div_eqv(*l, *m); }
        _ => {}
    }
}
pub proof fn lemma_chain_mul_eqv(x: pt::Expression, y: pt::Expression)
    requires eqv_Expression(x, y)
    ensures chain_mul(x) == chain_mul(y)
    decreases x
{
    match (x, y) {
        (pt::Expression::Divide(_, l, _), pt::Expression::Divide(_, m, _)) => { lemma_chain_mul_eqv(*l, *m); }
        (pt::Expression::Add(_, l, _), pt::Expression::Add(_, m, _)) => { lemma_chain_mul_eqv(*l, *m); }
        (pt::Expression::Subtract(_, l, _), pt::Expression::Subtract(_, m, _)) => { lemma_chain_mul_eqv(*l, *m); }
        (pt::Expression::Modulo(_, l, _), pt::Expression::Modulo(_, m, _)) => { lemma_chain_mul_eqv(*l, *m); }
        (pt::Expression::BitwiseAnd(_, l, _), pt::Expression::BitwiseAnd(_, m, _)) => { lemma_chain_mul_eqv(*l, *m); }
        (pt::Expression::BitwiseOr(_, l, _), pt::Expression::BitwiseOr(_, m, _)) => { lemma_chain_mul_eqv(*l, *m); }
        (pt::Expression::BitwiseXor(_, l, _), pt::Expression::BitwiseXor(_, m, _)) => { lemma_chain_mul_eqv(*l, *m); }
        (pt::Expression::ShiftLeft(_, l, _), pt::Expression::ShiftLeft(_, m, _)) => { lemma_chain_mul_eqv(*l, *m); }
        (pt::Expression::ShiftRight(_, l, _), pt::Expression::ShiftRight(_, m, _)) => { lemma_chain_mul_eqv(*l, *m); }
        (pt::Expression::Parenthesis(_, l), pt::Expression::Parenthesis(_, m)) => { lemma_chain_mul_eqv(*l, *m); }
        _ => {}
    }
}
pub proof fn lemma_any_and_eqv(s: Seq<pt::Expression>, t: Seq<pt::Expression>, n: int, k: int)
    requires eqv_vec_Expression(s, t, n), 0 <= k <= n
    ensures any_and(s, k) == any_and(t, k)
    decreases k
{
    if k > 0 {
        lemma_any_and_eqv(s, t, n, k - 1);
        lemma_eqv_vec_Expression_index(s, t, n, k - 1);
    }
}
pub proof fn lemma_is_address_zero_eqv(x: pt::Expression, y: pt::Expression)
    requires eqv_Expression(x, y)
    ensures is_address_zero(x) == is_address_zero(y)
{
    reveal_with_fuel(eqv_Expression, 3);
    match (x, y) {
        (pt::Expression::FunctionCall(_, f, p), pt::Expression::FunctionCall(_, g, q)) => {
            if p@.len() > 0 { lemma_eqv_vec_Expression_index(p@, q@, p@.len() as int, 0); }
        }
        _ => {}
    }
}
/// C17 for a detector in hits-form: on two trees that differ only in locations the SAME positions of the search
/// result are flagged (so the same tokens start flagged constructs; the reported lines are those of the tokens, C02)
pub proof fn lemma_c17_same_positions_flagged(t: Set<Target>, pat: spec_fn(Node) -> bool, a: Node, b: Node)
    requires
        eqv_Node(a, b),
        forall|x: Node, y: Node| eqv_Node(x, y) ==> #[trigger] pat(x) == #[trigger] pat(y),
    ensures
        spec_walk(t, a).len() == spec_walk(t, b).len(),
        forall|i: int| 0 <= i < spec_walk(t, a).len() ==> pat(#[trigger] spec_walk(t, a)[i]) == pat(spec_walk(t, b)[i]),
{
    lemma_walk_eqv(t, a, b);
}
