// ---------------------------------------------------------------- unit dispatch
// TRUSTED model of solang_parser::parse: a partial function of (text, file number)
pub mod solang_parser {
    use super::*;
    pub use crate::pt;
    #[verifier::external_body] #[derive(Debug)] #[verifier::external_derive] pub struct Diagnostic { _p: () }
    /// the parser accepts the text
    pub uninterp spec fn parse_ok(src: Seq<char>, file_no: usize) -> bool;
    /// the parse tree of an accepted text
    pub uninterp spec fn parse_tree(src: Seq<char>, file_no: usize) -> pt::SourceUnit;
    #[verifier::external_body]
    pub fn parse(src: &str, file_no: usize) -> (r: Result<(pt::SourceUnit, Vec<pt::Comment>), Vec<Diagnostic>>)
        ensures
            r is Ok <==> parse_ok(src@, file_no),
            r is Ok ==> r->Ok_0.0 == parse_tree(src@, file_no),
    { unimplemented!() }
}
pub use solang_parser::{parse_ok, parse_tree};
pub mod utils {
    pub use crate::*;
    pub type LineNumber = i32;
}
pub use utils::LineNumber;

// get_line_number under the contract PROVED in unit lines (same clause text, read from contracts/lines.py)
#[verifier::external_body]
pub fn get_line_number(char_number: usize, file_contents: &str) -> (r: i32)
    GET_LINE_NUMBER_CONTRACT
{ unimplemented!() }

// TRUSTED: HashSet<Loc> obeys the key model (derived Eq/Hash of Loc)
#[verifier::external_body]
pub proof fn axiom_loc_key_model()
    ensures vstd::std_specs::hash::obeys_key_model::<pt::Loc>()
{}

// TRUSTED model of by-value iteration over HashSet (order unspecified; no duplicates; exactly the set's elements)
#[verifier::external_type_specification]
#[verifier::external_body]
#[verifier::reject_recursive_types(K)]
#[verifier::reject_recursive_types(A)]
pub struct ExHsIntoIter<K, A: core::alloc::Allocator>(std::collections::hash_set::IntoIter<K, A>);
pub uninterp spec fn hs_rem<K, A: core::alloc::Allocator>(it: std::collections::hash_set::IntoIter<K, A>) -> Seq<K>;
#[verifier::external_body]
pub fn vx_into_iter_hs<K>(s: HashSet<K>) -> (it: std::collections::hash_set::IntoIter<K>)
    ensures
        hs_rem(it).no_duplicates(),
        forall|k: K| #![trigger hs_rem(it).contains(k)] hs_rem(it).contains(k) <==> s@.contains(k),
{
    s.into_iter()
}
pub assume_specification<K, A: core::alloc::Allocator>[ <std::collections::hash_set::IntoIter<K, A> as Iterator>::next ](it: &mut std::collections::hash_set::IntoIter<K, A>) -> (r: Option<K>)
    ensures
        match r {
            Some(k) => hs_rem(*old(it)).len() > 0 && k == hs_rem(*old(it))[0] && hs_rem(*final(it)) == hs_rem(*old(it)).subrange(1, hs_rem(*old(it)).len() as int),
            None => hs_rem(*old(it)).len() == 0 && hs_rem(*final(it)) == hs_rem(*old(it)),
        };

/// ASSUMPTION on parser + detectors, stated as a precondition: every reported location is a location in the file
/// (Loc::File) whose first byte is not a line feed (constructs begin with a token)
pub open spec fn locs_in_text(text: Seq<char>, locs: Set<pt::Loc>) -> bool {
    forall|l: pt::Loc| #![trigger locs.contains(l)] locs.contains(l) ==> (l is File) && not_a_line_feed(text, l->File_1)
}
pub open spec fn line_i32(text: Seq<char>, l: pt::Loc) -> i32 { line_of(text, l->File_1) as i32 }
/// C02 over a set of locations: exactly the lines on which a reported construct begins
pub open spec fn on_line(text: Seq<char>, locs: Set<pt::Loc>, ln: i32) -> bool {
    exists|l: pt::Loc| locs.contains(l) && ln == line_i32(text, l)
}
pub open spec fn is_lines_of(lines: Set<i32>, text: Seq<char>, locs: Set<pt::Loc>) -> bool {
    forall|ln: i32| #![trigger lines.contains(ln)] lines.contains(ln) <==> on_line(text, locs, ln)
}
pub open spec fn seq_lines(text: Seq<char>, s: Seq<pt::Loc>, k: int) -> Set<i32>
    decreases k
{
    if k <= 0 { Set::<i32>::empty() } else { seq_lines(text, s, k - 1).insert(line_i32(text, s[k - 1])) }
}
pub proof fn lemma_seq_lines_member(text: Seq<char>, s: Seq<pt::Loc>, k: int, ln: i32)
    requires 0 <= k <= s.len()
    ensures seq_lines(text, s, k).contains(ln) <==> exists|j: int| 0 <= j < k && ln == line_i32(text, #[trigger] s[j])
    decreases k
{
    if k > 0 {
        lemma_seq_lines_member(text, s, k - 1, ln);
        if seq_lines(text, s, k).contains(ln) {
            if ln == line_i32(text, s[k - 1]) {
                assert(0 <= k - 1 < k && ln == line_i32(text, s[k - 1]));
            } else {
                let j = choose|j: int| 0 <= j < k - 1 && ln == line_i32(text, #[trigger] s[j]);
                assert(0 <= j < k && ln == line_i32(text, s[j]));
            }
        }
        if exists|j: int| 0 <= j < k && ln == line_i32(text, #[trigger] s[j]) {
            let j = choose|j: int| 0 <= j < k && ln == line_i32(text, #[trigger] s[j]);
            if j < k - 1 {
                assert(0 <= j < k - 1 && ln == line_i32(text, s[j]));
            }
        }
    }
}
pub proof fn lemma_seq_lines_all(text: Seq<char>, s: Seq<pt::Loc>, all: Set<pt::Loc>)
    requires forall|k: pt::Loc| #![trigger s.contains(k)] s.contains(k) <==> all.contains(k)
    ensures is_lines_of(seq_lines(text, s, s.len() as int), text, all)
{
    assert forall|ln: i32| seq_lines(text, s, s.len() as int).contains(ln) <==> on_line(text, all, ln) by {
        lemma_seq_lines_member(text, s, s.len() as int, ln);
        if seq_lines(text, s, s.len() as int).contains(ln) {
            let j = choose|j: int| 0 <= j < s.len() && ln == line_i32(text, #[trigger] s[j]);
            assert(s.contains(s[j]));
            assert(all.contains(s[j]) && ln == line_i32(text, s[j]));
        }
        if on_line(text, all, ln) {
            let l = choose|l: pt::Loc| all.contains(l) && ln == line_i32(text, l);
            assert(s.contains(l));
            let j = choose|j: int| 0 <= j < s.len() && s[j] == l;
            assert(0 <= j < s.len() && ln == line_i32(text, s[j]));
        }
    }
}
