"""Unit `det_gate` (C09): the version gates; the regex-based version extractor is external_body."""
O = "src/analyzer/optimizations/"
FEATURES = "#![feature(pattern)]\n#![feature(allocator_api)]"
LI = ["#[verifier::loop_isolation(false)]", "#[verifier::allow_complex_invariants]"]

FUNCTIONS = [
    dict(name="get_solidity_version_from_source_unit", rel="src/analyzer/utils.rs", attrs=["#[verifier::external_body]"], drop_body=True,
         contract="ensures r == spec_version(source_unit)"),
    dict(name="check_if_using_safe_math", rel=O + "safe_math.rs", attrs=LI,
         contract="ensures r == file_uses_safemath(source_unit)",
         after=[dict(match="@x0", text="let ghost w = $x0@;")],
         loops=[dict(match=r"^$x0$", binder="it",
                     inv="it.seq() == w, w == w1(source_unit, Target::Using), $ret == any_uses_safemath(w, it.index@)",
                     body="let ghost before = $ret; let ghost cur = w[it.index@];"),
                dict(match=r"identifier_path\.identifiers", nth=0, binder="ia",
                     inv="$ret == (before || path_has_safemath(ia.seq(), ia.index@))"),
                dict(match=r"identifier_path\.identifiers", nth=0, binder="ib",
                     inv="$ret == (before || path_has_safemath(ib.seq(), ib.index@))")]),
    dict(name="parse_contract_for_safe_math_functions", rel=O + "safe_math.rs", attrs=LI,
         contract="ensures r@ == safemath_sites(source_unit)",
         start="    proof { axiom_loc_key_model(); }",
         after=[dict(match="@x0", text="let ghost w = $x0@;")],
         loops=[dict(match=r"^$x0$", binder="it",
                     inv="it.seq() == w, w == w1(source_unit, Target::FunctionCall), $ret@ == hits(w, it.index@, |n: Node| pat_safemath_site(n), |n: Node| loc_callee_member(n))",
                     body="proof { axiom_loc_key_model(); lemma_flt_wanted(set![Target::FunctionCall], all_nodes(su_node(source_unit)), it.index@); }")]),
    dict(name="safe_math_optimization", rel=O + "safe_math.rs",
         contract="ensures r@ == safe_math_spec(source_unit, pre_080)",
         start="    proof { axiom_loc_key_model(); axiom_iter_items_hashset(); }"),
    dict(name="safe_math_pre_080_optimization", rel=O + "safe_math.rs", contract="ensures r@ == safe_math_spec(source_unit, true)"),
    dict(name="safe_math_post_080_optimization", rel=O + "safe_math.rs", contract="ensures r@ == safe_math_spec(source_unit, false)"),
    dict(name="string_error_optimization", rel=O + "string_errors.rs", attrs=LI,
         contract="requires wf_strings(w1(source_unit, Target::FunctionCall))\n    ensures r@ == string_errors_spec(source_unit)",
         start="    proof { axiom_loc_key_model(); }",
         after=[dict(match="@x0", text="let ghost w = $x0@;")],
         loops=[dict(match=r"^$x0$", binder="it",
                     inv="it.seq() == w, w == w1(source_unit, Target::FunctionCall), $ret@ == hits(w, it.index@, |n: Node| pat_string_error(n), |n: Node| loc_require_string(n))",
                     body="proof { axiom_loc_key_model(); lemma_flt_wanted(set![Target::FunctionCall], all_nodes(su_node(source_unit)), it.index@); }")]),
    dict(name="short_revert_string_optimization", rel=O + "short_revert_string.rs", attrs=LI,
         contract="requires wf_strings(w1(source_unit, Target::FunctionCall))\n    ensures r@ == short_revert_spec(source_unit)",
         start="    proof { axiom_loc_key_model(); }",
         after=[dict(match="@x0", text="let ghost w = $x0@;")],
         loops=[dict(match=r"^$x0$", binder="it",
                     inv="it.seq() == w, w == w1(source_unit, Target::FunctionCall), $ret@ == hits(w, it.index@, |n: Node| pat_short_revert(n), |n: Node| loc_require_string(n))",
                     body="proof { axiom_loc_key_model(); lemma_flt_wanted(set![Target::FunctionCall], all_nodes(su_node(source_unit)), it.index@); }")]),
]
LEMMAS = [
    ("lemma_safe_math_never_both", "pre_080 and post_080 never both report"),
]
