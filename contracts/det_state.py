"""Unit `det_state` (C08): the state-variable table and its consumers."""
O = "src/analyzer/optimizations/"
U = "src/analyzer/utils.rs"
FEATURES = "#![feature(pattern)]\n#![feature(allocator_api)]"
LI = ["#[verifier::loop_isolation(false)]", "#[verifier::allow_complex_invariants]"]

FUNCTIONS = [
    dict(name="get_32_byte_storage_variables", rel=U, attrs=["#[verifier::loop_isolation(false)]", "#[verifier::allow_complex_invariants]"],
         contract="ensures r@ == sv_table(source_unit, ignore_constants, ignore_immutables)",
         start="    proof { axiom_string_key_model(); }",
         after=[dict(match=r"let target_nodes", text="let ghost w = target_nodes@;")],
         loops=[dict(match=r"^target_nodes$", binder="it",
                     inv="it.seq() == w, w == w1(source_unit, Target::ContractDefinition), storage_variables@ == tbl_contracts(w, it.index@, ignore_constants, ignore_immutables)",
                     body="proof { axiom_string_key_model(); lemma_flt_wanted(set![Target::ContractDefinition], all_nodes(su_node(source_unit)), it.index@); } let ghost base = storage_variables@;"),
                dict(match=r"contract_definition\.parts", binder="ip", r5=True,
                     inv="storage_variables@ == tbl_parts($s, $k, ignore_constants, ignore_immutables, base)",
                     body="proof { axiom_string_key_model(); } let ghost cur = $s[$k - 1];"),
                dict(match=r"box_variable_definition\.attrs\.clone\(\)", binder="ia", r5=True, seq="box_variable_definition.attrs@",
                     inv="$s == box_variable_definition.attrs@, !attrs_skip($s, $k, ignore_constants, ignore_immutables), storage_variables@ == tbl_parts(ip_s, ip_k - 1, ignore_constants, ignore_immutables, base)",
                     body="proof { if (($s[$k - 1] is Constant) && ignore_constants) || (($s[$k - 1] is Immutable) && ignore_immutables) { lemma_attrs_skip_mono($s, $k, $s.len() as int, ignore_constants, ignore_immutables); } }")]),
    dict(name="sstore_optimization", rel=O + "sstore.rs",
         contract="ensures r@ == hits_all(w1(source_unit, Target::Assign), |n: Node| pat_sstore(n, sv_table(source_unit, true, true)), |n: Node| assign_loc(n))",
         start="    proof { axiom_loc_key_model(); axiom_string_key_model(); }",
         after=[dict(match=r"let target_nodes", text="let ghost w = target_nodes@; let ghost tbl = storage_variables@;")],
         loops=[dict(match=r"^target_nodes$", binder="it",
                     inv="it.seq() == w, w == w1(source_unit, Target::Assign), tbl == sv_table(source_unit, true, true), storage_variables@ == tbl, optimization_locations@ == hits(w, it.index@, |n: Node| pat_sstore(n, tbl), |n: Node| assign_loc(n))",
                     body="proof { axiom_loc_key_model(); axiom_string_key_model(); lemma_flt_wanted(set![Target::Assign], all_nodes(su_node(source_unit)), it.index@); }")]),
    dict(name="constant_variable_optimization", rel=O + "constant_variables.rs",
         contract="ensures forall|l: pt::Loc| r@.contains(l) <==> (exists|name: String| const_final(source_unit).contains_key(name) && #[trigger] const_final(source_unit)[name].1 == l)",
         start="    proof { axiom_loc_key_model(); axiom_string_key_model(); }",
         after=[dict(match=r"let target_nodes", text="let ghost w = target_nodes@; let ghost tbl0 = storage_variables@;")],
         loops=[dict(match=r"^target_nodes$", binder="it",
                     inv="it.seq() == w, w == w_writes(su_node(source_unit)), tbl0 == sv_table(source_unit, true, false), storage_variables@ == after_writes(w, it.index@, tbl0)",
                     body="proof { axiom_string_key_model(); reveal_with_fuel(tset, 16); lemma_flt_wanted(tset(write_kinds(), 15), all_nodes(su_node(source_unit)), it.index@); }"),
                dict(match=r"^storage_variables$", binder="iv", r5=True, rem="hm_rem",
                     pre="let ghost fin = storage_variables@;",
                     inv="fin == const_final(source_unit), forall|l: pt::Loc| optimization_locations@.contains(l) <==> (exists|j: int| 0 <= j < $k && (#[trigger] $s[j]).1.1 == l), forall|k: String, v: VarInfo| #![trigger $s.contains((k, v))] $s.contains((k, v)) <==> (fin.contains_key(k) && fin[k] == v)",
                     body="proof { axiom_loc_key_model(); }",
                     after="proof { assert forall|l: pt::Loc| optimization_locations@.contains(l) <==> (exists|name: String| fin.contains_key(name) && #[trigger] fin[name].1 == l) by { if optimization_locations@.contains(l) { let j = choose|j: int| 0 <= j < iv_s.len() && (#[trigger] iv_s[j]).1.1 == l; assert(iv_s.contains(iv_s[j])); assert(fin.contains_key(iv_s[j].0) && fin[iv_s[j].0].1 == l); } if (exists|name: String| fin.contains_key(name) && #[trigger] fin[name].1 == l) { let name = choose|name: String| fin.contains_key(name) && #[trigger] fin[name].1 == l; assert(iv_s.contains((name, fin[name]))); let j = choose|j: int| 0 <= j < iv_s.len() && iv_s[j] == (name, fin[name]); assert(iv_s[j].1.1 == l); } } }")]),
]
LEMMAS = [
    ("lemma_written_removed", "C08 never: a variable that is the target of a write is not in the final candidate table"),
    ("lemma_unwritten_kept", "C08 always: a table variable that no write targets stays a candidate"),
]
