// ---------------------------------------------------------------- C09: version-gated detectors (+ the gates' helpers)
pub open spec fn su_node(su: pt::SourceUnit) -> Node { Node::SourceUnit(su) }
pub open spec fn w1(su: pt::SourceUnit, t: Target) -> Seq<Node> { spec_walk(set![t], su_node(su)) }
/// the version triple of the file's `pragma solidity` directive: decided by the regex-based extractor
/// (outside Verus; run exhaustively over the version domain by the native harness)
pub uninterp spec fn spec_version(su: pt::SourceUnit) -> Option<(i32, i32, i32)>;
pub open spec fn lex_lt(a: (i32, i32, i32), b: (i32, i32, i32)) -> bool {
    a.0 < b.0 || (a.0 == b.0 && (a.1 < b.1 || (a.1 == b.1 && a.2 < b.2)))
}
pub assume_specification[ <pt::SourceUnit as Clone>::clone ](a: &pt::SourceUnit) -> (r: pt::SourceUnit) ensures r == *a;

// HashSet::extend with another HashSet (TRUSTED)
pub uninterp spec fn iter_items<I, T>(i: I) -> Set<T>;
pub assume_specification<T: Eq + core::hash::Hash, S: core::hash::BuildHasher, A: core::alloc::Allocator, I: IntoIterator<Item = T>>
    [ <HashSet<T, S, A> as Extend<T>>::extend::<I> ](s: &mut HashSet<T, S, A>, iter: I)
    ensures final(s)@ == old(s)@.union(iter_items::<I, T>(iter));
#[verifier::external_body]
pub proof fn axiom_iter_items_hashset()
    ensures forall|h: HashSet<pt::Loc>| #[trigger] iter_items::<HashSet<pt::Loc>, pt::Loc>(h) == h@
{}

// ---- SafeMath
pub open spec fn path_has_safemath(ids: Seq<pt::Identifier>, k: int) -> bool
    decreases k
{ if 0 < k <= ids.len() { path_has_safemath(ids, k - 1) || ids[k - 1].name@ == "SafeMath"@ } else { false } }
pub open spec fn using_is_safemath(u: pt::Using) -> bool {
    match u.list { pt::UsingList::Library(p) => path_has_safemath(p.identifiers@, p.identifiers@.len() as int), _ => false }
}
pub open spec fn node_uses_safemath(n: Node) -> bool {
    match n {
        Node::SourceUnitPart(pt::SourceUnitPart::Using(u)) => using_is_safemath(*u),
        Node::ContractPart(pt::ContractPart::Using(u)) => using_is_safemath(*u),
        _ => false,
    }
}
pub open spec fn any_uses_safemath(w: Seq<Node>, k: int) -> bool
    decreases k
{ if 0 < k <= w.len() { any_uses_safemath(w, k - 1) || node_uses_safemath(w[k - 1]) } else { false } }
pub open spec fn file_uses_safemath(su: pt::SourceUnit) -> bool {
    any_uses_safemath(w1(su, Target::Using), w1(su, Target::Using).len() as int)
}
pub open spec fn pat_safemath_site(n: Node) -> bool {
    match n {
        Node::Expression(pt::Expression::FunctionCall(_, f, _)) => match *f {
            pt::Expression::MemberAccess(_, _, id) => id.name@ == "add"@ || id.name@ == "sub"@ || id.name@ == "mul"@ || id.name@ == "div"@,
            _ => false,
        },
        _ => false,
    }
}
pub open spec fn loc_callee_member(n: Node) -> pt::Loc {
    match n {
        Node::Expression(pt::Expression::FunctionCall(_, f, _)) => match *f { pt::Expression::MemberAccess(l, _, _) => l, _ => pt::Loc::Builtin },
        _ => pt::Loc::Builtin,
    }
}
pub open spec fn safemath_sites(su: pt::SourceUnit) -> Set<pt::Loc> {
    hits_all(w1(su, Target::FunctionCall), |n: Node| pat_safemath_site(n), |n: Node| loc_callee_member(n))
}
/// C09: pre_080 reports all sites iff v < 0.8.0, post_080 iff v >= 0.8.0 (triples, lexicographic); nothing without a version
pub open spec fn safe_math_spec(su: pt::SourceUnit, pre: bool) -> Set<pt::Loc> {
    match spec_version(su) {
        Some(v) => if ((pre && lex_lt(v, (0i32, 8i32, 0i32))) || (!pre && !lex_lt(v, (0i32, 8i32, 0i32)))) && file_uses_safemath(su) { safemath_sites(su) } else { Set::<pt::Loc>::empty() },
        None => Set::<pt::Loc>::empty(),
    }
}
/// never both
pub proof fn lemma_safe_math_never_both(su: pt::SourceUnit)
    ensures safe_math_spec(su, true).disjoint(safe_math_spec(su, false))
{}

// ---- require(.., "string literal")
pub open spec fn require_string(n: Node) -> Option<pt::StringLiteral> {
    match n {
        Node::Expression(pt::Expression::FunctionCall(_, f, args)) => match *f {
            pt::Expression::Variable(id) => if id.name@ == "require"@ && args@.len() > 0 {
                match args@[args@.len() - 1] {
                    pt::Expression::StringLiteral(v) => if v@.len() > 0 { Some(v@[0]) } else { None },
                    _ => None,
                }
            } else { None },
            _ => None,
        },
        _ => None,
    }
}
pub open spec fn pat_string_error(n: Node) -> bool { require_string(n) is Some }
pub open spec fn pat_short_revert(n: Node) -> bool {
    match require_string(n) { Some(l) => sp_byte_len(l.string@) >= 32, None => false }
}
pub open spec fn loc_require_string(n: Node) -> pt::Loc { match require_string(n) { Some(l) => l.loc, None => pt::Loc::Builtin } }
pub open spec fn string_errors_spec(su: pt::SourceUnit) -> Set<pt::Loc> {
    match spec_version(su) {
        Some(v) => if !lex_lt(v, (0i32, 8i32, 4i32)) { hits_all(w1(su, Target::FunctionCall), |n: Node| pat_string_error(n), |n: Node| loc_require_string(n)) } else { Set::<pt::Loc>::empty() },
        None => Set::<pt::Loc>::empty(),
    }
}
pub open spec fn short_revert_spec(su: pt::SourceUnit) -> Set<pt::Loc> {
    match spec_version(su) {
        Some(v) => if lex_lt(v, (0i32, 8i32, 4i32)) { hits_all(w1(su, Target::FunctionCall), |n: Node| pat_short_revert(n), |n: Node| loc_require_string(n)) } else { Set::<pt::Loc>::empty() },
        None => Set::<pt::Loc>::empty(),
    }
}
/// ASSUMED about parser output: a StringLiteral expression has at least one piece
pub open spec fn wf_strings(w: Seq<Node>) -> bool {
    forall|i: int| 0 <= i < w.len() ==> (match #[trigger] w[i] {
        Node::Expression(pt::Expression::FunctionCall(_, _, args)) => forall|j: int| 0 <= j < args@.len() ==> (match #[trigger] args@[j] { pt::Expression::StringLiteral(v) => v@.len() > 0, _ => true }),
        _ => true,
    })
}
