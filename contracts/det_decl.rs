// ---------------------------------------------------------------- C06: declaration-level detectors
pub open spec fn su_node(su: pt::SourceUnit) -> Node { Node::SourceUnit(su) }
pub open spec fn w_contracts(su: pt::SourceUnit) -> Seq<Node> { spec_walk(set![Target::ContractDefinition], su_node(su)) }
pub open spec fn contract_of(n: Node) -> Option<pt::ContractDefinition> {
    match n { Node::SourceUnitPart(pt::SourceUnitPart::ContractDefinition(cd)) => Some(*cd), _ => None }
}
pub open spec fn union_hits(w: Seq<Node>, k: int, f: spec_fn(Node) -> Set<pt::Loc>) -> Set<pt::Loc>
    decreases k
{
    if 0 < k <= w.len() { union_hits(w, k - 1, f).union(f(w[k - 1])) } else { Set::<pt::Loc>::empty() }
}

// ---- constructor_order: a constructor preceded, IN ITS OWN CONTRACT, by a function other than a modifier
pub open spec fn is_plain_function(p: pt::ContractPart) -> bool {
    match p {
        pt::ContractPart::FunctionDefinition(f) => !(f.ty is Constructor) && !(f.ty is Modifier),
        _ => false,
    }
}
pub open spec fn co_seen(parts: Seq<pt::ContractPart>, k: int) -> bool
    decreases k
{
    if 0 < k <= parts.len() { co_seen(parts, k - 1) || is_plain_function(parts[k - 1]) } else { false }
}
pub open spec fn co_hits(parts: Seq<pt::ContractPart>, k: int) -> Set<pt::Loc>
    decreases k
{
    if 0 < k <= parts.len() {
        match parts[k - 1] {
            pt::ContractPart::FunctionDefinition(f) =>
                if (f.ty is Constructor) && co_seen(parts, k - 1) { co_hits(parts, k - 1).insert(f.loc) } else { co_hits(parts, k - 1) },
            _ => co_hits(parts, k - 1),
        }
    } else { Set::<pt::Loc>::empty() }
}
pub open spec fn co_of_contract(n: Node) -> Set<pt::Loc> {
    match contract_of(n) { Some(cd) => co_hits(cd.parts@, cd.parts@.len() as int), None => Set::<pt::Loc>::empty() }
}
/// §8 / property statement: parts[j] is reported iff it is a constructor and some parts[i], i < j, of the SAME contract is a plain function
pub proof fn lemma_co_seen(parts: Seq<pt::ContractPart>, k: int)
    requires 0 <= k <= parts.len()
    ensures co_seen(parts, k) <==> (exists|i: int| 0 <= i < k && is_plain_function(#[trigger] parts[i]))
    decreases k
{
    if k > 0 { lemma_co_seen(parts, k - 1); }
}

// ---- private_constant / private_vars_leading_underscore: per variable definition of a contract
pub open spec fn has_constant(a: Seq<pt::VariableAttribute>, k: int) -> bool
    decreases k
{ if 0 < k <= a.len() { has_constant(a, k - 1) || (a[k - 1] is Constant) } else { false } }
pub open spec fn has_private(a: Seq<pt::VariableAttribute>, k: int) -> bool
    decreases k
{
    if 0 < k <= a.len() {
        has_private(a, k - 1) || (match a[k - 1] { pt::VariableAttribute::Visibility(v) => v is Private, _ => false })
    } else { false }
}
pub open spec fn pc_hits(parts: Seq<pt::ContractPart>, k: int) -> Set<pt::Loc>
    decreases k
{
    if 0 < k <= parts.len() {
        match parts[k - 1] {
            pt::ContractPart::VariableDefinition(d) =>
                if has_constant(d.attrs@, d.attrs@.len() as int) && !has_private(d.attrs@, d.attrs@.len() as int) { pc_hits(parts, k - 1).insert(code_loc(d.ty)) } else { pc_hits(parts, k - 1) },
            _ => pc_hits(parts, k - 1),
        }
    } else { Set::<pt::Loc>::empty() }
}
pub open spec fn pc_of_contract(n: Node) -> Set<pt::Loc> {
    match contract_of(n) { Some(cd) => pc_hits(cd.parts@, cd.parts@.len() as int), None => Set::<pt::Loc>::empty() }
}
/// an explicit visibility attribute contradicts the leading underscore of the name
pub open spec fn vis_contradicts(a: Seq<pt::VariableAttribute>, k: int, underscore: bool) -> bool
    decreases k
{
    if 0 < k <= a.len() {
        vis_contradicts(a, k - 1, underscore) || (match a[k - 1] {
            pt::VariableAttribute::Visibility(v) => if (v is Private) || (v is Internal) { !underscore } else { underscore },
            _ => false,
        })
    } else { false }
}
pub open spec fn pv_hits(parts: Seq<pt::ContractPart>, k: int) -> Set<pt::Loc>
    decreases k
{
    if 0 < k <= parts.len() {
        match parts[k - 1] {
            pt::ContractPart::VariableDefinition(d) =>
                if !has_constant(d.attrs@, d.attrs@.len() as int) && vis_contradicts(d.attrs@, d.attrs@.len() as int, sp_starts_with::<char>(d.name.name@, '_')) {
                    pv_hits(parts, k - 1).insert(code_loc(d.ty))
                } else { pv_hits(parts, k - 1) },
            _ => pv_hits(parts, k - 1),
        }
    } else { Set::<pt::Loc>::empty() }
}
pub open spec fn pv_of_contract(n: Node) -> Set<pt::Loc> {
    match contract_of(n) { Some(cd) => pv_hits(cd.parts@, cd.parts@.len() as int), None => Set::<pt::Loc>::empty() }
}
/// ASSUMED about parser output: type expressions that are string/hex literals do not occur (loc() indexes piece 0)
pub open spec fn wf_ty(e: pt::Expression) -> bool {
    match e { pt::Expression::StringLiteral(v) => v@.len() > 0, pt::Expression::HexLiteral(v) => v@.len() > 0, _ => true }
}
pub open spec fn wf_contract_vars(n: Node) -> bool {
    match contract_of(n) {
        Some(cd) => forall|i: int| 0 <= i < cd.parts@.len() ==> (match #[trigger] cd.parts@[i] { pt::ContractPart::VariableDefinition(d) => wf_ty(d.ty), _ => true }),
        None => true,
    }
}
pub open spec fn all_wf(w: Seq<Node>, p: spec_fn(Node) -> bool) -> bool { forall|i: int| 0 <= i < w.len() ==> p(#[trigger] w[i]) }
// TRUSTED: derived Clone of a Vec of attributes returns an equal sequence
pub assume_specification[ <pt::VariableAttribute as Clone>::clone ](a: &pt::VariableAttribute) -> (r: pt::VariableAttribute) ensures r == *a;

// ---- members of filtered sequences
pub proof fn lemma_flt_member(t: Set<Target>, s: Seq<Node>, x: Node)
    requires flt(t, s).contains(x)
    ensures s.contains(x), wanted(t, x)
    decreases s.len()
{
    reveal(Seq::filter);
    if s.len() > 0 {
        let sub = s.drop_last();
        if flt(t, sub).contains(x) {
            lemma_flt_member(t, sub, x);
            let j = choose|j: int| 0 <= j < sub.len() && sub[j] == x;
            assert(s[j] == x);
        } else {
            let i = choose|i: int| 0 <= i < flt(t, s).len() && flt(t, s)[i] == x;
            assert(wanted(t, s.last()));
            assert(flt(t, s) =~= flt(t, sub).push(s.last()));
            if i < flt(t, sub).len() { assert(flt(t, sub)[i] == x); assert(false); }
            assert(x == s.last());
            assert(s[s.len() - 1] == x);
        }
    }
}
/// searching a contract for FunctionDefinition nodes yields contract parts only (discharges contract_part().unwrap())
pub proof fn lemma_fn_nodes_in_contract(c: Node, i: int)
    requires contract_of(c) is Some, 0 <= i < spec_walk(set![Target::FunctionDefinition], c).len()
    ensures
        spec_walk(set![Target::FunctionDefinition], c)[i] is ContractPart,
        kind(spec_walk(set![Target::FunctionDefinition], c)[i]) == Target::FunctionDefinition,
{
    let t = set![Target::FunctionDefinition];
    let s = all_nodes(c);
    let x = flt(t, s)[i];
    assert(flt(t, s).contains(x));
    lemma_flt_member(t, s, x);
    let j = choose|j: int| 0 <= j < s.len() && s[j] == x;
    match c {
        Node::SourceUnitPart(p) => {
            lemma_bt_SourceUnitPart(p);
            if j == 0 {
                assert(s[0] == c);
            } else {
                assert(s.subrange(1, s.len() as int)[j - 1] == s[j]);
                assert(below_top(x));
            }
        }
        _ => {}
    }
}

// ---- payable_function: a member function with a body, public/external, not payable
pub open spec fn fn_def_of(n: Node) -> Option<pt::FunctionDefinition> {
    match n { Node::ContractPart(pt::ContractPart::FunctionDefinition(f)) => Some(*f), _ => None }
}
pub open spec fn has_pub_ext(a: Seq<pt::FunctionAttribute>, k: int) -> bool
    decreases k
{
    if 0 < k <= a.len() {
        has_pub_ext(a, k - 1) || (match a[k - 1] { pt::FunctionAttribute::Visibility(v) => (v is External) || (v is Public), _ => false })
    } else { false }
}
pub open spec fn has_payable(a: Seq<pt::FunctionAttribute>, k: int) -> bool
    decreases k
{
    if 0 < k <= a.len() {
        has_payable(a, k - 1) || (match a[k - 1] { pt::FunctionAttribute::Mutability(m) => m is Payable, _ => false })
    } else { false }
}
pub open spec fn pat_payable(n: Node) -> bool {
    match fn_def_of(n) {
        Some(f) => (f.body is Some) && has_pub_ext(f.attributes@, f.attributes@.len() as int) && !has_payable(f.attributes@, f.attributes@.len() as int),
        None => false,
    }
}
pub open spec fn loc_fn(n: Node) -> pt::Loc { match fn_def_of(n) { Some(f) => f.loc, None => pt::Loc::Builtin } }
pub open spec fn w_fns(c: Node) -> Seq<Node> { spec_walk(set![Target::FunctionDefinition], c) }
pub open spec fn payable_of_contract(c: Node) -> Set<pt::Loc> {
    hits_all(w_fns(c), |n: Node| pat_payable(n), |n: Node| loc_fn(n))
}
// identity conversion Node -> Node (blanket `impl<T> From<T> for T`)
pub assume_specification[ <pt::SourceUnit as Clone>::clone ](a: &pt::SourceUnit) -> (r: pt::SourceUnit) ensures r == *a;
// TRUSTED: `impl<T> From<T> for T` (core) is the identity, instantiated at Node
#[verifier::external_body]
pub proof fn axiom_node_into_identity()
    ensures <Node as FromSpec<Node>>::obeys_from_spec(), forall|n: Node| #[trigger] <Node as FromSpec<Node>>::from_spec(n) == n
{}

// ---- private_func_leading_underscore
pub open spec fn fvis_contradicts(a: Seq<pt::FunctionAttribute>, k: int, underscore: bool) -> bool
    decreases k
{
    if 0 < k <= a.len() {
        fvis_contradicts(a, k - 1, underscore) || (match a[k - 1] {
            pt::FunctionAttribute::Visibility(v) => if (v is Public) || (v is External) { underscore } else { !underscore },
            _ => false,
        })
    } else { false }
}
pub open spec fn pat_private_func(n: Node) -> bool {
    match fn_def_of(n) {
        Some(f) => (f.ty is Function) && (match f.name {
            Some(id) => fvis_contradicts(f.attributes@, f.attributes@.len() as int, sp_starts_with::<char>(id.name@, '_')),
            None => false,
        }),
        None => false,
    }
}
pub open spec fn loc_fn_name(n: Node) -> pt::Loc {
    match fn_def_of(n) { Some(f) => (match f.name { Some(id) => id.loc, None => pt::Loc::Builtin }), None => pt::Loc::Builtin }
}
pub assume_specification[ <pt::Identifier as Clone>::clone ](a: &pt::Identifier) -> (r: pt::Identifier) ensures r == *a;
pub open spec fn pat_private_func_prefix(n: Node, k: int) -> bool {
    match fn_def_of(n) {
        Some(f) => (f.ty is Function) && (match f.name {
            Some(id) => fvis_contradicts(f.attributes@, k, sp_starts_with::<char>(id.name@, '_')),
            None => false,
        }),
        None => false,
    }
}
// TRUSTED: derived PartialEq of the field-less enum FunctionTy is structural equality
#[verifier::external_body]
pub proof fn axiom_function_ty_eq()
    ensures
        <pt::FunctionTy as vstd::std_specs::cmp::PartialEqSpec<pt::FunctionTy>>::obeys_eq_spec(),
        forall|a: pt::FunctionTy, b: pt::FunctionTy| #[trigger] <pt::FunctionTy as vstd::std_specs::cmp::PartialEqSpec<pt::FunctionTy>>::eq_spec(&a, &b) == (a == b),
{}
