// ---------------------------------------------------------------- C05/C07 simple expression-level detectors
// Every predicate below is Loc-blind: Loc fields are only ever bound to be returned by loc_*.
pub open spec fn su_node(su: pt::SourceUnit) -> Node { Node::SourceUnit(su) }
pub open spec fn w1(su: pt::SourceUnit, t: Target) -> Seq<Node> { spec_walk(set![t], su_node(su)) }
pub open spec fn wn(su: pt::SourceUnit, ts: Seq<Target>) -> Seq<Node> { spec_walk(tset(ts, ts.len() as int), su_node(su)) }

pub open spec fn expr_of(n: Node) -> Option<pt::Expression> { match n { Node::Expression(e) => Some(e), _ => None } }
pub open spec fn expr_loc(n: Node) -> pt::Loc {
    match n {
        Node::Expression(pt::Expression::MemberAccess(l, _, _)) => l,
        Node::Expression(pt::Expression::Equal(l, _, _)) => l,
        Node::Expression(pt::Expression::NotEqual(l, _, _)) => l,
        Node::Expression(pt::Expression::MoreEqual(l, _, _)) => l,
        Node::Expression(pt::Expression::LessEqual(l, _, _)) => l,
        Node::Expression(pt::Expression::Add(l, _, _)) => l,
        Node::Expression(pt::Expression::Subtract(l, _, _)) => l,
        Node::Expression(pt::Expression::Multiply(l, _, _)) => l,
        Node::Expression(pt::Expression::Divide(l, _, _)) => l,
        Node::Expression(pt::Expression::Assign(l, _, _)) => l,
        Node::Expression(pt::Expression::AssignDivide(l, _, _)) => l,
        Node::Expression(pt::Expression::FunctionCall(l, _, _)) => l,
        _ => pt::Loc::Builtin,
    }
}

// address_balance: `.balance` on a call whose callee is the elementary type `address`
pub open spec fn pat_address_balance(n: Node) -> bool {
    match n {
        Node::Expression(pt::Expression::MemberAccess(_, b, id)) => match *b {
            pt::Expression::FunctionCall(_, f, _) => match *f {
                pt::Expression::Type(_, ty) => match ty { pt::Type::Address => id.name@ == "balance"@, _ => false },
                _ => false,
            },
            _ => false,
        },
        _ => false,
    }
}
/// canonical form: address(this).balance
pub open spec fn canon_address_balance(n: Node) -> bool {
    match n {
        Node::Expression(pt::Expression::MemberAccess(_, b, id)) => match *b {
            pt::Expression::FunctionCall(_, f, args) => match *f {
                pt::Expression::Type(_, ty) => (ty is Address) && id.name@ == "balance"@ && args@.len() == 1 && (args@[0] is This),
                _ => false,
            },
            _ => false,
        },
        _ => false,
    }
}
pub proof fn lemma_address_balance_canon(n: Node) requires canon_address_balance(n) ensures pat_address_balance(n) {}

// bool_equals_bool: == / != with a true/false literal operand (exact)
pub open spec fn pat_bool_equals_bool(n: Node) -> bool {
    match n {
        Node::Expression(pt::Expression::Equal(_, a, b)) => (*a is BoolLiteral) || (*b is BoolLiteral),
        Node::Expression(pt::Expression::NotEqual(_, a, b)) => (*a is BoolLiteral) || (*b is BoolLiteral),
        _ => false,
    }
}
// optimal_comparison: every >= and <= (exact)
pub open spec fn pat_optimal_comparison(n: Node) -> bool {
    match n { Node::Expression(e) => (e is MoreEqual) || (e is LessEqual), _ => false }
}
// solidity_math: every binary + - * / (exact)
pub open spec fn pat_solidity_math(n: Node) -> bool {
    match n { Node::Expression(e) => (e is Add) || (e is Subtract) || (e is Multiply) || (e is Divide), _ => false }
}
// solidity_keccak256: call whose callee is the identifier keccak256; loc = the callee identifier
pub open spec fn pat_keccak(n: Node) -> bool {
    match n {
        Node::Expression(pt::Expression::FunctionCall(_, f, _)) => match *f { pt::Expression::Variable(id) => id.name@ == "keccak256"@, _ => false },
        _ => false,
    }
}
pub open spec fn loc_keccak(n: Node) -> pt::Loc {
    match n {
        Node::Expression(pt::Expression::FunctionCall(_, f, _)) => match *f { pt::Expression::Variable(id) => id.loc, _ => pt::Loc::Builtin },
        _ => pt::Loc::Builtin,
    }
}
// unsafe_erc20_operation: every member access named transfer / transferFrom / approve (exact)
pub open spec fn pat_unsafe_erc20(n: Node) -> bool {
    match n {
        Node::Expression(pt::Expression::MemberAccess(_, _, id)) => id.name@ == "transfer"@ || id.name@ == "transferFrom"@ || id.name@ == "approve"@,
        _ => false,
    }
}
// floating_pragma: a pragma directive whose value, comments removed, contains '^'
/// utils::strip_comments as a function of the character sequence (TRUSTED: regex-based, external_body stub below)
pub uninterp spec fn spec_strip_comments(s: Seq<char>) -> Seq<char>;
#[verifier::external_body]
pub fn strip_comments(text: &str) -> (r: String)
    ensures r@ == spec_strip_comments(text@)
{ unimplemented!() }
pub open spec fn pat_floating_pragma(n: Node) -> bool {
    match n {
        Node::SourceUnitPart(pt::SourceUnitPart::PragmaDirective(_, _, lit)) => sp_contains::<char>(spec_strip_comments(lit.string@), '^'),
        _ => false,
    }
}
pub open spec fn loc_pragma(n: Node) -> pt::Loc {
    match n { Node::SourceUnitPart(pt::SourceUnitPart::PragmaDirective(l, _, _)) => l, _ => pt::Loc::Builtin }
}

// address_zero: ==/!= with an operand that is a call of the elementary type `address` whose first
// argument is a number literal with digits "0"
pub open spec fn is_address_zero(e: pt::Expression) -> bool {
    match e {
        pt::Expression::FunctionCall(_, f, args) => match *f {
            pt::Expression::Type(_, ty) => (ty is Address) && args@.len() > 0 && (match args@[0] {
                pt::Expression::NumberLiteral(_, val, _) => val@ == "0"@,
                _ => false,
            }),
            _ => false,
        },
        _ => false,
    }
}
pub open spec fn pat_address_zero(n: Node) -> bool {
    match n {
        Node::Expression(pt::Expression::Equal(_, a, b)) => is_address_zero(*a) || is_address_zero(*b),
        Node::Expression(pt::Expression::NotEqual(_, a, b)) => is_address_zero(*a) || is_address_zero(*b),
        _ => false,
    }
}
/// canonical: address(0) with the plain literal 0 (no exponent), exactly one argument
pub open spec fn canon_address_zero_operand(e: pt::Expression) -> bool {
    match e {
        pt::Expression::FunctionCall(_, f, args) => match *f {
            pt::Expression::Type(_, ty) => (ty is Address) && args@.len() == 1 && (match args@[0] {
                pt::Expression::NumberLiteral(_, val, exp) => val@ == "0"@ && exp@.len() == 0,
                _ => false,
            }),
            _ => false,
        },
        _ => false,
    }
}
pub proof fn lemma_address_zero_canon(e: pt::Expression) requires canon_address_zero_operand(e) ensures is_address_zero(e) {}

// shift_math: * or / with an operand that is a decimal number literal whose value is a power of two.
// The arithmetic on the literal text lives in number_literal_is_power_of_two (string bytes: outside Verus;
// external_body here, checked exhaustively/bounded by the native harness against digits x 10^exponent).
pub uninterp spec fn spec_pow2_literal(digits: Seq<char>, exponent: Seq<char>) -> bool;
pub open spec fn lit_pow2(e: pt::Expression) -> bool {
    match e { pt::Expression::NumberLiteral(_, val, exp) => spec_pow2_literal(val@, exp@), _ => false }
}
pub open spec fn pat_shift_math(n: Node) -> bool {
    match n {
        Node::Expression(pt::Expression::Multiply(_, a, b)) => lit_pow2(*a) || lit_pow2(*b),
        Node::Expression(pt::Expression::Divide(_, a, b)) => lit_pow2(*a) || lit_pow2(*b),
        _ => false,
    }
}

// assign_update_array_value: a[k] = a[k] op E
/// e is `id[lit]`: (name, digits, exponent)
pub open spec fn idx_of(e: pt::Expression) -> Option<(Seq<char>, Seq<char>, Seq<char>)> {
    match e {
        pt::Expression::ArraySubscript(_, b, oi) => match (*b, oi) {
            (pt::Expression::Variable(id), Some(i)) => match *i {
                pt::Expression::NumberLiteral(_, num, exp) => Some((id.name@, num@, exp@)),
                _ => None,
            },
            _ => None,
        },
        _ => None,
    }
}
pub open spec fn binop_operands(e: pt::Expression) -> Option<(pt::Expression, pt::Expression)> {
    match e {
        pt::Expression::Add(_, l, r) => Some((*l, *r)),
        pt::Expression::Subtract(_, l, r) => Some((*l, *r)),
        pt::Expression::Divide(_, l, r) => Some((*l, *r)),
        pt::Expression::Multiply(_, l, r) => Some((*l, *r)),
        pt::Expression::Modulo(_, l, r) => Some((*l, *r)),
        pt::Expression::ShiftLeft(_, l, r) => Some((*l, *r)),
        pt::Expression::ShiftRight(_, l, r) => Some((*l, *r)),
        pt::Expression::BitwiseAnd(_, l, r) => Some((*l, *r)),
        pt::Expression::BitwiseOr(_, l, r) => Some((*l, *r)),
        pt::Expression::BitwiseXor(_, l, r) => Some((*l, *r)),
        _ => None,
    }
}
pub open spec fn subscript_on_variable(e: pt::Expression) -> bool {
    match e { pt::Expression::ArraySubscript(_, b, _) => *b is Variable, _ => false }
}
/// what the code is proved to flag
pub open spec fn pat_assign_update(n: Node) -> bool {
    match n {
        Node::Expression(pt::Expression::Assign(_, lhs, rhs)) => match (idx_of(*lhs), binop_operands(*rhs)) {
            (Some(a), Some((l, r))) =>
                (l is ArraySubscript) && (if subscript_on_variable(l) { idx_of(l) == Some(a) } else { idx_of(r) == Some(a) }),
            _ => false,
        },
        _ => false,
    }
}
/// §8 canon: a[k] = a[k] op E
pub open spec fn canon_assign_update(n: Node) -> bool {
    match n {
        Node::Expression(pt::Expression::Assign(_, lhs, rhs)) => match (idx_of(*lhs), binop_operands(*rhs)) {
            (Some(a), Some((l, r))) => idx_of(l) == Some(a),
            _ => false,
        },
        _ => false,
    }
}
/// §8 match: some operand of the binary operation is the same a[k]
pub open spec fn match_assign_update(n: Node) -> bool {
    match n {
        Node::Expression(pt::Expression::Assign(_, lhs, rhs)) => match (idx_of(*lhs), binop_operands(*rhs)) {
            (Some(a), Some((l, r))) => idx_of(l) == Some(a) || idx_of(r) == Some(a),
            _ => false,
        },
        _ => false,
    }
}
pub proof fn lemma_assign_update(n: Node)
    ensures canon_assign_update(n) ==> pat_assign_update(n), pat_assign_update(n) ==> match_assign_update(n)
{}

// cache_array_length: `.length` anywhere inside the condition of a `for`
pub open spec fn union_hits(w: Seq<Node>, k: int, f: spec_fn(Node) -> Set<pt::Loc>) -> Set<pt::Loc>
    decreases k
{
    if 0 < k <= w.len() { union_hits(w, k - 1, f).union(f(w[k - 1])) } else { Set::<pt::Loc>::empty() }
}
pub open spec fn for_cond(n: Node) -> Option<pt::Expression> {
    match n { Node::Statement(pt::Statement::For(_, _, Some(c), _, _)) => Some(*c), _ => None }
}
pub open spec fn pat_length(n: Node) -> bool {
    match n { Node::Expression(pt::Expression::MemberAccess(_, _, id)) => id.name@ == "length"@, _ => false }
}
pub open spec fn w_cond(c: pt::Expression) -> Seq<Node> { spec_walk(set![Target::MemberAccess], Node::Expression(c)) }
pub open spec fn length_hits_of_for(n: Node) -> Set<pt::Loc> {
    match for_cond(n) {
        Some(c) => hits_all(w_cond(c), |m: Node| pat_length(m), |m: Node| expr_loc(m)),
        None => Set::<pt::Loc>::empty(),
    }
}

// divide_before_multiply (C07)
pub open spec fn chain_div(e: pt::Expression) -> bool
    decreases e
{
    match e {
        pt::Expression::Divide(_, _, _) => true,
        pt::Expression::Multiply(_, l, _) => chain_div(*l),
        pt::Expression::Parenthesis(_, l) => chain_div(*l),
        _ => false,
    }
}
pub open spec fn chain_mul(e: pt::Expression) -> bool
    decreases e
{
    match e {
        pt::Expression::Multiply(_, _, _) => true,
        pt::Expression::Divide(_, l, _) => chain_mul(*l),
        pt::Expression::Add(_, l, _) => chain_mul(*l),
        pt::Expression::Subtract(_, l, _) => chain_mul(*l),
        pt::Expression::Modulo(_, l, _) => chain_mul(*l),
        pt::Expression::BitwiseAnd(_, l, _) => chain_mul(*l),
        pt::Expression::BitwiseOr(_, l, _) => chain_mul(*l),
        pt::Expression::BitwiseXor(_, l, _) => chain_mul(*l),
        pt::Expression::ShiftLeft(_, l, _) => chain_mul(*l),
        pt::Expression::ShiftRight(_, l, _) => chain_mul(*l),
        pt::Expression::Parenthesis(_, l) => chain_mul(*l),
        _ => false,
    }
}
pub open spec fn pat_div_before_mul(n: Node) -> bool {
    match n {
        Node::Expression(pt::Expression::Multiply(_, l, _)) => chain_div(*l),
        Node::Expression(pt::Expression::AssignDivide(_, _, r)) => chain_mul(*r),
        _ => false,
    }
}

// multiple_require: call to identifier `require` with a top-level argument that is an && expression
pub open spec fn any_and(s: Seq<pt::Expression>, k: int) -> bool
    decreases k
{
    if 0 < k <= s.len() { any_and(s, k - 1) || (s[k - 1] is And) } else { false }
}
pub open spec fn pat_multiple_require(n: Node) -> bool {
    match n {
        Node::Expression(pt::Expression::FunctionCall(_, f, args)) => match *f {
            pt::Expression::Variable(id) => id.name@ == "require"@ && any_and(args@, args@.len() as int),
            _ => false,
        },
        _ => false,
    }
}
/// §8 canon: require(a && b [, msg]) -- the condition (first argument) is an && expression
pub open spec fn canon_multiple_require(n: Node) -> bool {
    match n {
        Node::Expression(pt::Expression::FunctionCall(_, f, args)) => match *f {
            pt::Expression::Variable(id) => id.name@ == "require"@ && args@.len() >= 1 && (args@[0] is And),
            _ => false,
        },
        _ => false,
    }
}
pub proof fn lemma_any_and_witness(s: Seq<pt::Expression>, k: int, i: int)
    requires 0 <= i < k <= s.len(), s[i] is And
    ensures any_and(s, k)
    decreases k
{
    if i < k - 1 { lemma_any_and_witness(s, k - 1, i); }
}
pub proof fn lemma_multiple_require_canon(n: Node) requires canon_multiple_require(n) ensures pat_multiple_require(n) {
    match n {
        Node::Expression(pt::Expression::FunctionCall(_, f, args)) => { lemma_any_and_witness(args@, args@.len() as int, 0); }
        _ => {}
    }
}
