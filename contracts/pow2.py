"""Unit `pow2` (C05 / C04): the halving loop of shift_math's `number_literal_is_power_of_two`
(decimal digit vector -> is the value a power of two), extracted as the TAIL of the function (R6).

The statements before the loop (digit filtering with iterator adapters, exponent handling with str::replace / parse,
leading-zero removal with Iterator::position + split_off) are not in Verus' subset; they stay with the bounded check.
What is proved here, for digit vectors of ANY length: the loop terminates, never indexes out of bounds, never
overflows, and returns true iff the decimal value of the digits is a power of two."""
O = "src/analyzer/optimizations/shift_math.rs"
STANDALONE = True
FEATURES = ""

FUNCTIONS = [
    dict(name="number_literal_is_power_of_two", rel=O,
         tail_from=dict(match=r"^while\b",
                        header="""#[verifier::loop_isolation(false)]
fn number_literal_is_power_of_two__tail(mut digits: Vec<u8>) -> (r: bool)
    requires digits@.len() >= 1, digits@[0] != 0, digits_ok(digits@)
    ensures r == is_pow2(dval(digits@))
{"""),
         start="    let ghost orig = digits@;",
         plain_loops=[dict(nth=0,
                           clauses="invariant digits@.len() >= 1, digits@[0] != 0, digits_ok(digits@), is_pow2(dval(digits@)) == is_pow2(dval(orig))\n    decreases dval(digits@)",
                           body="let ghost d = digits@; proof { lemma_dval_lower(d); assert(d.last() == d[d.len() - 1]); lemma_dval_single(d); }",
                           after="proof { lemma_dval_single(digits@); }")],
         loops=[dict(match=r"^digits$", binder="it",
                     inv="it.seq() == d, digits_ok(d), carry <= 1, digits_ok(halved@), dval(d.subrange(0, it.index@)) == 2 * dval(halved@) + carry as nat, halved@.len() > 0 ==> halved@[0] != 0",
                     after="proof { assert(d.subrange(0, d.len() as int) =~= d); assert(dval(d) % 2 == 0); assert(carry == 0); assert(dval(d) >= 2); assert(dval(halved@) == dval(d) / 2); }")],
         after=[dict(match=r"^let\s+current\s*=", text="proof { lemma_dval_prefix(d, it.index@); lemma_dval_push(halved@, (current / 2) as u8); }")]),
]
LEMMAS = [
    ("lemma_dval_push", "value of a digit sequence after appending a digit"),
    ("lemma_dval_prefix", "value of a prefix extended by one digit"),
    ("lemma_dval_lower", "a digit sequence without leading zero has value >= 1 (>= 10 with two or more digits)"),
    ("lemma_dval_single", "value of a one-digit sequence is that digit"),
]
