"""Unit `det_incdec` (C05): increment_decrement and its two extraction helpers (trusted HashSet iteration model)."""
O = "src/analyzer/optimizations/increment_decrement.rs"
FEATURES = "#![feature(pattern)]\n#![feature(allocator_api)]"

FUNCTIONS = [
    dict(name="extract_increment_decrement", rel=O,
         contract="ensures r@ == incdec_locs(node)",
         start="    proof { axiom_loc_key_model(); } let ghost root = node;",
         after=[dict(match="@x0", text="let ghost w = $x0@;")],
         loops=[dict(match=r"^$x0$", binder="it",
                     inv="it.seq() == w, w == wn_node(seq![Target::PreIncrement, Target::PreDecrement, Target::PostIncrement, Target::PostDecrement], root), $ret@ == hits(w, it.index@, |n: Node| is_incdec(n), |n: Node| incdec_loc(n))",
                     body="proof { axiom_loc_key_model(); reveal_with_fuel(tset, 8); lemma_flt_wanted(tset(seq![Target::PreIncrement, Target::PreDecrement, Target::PostIncrement, Target::PostDecrement], 4), all_nodes(root), it.index@); }")]),
    dict(name="extract_pre_increment_pre_decrement", rel=O,
         contract="ensures r@ == pre_locs(node)",
         start="    proof { axiom_loc_key_model(); } let ghost root = node;",
         after=[dict(match="@x0", text="let ghost w = $x0@;")],
         loops=[dict(match=r"^$x0$", binder="it",
                     inv="it.seq() == w, w == wn_node(seq![Target::PreIncrement, Target::PreDecrement], root), $ret@ == hits(w, it.index@, |n: Node| is_pre(n), |n: Node| incdec_loc(n))",
                     body="proof { axiom_loc_key_model(); reveal_with_fuel(tset, 8); lemma_flt_wanted(tset(seq![Target::PreIncrement, Target::PreDecrement], 2), all_nodes(root), it.index@); }")]),
    dict(name="increment_decrement_optimization", rel=O,
         contract="ensures r@ == incdec_locs(su_node(source_unit)).difference(exempt(source_unit))",
         start="    proof { axiom_loc_key_model(); axiom_iter_items_hashset(); }",
         after=[dict(match="@x0", text="let ghost w = $x0@;")],
         loops=[dict(match=r"^$x0$", binder="it",
                     inv="it.seq() == w, w == spec_walk(set![Target::Block], su_node(source_unit)), unchecked_locations@ =~= union_hits(w, it.index@, |n: Node| block_exempt(n))",
                     body="proof { axiom_loc_key_model(); axiom_iter_items_hashset(); lemma_flt_wanted(set![Target::Block], all_nodes(su_node(source_unit)), it.index@); } let ghost base = unchecked_locations@;"),
                dict(match=r"^statements$", binder="is",
                     inv="unchecked_locations@ =~= base.union(stmts_pre(is.seq(), is.index@))",
                     body="proof { axiom_loc_key_model(); axiom_iter_items_hashset(); }"),
                dict(match=r"^locations$", binder="iv", r5=True, rem="hs_rem", into_iter="vx_into_iter_hs",
                     pre="let ghost all = locations@; let ghost ex = unchecked_locations@;",
                     inv="all == incdec_locs(su_node(source_unit)), ex == exempt(source_unit), unchecked_locations@ == ex, $ret@ =~= seq_set($s, $k).difference(ex), forall|k: pt::Loc| #![trigger $s.contains(k)] $s.contains(k) <==> all.contains(k)",
                     body="proof { axiom_loc_key_model(); }",
                     after="proof { lemma_seq_set_all(iv_s, all); }")]),
]
LEMMAS = [
    ("lemma_seq_set_all", "iterating a set by value visits exactly its elements"),
]
