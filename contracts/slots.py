"""Unit `slots` (C10): utils::get_type_size, utils::storage_slots_used, the two pack_* detectors."""
UTILS = "src/analyzer/utils.rs"
PSV = "src/analyzer/optimizations/pack_storage_variables.rs"
PST = "src/analyzer/optimizations/pack_struct_variables.rs"

FUNCTIONS = [
    dict(name="get_type_size", rel=UTILS,
         contract="ensures r as int == spec_size(expression)"),
    dict(name="storage_slots_used", rel=UTILS,
         contract="requires sizes_ok(variables@), variables@.len() < u32::MAX\n    ensures r as int == slots(variables@)",
         loops=[dict(match=r"^variables$", binder="it",
                     pre="let ghost v0 = variables@;",
                     inv="it.seq() == v0, sizes_ok(v0), v0.len() < u32::MAX, bytes_used_in_slot as int == lay(v0, it.index@).0, $ret as int == lay(v0, it.index@).1",
                     body="proof { lemma_lay_bounds(v0, it.index@); lemma_lay_bounds(v0, it.index@ + 1); }",
                     after="proof { lemma_lay_bounds(v0, v0.len() as int); }")]),
    dict(name="struct_can_be_packed", rel=PST,
         contract="requires wf_fields(struct_definition.fields@), struct_definition.fields@.len() < u32::MAX\n    ensures r == packable(field_sizes(struct_definition.fields@, struct_definition.fields@.len() as int))",
         loops=[dict(match=r"struct_definition\.fields", binder="it",
                     pre="let ghost f0 = struct_definition.fields@;",
                     inv="it.seq() == f0, wf_fields(f0), variable_sizes@ == field_sizes(f0, it.index@)",
                     body="proof { lemma_size_range(f0[it.index@].ty); }")],
         after=[dict(match=r"variable_sizes\.sort\(\)", text="proof { lemma_field_sizes_ok(f0, f0.len() as int); lemma_sorted_is_asc(unordered_variable_sizes@, variable_sizes@); lemma_perm_sizes_ok(unordered_variable_sizes@, variable_sizes@); }")]),
    dict(name="pack_struct_variables_optimization", rel=PST,
         contract="requires all_wf(w_structs(source_unit), |n: Node| wf_struct_node(n))\n    ensures r@ == hits_all(w_structs(source_unit), |n: Node| pat_pack_struct(n), |n: Node| loc_pack_struct(n))",
         start="    proof { axiom_loc_key_model(); }",
         after=[dict(match="@x0", text="let ghost w = $x0@;")],
         loops=[dict(match=r"^$x0$", binder="it",
                     inv="it.seq() == w, w == w_structs(source_unit), all_wf(w, |n: Node| wf_struct_node(n)), $ret@ == hits(w, it.index@, |n: Node| pat_pack_struct(n), |n: Node| loc_pack_struct(n))",
                     body="proof { axiom_loc_key_model(); lemma_flt_wanted(set![Target::StructDefinition], all_nodes(Node::SourceUnit(source_unit)), it.index@); assert(wf_struct_node(w[it.index@])); }")]),
    dict(name="pack_storage_variables_optimization", rel=PSV,
         contract="requires all_wf(w_contracts(source_unit), |n: Node| wf_contract_node(n))\n    ensures r@ == hits_all(w_contracts(source_unit), |n: Node| pat_pack_storage(n), |n: Node| loc_pack_storage(n))",
         start="    proof { axiom_loc_key_model(); }",
         after=[dict(match="@x0", text="let ghost w = $x0@;"),
                dict(match=r"variable_sizes\.sort\(\)", text="proof { lemma_part_sizes_ok(p0, p0.len() as int); lemma_sorted_is_asc(unordered_variable_sizes@, variable_sizes@); lemma_perm_sizes_ok(unordered_variable_sizes@, variable_sizes@); }")],
         loops=[dict(match=r"^$x0$", binder="it",
                     inv="it.seq() == w, w == w_contracts(source_unit), all_wf(w, |n: Node| wf_contract_node(n)), $ret@ == hits(w, it.index@, |n: Node| pat_pack_storage(n), |n: Node| loc_pack_storage(n))",
                     body="proof { axiom_loc_key_model(); lemma_flt_wanted(set![Target::ContractDefinition], all_nodes(Node::SourceUnit(source_unit)), it.index@); assert(wf_contract_node(w[it.index@])); }"),
                dict(match=r"contract_definition(\.clone\(\))?\.parts", binder="itp",
                     pre="let ghost p0 = contract_definition.parts@;",
                     inv="itp.seq() == p0, wf_parts(p0), variable_sizes@ == part_sizes(p0, itp.index@)",
                     body="proof { match p0[itp.index@] { pt::ContractPart::VariableDefinition(d) => { lemma_size_range(d.ty); } _ => {} } }")]),
]
LEMMAS = [
    ("lemma_c10_reported_has_witness", "reported ==> a permutation with strictly fewer slots exists"),
    ("lemma_c10_optimal_not_reported", "declared order optimal ==> not reported"),
    ("lemma_c10_sorting_saves_reported", "sorting saves a slot (either direction) ==> reported"),
    ("lemma_sorted_is_asc", "the run-time sort result is the mathematical ascending sort"),
    ("lemma_lay_bounds", "layout state stays within one slot"),
]
