// ---------------------------------------------------------------- unit pow2: decimal digit vectors
/// value of a big-endian decimal digit sequence
pub open spec fn dval(s: Seq<u8>) -> nat
    decreases s.len()
{
    if s.len() == 0 { 0 } else { dval(s.drop_last()) * 10 + s.last() as nat }
}
/// n is a power of two (1, 2, 4, ...)
pub open spec fn is_pow2(n: nat) -> bool
    decreases n
{
    n == 1 || (n > 1 && n % 2 == 0 && is_pow2(n / 2))
}
pub open spec fn digits_ok(s: Seq<u8>) -> bool { forall|i: int| 0 <= i < s.len() ==> #[trigger] s[i] <= 9 }

pub proof fn lemma_dval_push(s: Seq<u8>, x: u8)
    ensures dval(s.push(x)) == dval(s) * 10 + x as nat
{
    assert(s.push(x).drop_last() =~= s);
}
pub proof fn lemma_dval_prefix(s: Seq<u8>, k: int)
    requires 0 <= k < s.len()
    ensures dval(s.subrange(0, k + 1)) == dval(s.subrange(0, k)) * 10 + s[k] as nat
{
    assert(s.subrange(0, k + 1).drop_last() =~= s.subrange(0, k));
}
pub proof fn lemma_dval_single(s: Seq<u8>)
    ensures s.len() == 1 ==> dval(s) == s[0] as nat
{
    if s.len() == 1 {
        assert(s.drop_last().len() == 0);
        assert(dval(s.drop_last()) == 0);
    }
}
pub proof fn lemma_dval_lower(s: Seq<u8>)
    requires s.len() >= 1, s[0] >= 1
    ensures dval(s) >= 1, s.len() >= 2 ==> dval(s) >= 10
    decreases s.len()
{
    if s.len() == 1 {
        lemma_dval_single(s);
    } else {
        lemma_dval_lower(s.drop_last());
    }
}
/// 2^k as a natural number, and the link between the recursive predicate and the closed form
pub open spec fn pow2(k: nat) -> nat decreases k { if k == 0 { 1 } else { 2 * pow2((k - 1) as nat) } }
pub proof fn lemma_pow2_is_pow2(k: nat)
    ensures is_pow2(pow2(k))
    decreases k
{
    if k > 0 {
        lemma_pow2_is_pow2((k - 1) as nat);
        assert(pow2(k) == 2 * pow2((k - 1) as nat));
        lemma_pow2_pos((k - 1) as nat);
        assert(pow2(k) / 2 == pow2((k - 1) as nat));
    }
}
pub proof fn lemma_pow2_pos(k: nat)
    ensures pow2(k) >= 1
    decreases k
{
    if k > 0 { lemma_pow2_pos((k - 1) as nat); }
}
pub proof fn lemma_is_pow2_has_exponent(n: nat) -> (k: nat)
    requires is_pow2(n)
    ensures n == pow2(k)
    decreases n
{
    if n == 1 { 0 } else { let k1 = lemma_is_pow2_has_exponent(n / 2); (k1 + 1) as nat }
}
