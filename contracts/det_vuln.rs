// ---------------------------------------------------------------- C07: unprotected_selfdestruct
pub open spec fn su_node(su: pt::SourceUnit) -> Node { Node::SourceUnit(su) }
pub open spec fn w_contracts(su: pt::SourceUnit) -> Seq<Node> { spec_walk(set![Target::ContractDefinition], su_node(su)) }
pub open spec fn contract_of(n: Node) -> Option<pt::ContractDefinition> {
    match n { Node::SourceUnitPart(pt::SourceUnitPart::ContractDefinition(cd)) => Some(*cd), _ => None }
}
pub open spec fn union_hits(w: Seq<Node>, k: int, f: spec_fn(Node) -> Set<pt::Loc>) -> Set<pt::Loc>
    decreases k
{
    if 0 < k <= w.len() { union_hits(w, k - 1, f).union(f(w[k - 1])) } else { Set::<pt::Loc>::empty() }
}
pub open spec fn fn_def_of(n: Node) -> Option<pt::FunctionDefinition> {
    match n { Node::ContractPart(pt::ContractPart::FunctionDefinition(f)) => Some(*f), _ => None }
}
pub open spec fn w_fns(c: Node) -> Seq<Node> { spec_walk(set![Target::FunctionDefinition], c) }
pub open spec fn w_calls(body: pt::Statement) -> Seq<Node> { spec_walk(set![Target::FunctionCall], Node::Statement(body)) }

pub open spec fn has_pub_ext(a: Seq<pt::FunctionAttribute>, k: int) -> bool
    decreases k
{
    if 0 < k <= a.len() {
        has_pub_ext(a, k - 1) || (match a[k - 1] { pt::FunctionAttribute::Visibility(v) => (v is External) || (v is Public), _ => false })
    } else { false }
}
/// callee is the identifier selfdestruct / suicide
pub open spec fn is_selfdestruct_callee(e: pt::Expression) -> bool {
    match e { pt::Expression::Variable(id) => id.name@ == "selfdestruct"@ || id.name@ == "suicide"@, _ => false }
}
/// some identifier of the modifier's path contains "only"
pub open spec fn path_has_only(ids: Seq<pt::Identifier>, k: int) -> bool
    decreases k
{ if 0 < k <= ids.len() { path_has_only(ids, k - 1) || sp_contains::<&str>(ids[k - 1].name@, "only") } else { false } }
pub open spec fn attr_is_only_modifier(a: pt::FunctionAttribute) -> bool {
    match a { pt::FunctionAttribute::BaseOrModifier(_, b) => path_has_only(b.name.identifiers@, b.name.identifiers@.len() as int), _ => false }
}
pub open spec fn has_only_modifier(a: Seq<pt::FunctionAttribute>, k: int) -> bool
    decreases k
{ if 0 < k <= a.len() { has_only_modifier(a, k - 1) || attr_is_only_modifier(a[k - 1]) } else { false } }

pub open spec fn is_msg_sender(e: pt::Expression) -> bool {
    match e {
        pt::Expression::MemberAccess(_, b, id) => match *b {
            pt::Expression::Variable(v) => v.name@ == "msg"@ && id.name@ == "sender"@,
            _ => false,
        },
        _ => false,
    }
}
/// a top-level argument that is msg.sender, or msg.sender ==/!= x, or x ==/!= msg.sender
pub open spec fn arg_is_sender_check(e: pt::Expression) -> bool {
    match e {
        pt::Expression::Equal(_, a, b) => is_msg_sender(*a) || is_msg_sender(*b),
        pt::Expression::NotEqual(_, a, b) => is_msg_sender(*a) || is_msg_sender(*b),
        pt::Expression::MemberAccess(_, _, _) => is_msg_sender(e),
        _ => false,
    }
}
pub open spec fn any_sender_check(args: Seq<pt::Expression>, k: int) -> bool
    decreases k
{ if 0 < k <= args.len() { any_sender_check(args, k - 1) || arg_is_sender_check(args[k - 1]) } else { false } }
/// a call that passes a msg.sender check: not a type conversion, not selfdestruct/suicide itself
pub open spec fn call_guards(n: Node) -> bool {
    match n {
        Node::Expression(pt::Expression::FunctionCall(_, f, args)) =>
            !(*f is Type) && !is_selfdestruct_callee(*f) && any_sender_check(args@, args@.len() as int),
        _ => false,
    }
}
pub open spec fn any_guard(w: Seq<Node>, k: int) -> bool
    decreases k
{ if 0 < k <= w.len() { any_guard(w, k - 1) || call_guards(w[k - 1]) } else { false } }
pub open spec fn fn_guarded(f: pt::FunctionDefinition) -> bool {
    match f.body { Some(b) => any_guard(w_calls(b), w_calls(b).len() as int), None => false }
}
pub open spec fn fn_protected(f: pt::FunctionDefinition) -> bool {
    has_only_modifier(f.attributes@, f.attributes@.len() as int) || fn_guarded(f)
}
pub open spec fn is_sd_call(n: Node) -> bool {
    match n { Node::Expression(pt::Expression::FunctionCall(_, f, _)) => is_selfdestruct_callee(*f), _ => false }
}
pub open spec fn call_loc(n: Node) -> pt::Loc { match n { Node::Expression(pt::Expression::FunctionCall(l, _, _)) => l, _ => pt::Loc::Builtin } }
/// §8: f is a member function with a body, not a constructor, public/external
pub open spec fn fn_exposed(f: pt::FunctionDefinition) -> bool {
    (f.body is Some) && !(f.ty is Constructor) && has_pub_ext(f.attributes@, f.attributes@.len() as int)
}
pub open spec fn sd_of_fn(n: Node) -> Set<pt::Loc> {
    match fn_def_of(n) {
        Some(f) => if fn_exposed(f) && !fn_protected(f) {
            hits_all(w_calls(f.body.unwrap()), |m: Node| is_sd_call(m), |m: Node| call_loc(m))
        } else { Set::<pt::Loc>::empty() },
        None => Set::<pt::Loc>::empty(),
    }
}
pub open spec fn sd_of_contract(c: Node) -> Set<pt::Loc> {
    union_hits(w_fns(c), w_fns(c).len() as int, |n: Node| sd_of_fn(n))
}
pub assume_specification[ <pt::Statement as Clone>::clone ](a: &pt::Statement) -> (r: pt::Statement) ensures r == *a;
pub assume_specification<T: ?Sized, A: core::alloc::Allocator>[ <Box<T, A> as AsRef<T>>::as_ref ](b: &Box<T, A>) -> (r: &T)
    ensures r == &**b;
pub proof fn lemma_path_only_mono(ids: Seq<pt::Identifier>, k: int, n: int)
    requires 0 <= k <= n <= ids.len(), path_has_only(ids, k)
    ensures path_has_only(ids, n)
    decreases n - k
{ if k < n { lemma_path_only_mono(ids, k + 1, n); } }
pub proof fn lemma_only_mod_mono(a: Seq<pt::FunctionAttribute>, k: int, n: int)
    requires 0 <= k <= n <= a.len(), has_only_modifier(a, k)
    ensures has_only_modifier(a, n)
    decreases n - k
{ if k < n { lemma_only_mod_mono(a, k + 1, n); } }
pub proof fn lemma_sender_check_mono(a: Seq<pt::Expression>, k: int, n: int)
    requires 0 <= k <= n <= a.len(), any_sender_check(a, k)
    ensures any_sender_check(a, n)
    decreases n - k
{ if k < n { lemma_sender_check_mono(a, k + 1, n); } }
pub proof fn lemma_guard_mono(w: Seq<Node>, k: int, n: int)
    requires 0 <= k <= n <= w.len(), any_guard(w, k)
    ensures any_guard(w, n)
    decreases n - k
{ if k < n { lemma_guard_mono(w, k + 1, n); } }
#[verifier::external_body]
pub proof fn axiom_function_ty_eq()
    ensures
        <pt::FunctionTy as vstd::std_specs::cmp::PartialEqSpec<pt::FunctionTy>>::obeys_eq_spec(),
        forall|a: pt::FunctionTy, b: pt::FunctionTy| #[trigger] <pt::FunctionTy as vstd::std_specs::cmp::PartialEqSpec<pt::FunctionTy>>::eq_spec(&a, &b) == (a == b),
{}
#[verifier::external_body]
pub proof fn axiom_node_into_identity()
    ensures <Node as FromSpec<Node>>::obeys_from_spec(), forall|n: Node| #[trigger] <Node as FromSpec<Node>>::from_spec(n) == n
{}
pub proof fn lemma_flt_member(t: Set<Target>, s: Seq<Node>, x: Node)
    requires flt(t, s).contains(x)
    ensures s.contains(x), wanted(t, x)
    decreases s.len()
{
    reveal(Seq::filter);
    if s.len() > 0 {
        let sub = s.drop_last();
        if flt(t, sub).contains(x) {
            lemma_flt_member(t, sub, x);
            let j = choose|j: int| 0 <= j < sub.len() && sub[j] == x;
            assert(s[j] == x);
        } else {
            let i = choose|i: int| 0 <= i < flt(t, s).len() && flt(t, s)[i] == x;
            assert(wanted(t, s.last()));
            assert(flt(t, s) =~= flt(t, sub).push(s.last()));
            if i < flt(t, sub).len() { assert(flt(t, sub)[i] == x); assert(false); }
            assert(x == s.last());
            assert(s[s.len() - 1] == x);
        }
    }
}
pub proof fn lemma_fn_nodes_in_contract(c: Node, i: int)
    requires contract_of(c) is Some, 0 <= i < spec_walk(set![Target::FunctionDefinition], c).len()
    ensures
        spec_walk(set![Target::FunctionDefinition], c)[i] is ContractPart,
        kind(spec_walk(set![Target::FunctionDefinition], c)[i]) == Target::FunctionDefinition,
{
    let t = set![Target::FunctionDefinition];
    let s = all_nodes(c);
    let x = flt(t, s)[i];
    assert(flt(t, s).contains(x));
    lemma_flt_member(t, s, x);
    let j = choose|j: int| 0 <= j < s.len() && s[j] == x;
    match c {
        Node::SourceUnitPart(p) => {
            lemma_bt_SourceUnitPart(p);
            if j == 0 { assert(s[0] == c); } else { assert(s.subrange(1, s.len() as int)[j - 1] == s[j]); assert(below_top(x)); }
        }
        _ => {}
    }
}
