//! C13 at directory level (bounded): `c13-dir`.
//!
//! Property text: "Two runs over the same directory content produce byte-identical reports, and more generally the
//! report text depends only on the set of (pattern, file, lines) findings: not on the order in which files were
//! discovered, on the order in which patterns were configured, or on any per-process randomness."
//!
//! For every generated directory CONTENT (a set of paths with fixed file contents) the same content is materialised
//! in several scratch directories that differ only in the order in which the entries were CREATED, so that
//! `fs::read_dir` lists them differently. The listing of every copy is observed (never assumed). For every copy and
//! every category the real `analyze_dir` is called with all patterns, in declaration order and in permuted orders,
//! and its result is rendered with the real `generate_*_report`. Contract: all texts of one (content, category) are
//! byte-identical. Additionally: the same call repeated on the same copy, and the same call in a NEW process
//! (`vxn c13-dir-render`), give the same bytes.
//!
//! Listing order is a property of the file system: on ext4 (hashed directories) it does not depend on the creation
//! order at all, on tmpfs it is the reverse creation order. The scratch base is therefore probed: the first of
//! $VXN_C13_SCRATCH, std::env::temp_dir(), /dev/shm on which the creation order changes the listing is used.
//!
//! Replay: `vxn c13-dir-case @src:pseed=<n>#<tree>#<tree>#.. [<category>]`; every `<tree>` is the SAME content in the
//! format of c03-case (`<code>:<path>|..`), the order of its entries is the creation order of that copy.
//! This module is a child of `dirs` (file src/dirs_c13.rs): it reuses its trees, sources, oracle and observation code.
use super::*;
use solstat::report::{optimization_report as orep, qa_report as qrep, vulnerability_report as vrep};

type Findings = Vec<(String, Vec<(String, Vec<i64>)>)>;

struct Rendered {
    text: String,
    /// what analyze_dir returned: patterns sorted by name, entries in the order of the returned Vec
    raw: Findings,
}

impl Rendered {
    /// findings as a set: entries sorted, patterns without entries dropped
    fn normalised(&self) -> Findings {
        let mut v: Findings = vec![];
        for (p, l) in &self.raw {
            if l.is_empty() {
                continue;
            }
            let mut l = l.clone();
            l.sort();
            v.push((p.clone(), l));
        }
        v
    }
}

macro_rules! analyse_with {
    ($all:expr, $dir_fn:path, $rep_fn:path, $dir:expr, $order:expr) => {{
        let all = $all;
        let sel: Vec<_> = $order.iter().map(|p: &Pat| all[p.1 as usize]).collect();
        let dir: &str = $dir;
        let m = guarded(|| $dir_fn(dir, sel)).map_err(|e| ("analyze-dir", e))?;
        let mut raw: Findings =
            m.iter().map(|(k, v)| (format!("{:?}", k), v.iter().map(|(n, l)| (n.clone(), l.iter().map(|x| *x as i64).collect())).collect())).collect();
        raw.sort_by(|a, b| a.0.cmp(&b.0));
        let text = guarded(move || $rep_fn(m)).map_err(|e| ("generate-report", e))?;
        Ok(Rendered { text, raw })
    }};
}

/// the REAL analyze_dir followed by the REAL generate_*_report; Err((stage, panic message))
fn analyse(cat: u8, dir: &str, order: &[Pat]) -> Result<Rendered, (&'static str, String)> {
    match cat {
        0 => analyse_with!(opt::get_all_optimizations(), opt::analyze_dir, orep::generate_optimization_report, dir, order),
        1 => analyse_with!(vul::get_all_vulnerabilities(), vul::analyze_dir, vrep::generate_vulnerability_report, dir, order),
        _ => analyse_with!(qa::get_all_qa(), qa::analyze_dir, qrep::generate_qa_report, dir, order),
    }
}

// ------------------------------------------------------------------------------------------------
// scratch base: a place where the creation order changes the listing
// ------------------------------------------------------------------------------------------------

struct ScratchAt(PathBuf);

impl ScratchAt {
    fn new(base: &Path) -> ScratchAt {
        let n = SCRATCH_N.fetch_add(1, Ordering::SeqCst);
        let p = base.join(format!("vxn-{}-c13d{}", std::process::id(), n));
        let _ = fs::remove_dir_all(&p);
        fs::create_dir_all(&p).expect("cannot create scratch directory");
        ScratchAt(p)
    }
    fn path(&self) -> &Path {
        &self.0
    }
    fn path_str(&self) -> String {
        self.0.to_str().expect("scratch path is not UTF-8").to_string()
    }
}

impl Drop for ScratchAt {
    fn drop(&mut self) {
        let _ = fs::remove_dir_all(&self.0);
    }
}

fn creation_order_matters(base: &Path) -> Result<bool, String> {
    let names = ["a.sol", "b.sol", "A.sol", "lib", "x", "k.sol", "Token.sol", "y"];
    let list = |rev: bool| -> Result<Vec<String>, String> {
        if !base.is_dir() {
            return Err(format!("{:?} is not a directory", base));
        }
        let n = SCRATCH_N.fetch_add(1, Ordering::SeqCst);
        let p = base.join(format!("vxn-{}-c13p{}", std::process::id(), n));
        let _ = fs::remove_dir_all(&p);
        fs::create_dir_all(&p).map_err(|e| format!("mkdir {:?}: {}", p, e))?;
        let sc = ScratchAt(p);
        let mut order: Vec<&str> = names.to_vec();
        if rev {
            order.reverse();
        }
        for n in order {
            fs::write(sc.path().join(n), b"").map_err(|e| format!("probe {:?}: {}", n, e))?;
        }
        let mut v = vec![];
        for e in fs::read_dir(sc.path()).map_err(|e| e.to_string())? {
            v.push(e.map_err(|e| e.to_string())?.file_name().to_string_lossy().to_string());
        }
        Ok(v)
    };
    Ok(list(false)? != list(true)?)
}

/// (base, does the creation order change the listing there, what was tried)
fn pick_base() -> (PathBuf, bool, Vec<String>) {
    let mut cands: Vec<PathBuf> = vec![];
    if let Ok(p) = std::env::var("VXN_C13_SCRATCH") {
        if !p.is_empty() {
            cands.push(PathBuf::from(p));
        }
    }
    cands.push(std::env::temp_dir());
    cands.push(PathBuf::from("/dev/shm"));
    let mut tried = vec![];
    for c in &cands {
        match creation_order_matters(c) {
            Ok(true) => {
                tried.push(format!("{}: creation order changes the listing (used)", c.display()));
                return (c.clone(), true, tried);
            }
            Ok(false) => tried.push(format!("{}: listing does not depend on the creation order", c.display())),
            Err(e) => tried.push(format!("{}: not usable ({})", c.display(), e)),
        }
    }
    (std::env::temp_dir(), false, tried)
}

// ------------------------------------------------------------------------------------------------
// cases
// ------------------------------------------------------------------------------------------------

struct DCase {
    /// the same content, entries in the creation order of each copy
    copies: Vec<Tree>,
    /// seed of the shuffled pattern order (part of the replay payload)
    pseed: u64,
    origin: &'static str,
}

impl DCase {
    fn ser(&self) -> String {
        let mut parts = vec![format!("pseed={}", self.pseed)];
        parts.extend(self.copies.iter().map(|t| t.ser()));
        parts.join("#")
    }
    fn parse(s: &str) -> Result<DCase, String> {
        let mut pseed = 1u64;
        let mut copies = vec![];
        for part in s.trim().split('#').map(|x| x.trim()).filter(|x| !x.is_empty()) {
            if let Some(n) = part.strip_prefix("pseed=") {
                pseed = n.parse().map_err(|_| format!("bad pseed {:?}", n))?;
            } else {
                copies.push(Tree::parse(part)?);
            }
        }
        if copies.is_empty() {
            return Err("no tree in the payload".into());
        }
        let c0 = copies[0].canonical();
        for (i, c) in copies.iter().enumerate() {
            if c.canonical() != c0 {
                return Err(format!("copy {} does not hold the same content as copy 0", i));
            }
        }
        Ok(DCase { copies, pseed, origin: "replay" })
    }
    fn canonical(&self) -> String {
        self.copies[0].canonical()
    }
}

/// pattern orders: declaration order, reversed, rotated, shuffled by pseed
fn pattern_orders(orc: &Oracle, cat: u8, pseed: u64) -> Vec<(&'static str, Vec<Pat>)> {
    let all = orc.all(cat);
    let mut out = vec![("declaration order", all.clone())];
    if all.len() < 2 {
        return out;
    }
    let mut r = all.clone();
    r.reverse();
    out.push(("reversed", r));
    let mut s = all.clone();
    let mut rng = Rng::new(pseed ^ ((cat as u64 + 1) << 32));
    rng.shuffle(&mut s);
    if s == all {
        s.rotate_left(1);
    }
    if !out.iter().any(|(_, o)| *o == s) {
        out.push(("shuffled", s));
    }
    out
}

fn first_diff(a: &str, b: &str) -> (usize, String, String) {
    let (mut la, mut lb) = (a.split('\n'), b.split('\n'));
    let mut n = 1;
    loop {
        match (la.next(), lb.next()) {
            (Some(x), Some(y)) if x == y => n += 1,
            (x, y) => {
                let f = |o: Option<&str>| match o {
                    Some(s) => format!("{:?}", s.chars().take(160).collect::<String>()),
                    None => "(end of report)".to_string(),
                };
                return (n, f(x), f(y));
            }
        }
    }
}

fn clip(s: &str, n: usize) -> String {
    if s.chars().count() > n {
        format!("{}...", s.chars().take(n).collect::<String>())
    } else {
        s.to_string()
    }
}

fn fmt_findings(f: &Findings) -> String {
    clip(&f.iter().map(|(p, l)| format!("{} -> {}", p, fmt_entries(l))).collect::<Vec<_>>().join("; "), 700)
}

#[derive(Default)]
struct DOut {
    evals: u64,
    renders: u64,
    nontrivial: Option<String>,
    cover: BTreeSet<String>,
    viol: Vec<(Disc, Vec<String>)>,
    sample: Option<J>,
    harness_error: Option<String>,
    listing_differs: bool,
    result_order_differs: bool,
    child_runs: u64,
    notes: Vec<String>,
}

/// position of every entry in the listing of its parent, per copy
fn positions(ns: &[Node], out: &mut HashMap<String, usize>) {
    for (i, n) in ns.iter().enumerate() {
        out.insert(n.rel.clone(), i);
        positions(&n.kids, out);
    }
}

/// per-directory listings: rel of the directory -> names in listing order
fn listings(ns: &[Node], rel: &str, out: &mut BTreeMap<String, Vec<String>>) {
    out.insert(rel.to_string(), ns.iter().map(|n| n.name.clone()).collect());
    for n in ns {
        if n.is_dir() {
            listings(&n.kids, &n.rel, out);
        }
    }
}

fn parent_of(rel: &str) -> &str {
    match rel.rfind('/') {
        Some(i) => &rel[..i],
        None => "",
    }
}

fn content_coverage(all_nodes: &[Vec<Node>], orc: &Oracle, cover: &mut BTreeSet<String>) {
    let every = all_pats(orc);
    let nodes0 = &all_nodes[0];
    let mut files = vec![];
    files_of(nodes0, &mut files);
    // DFS position of every file per copy
    let dfs: Vec<HashMap<String, usize>> = all_nodes
        .iter()
        .map(|ns| {
            let mut v = vec![];
            files_of(ns, &mut v);
            v.into_iter().enumerate().map(|(i, f)| (f.rel, i)).collect()
        })
        .collect();
    for (i, f) in files.iter().enumerate() {
        let depth = f.rel.matches('/').count();
        let n_with: usize = every.iter().filter(|p| !file_lines(orc, &f.name, f.content, **p).is_empty()).count();
        if n_with > 0 {
            cover.insert(format!("file-with-findings-under-{}-directories", depth));
        }
        if n_with >= 2 {
            cover.insert("file-with-findings-for-several-patterns".into());
        }
        if !eligible(&f.name) {
            cover.insert("ineligible-file-present".into());
        } else {
            for cat in 0..3u8 {
                if orc.all(cat).iter().all(|p| file_lines(orc, &f.name, f.content, *p).is_empty()) {
                    cover.insert("eligible-file-without-findings-in-a-category".into());
                }
            }
        }
        for g in &files[i + 1..] {
            if f.name != g.name && f.name.to_lowercase() == g.name.to_lowercase() {
                cover.insert(if parent_of(&f.rel) == parent_of(&g.rel) { "names-differing-only-in-letter-case:same-directory".into() } else { "names-differing-only-in-letter-case:different-directories".to_string() });
            }
            if f.name != g.name || !eligible(&f.name) {
                continue;
            }
            for p in &every {
                let (a, b) = (file_lines(orc, &f.name, f.content, *p), file_lines(orc, &g.name, g.content, *p));
                if a.is_empty() && b.is_empty() {
                    continue;
                }
                let class = if a == b {
                    "same-name-in-several-directories:equal-lines"
                } else if a.is_empty() || b.is_empty() {
                    "same-name-in-several-directories:one-without-findings-for-the-pattern"
                } else {
                    "same-name-in-several-directories:different-lines"
                };
                cover.insert(class.into());
                let rel_orders: BTreeSet<bool> = dfs.iter().filter_map(|m| Some(m.get(&f.rel)? < m.get(&g.rel)?)).collect();
                if rel_orders.len() == 2 {
                    cover.insert(format!("{}:discovered-in-both-orders", class));
                }
            }
        }
    }
    // siblings that share a pattern and are listed in both relative orders
    let pos: Vec<HashMap<String, usize>> = all_nodes
        .iter()
        .map(|ns| {
            let mut m = HashMap::new();
            positions(ns, &mut m);
            m
        })
        .collect();
    fn siblings(ns: &[Node], orc: &Oracle, every: &[Pat], pos: &[HashMap<String, usize>], cover: &mut BTreeSet<String>) {
        let ps: Vec<BTreeSet<Pat>> = ns.iter().map(|n| node_pats(n, orc, every)).collect();
        for i in 0..ns.len() {
            for j in i + 1..ns.len() {
                if ps[i].intersection(&ps[j]).next().is_none() {
                    continue;
                }
                let orders: BTreeSet<bool> = pos.iter().filter_map(|m| Some(m.get(&ns[i].rel)? < m.get(&ns[j].rel)?)).collect();
                if orders.len() == 2 {
                    let kind = match (ns[i].is_dir(), ns[j].is_dir()) {
                        (false, false) => "two-files",
                        (true, true) => "two-sub-directories",
                        _ => "file-and-sub-directory",
                    };
                    cover.insert(format!("siblings-sharing-a-pattern-listed-in-both-orders:{}", kind));
                }
            }
        }
        for n in ns {
            if n.is_dir() {
                if n.kids.is_empty() {
                    cover.insert("empty-sub-directory".into());
                }
                siblings(&n.kids, orc, every, pos, cover);
            }
        }
    }
    siblings(nodes0, orc, &every, &pos, cover);
    for ns in all_nodes {
        let mut c = BTreeSet::new();
        coverage(ns, 0, orc, &every, &mut c);
        for x in c {
            if x.ends_with("file-dir-file") || x.ends_with("dir-file-dir") {
                cover.insert(format!("interleaving:{}", x));
            }
        }
    }
}

fn render_in_new_process(dir: &str, cat: u8, order: &[Pat]) -> Result<Result<String, String>, String> {
    let exe = std::env::current_exe().map_err(|e| format!("current_exe: {}", e))?;
    let idx = order.iter().map(|p| p.1.to_string()).collect::<Vec<_>>().join(",");
    let out = std::process::Command::new(exe)
        .args(["c13-dir-render", dir, CAT_NAMES[cat as usize], &idx])
        .stdin(std::process::Stdio::null())
        .output()
        .map_err(|e| format!("cannot start a new process: {}", e))?;
    match out.status.code() {
        Some(0) => Ok(Ok(String::from_utf8_lossy(&out.stdout).to_string())),
        Some(3) => Ok(Err(String::from_utf8_lossy(&out.stderr).trim().to_string())),
        c => Err(format!("c13-dir-render ended with {:?}: {}", c, String::from_utf8_lossy(&out.stderr).trim())),
    }
}

fn run_dcase(case: &DCase, orc: &Oracle, base: &Path, cats: &[u8], new_process: bool) -> DOut {
    let mut o = DOut::default();
    let mut scratch = vec![];
    let mut all_nodes: Vec<Vec<Node>> = vec![];
    for t in &case.copies {
        let sc = ScratchAt::new(base);
        let built = (|| -> Result<Vec<Node>, String> {
            build(t, sc.path())?;
            let index: HashMap<String, Kind> = t.ents.iter().map(|e| (e.path.clone(), e.kind)).collect();
            observe(sc.path(), "", &index)
        })();
        match built {
            Ok(n) => all_nodes.push(n),
            Err(e) => {
                o.harness_error = Some(e);
                return o;
            }
        }
        scratch.push(sc);
    }
    // the copies must hold the same content (checked on disk, by the sorted set of observed paths and kinds)
    let flat = |ns: &[Node]| -> Vec<String> {
        fn rec(ns: &[Node], out: &mut Vec<String>) {
            for n in ns {
                out.push(format!("{}:{}", match n.kind { Kind::Dir => "d".to_string(), Kind::File(c) => c.code() }, n.rel));
                rec(&n.kids, out);
            }
        }
        let mut v = vec![];
        rec(ns, &mut v);
        v.sort();
        v
    };
    let f0 = flat(&all_nodes[0]);
    if all_nodes.iter().any(|ns| flat(ns) != f0) {
        o.harness_error = Some("the scratch copies do not hold the same content".into());
        return o;
    }
    let sigs: Vec<String> = all_nodes.iter().map(|ns| signature(ns)).collect();
    let lst: Vec<BTreeMap<String, Vec<String>>> = all_nodes
        .iter()
        .map(|ns| {
            let mut m = BTreeMap::new();
            listings(ns, "", &mut m);
            m
        })
        .collect();
    o.listing_differs = lst.iter().any(|l| *l != lst[0]);
    // discovery sequence of the files that have findings
    let every = all_pats(orc);
    let disc_seq: Vec<Vec<String>> = all_nodes
        .iter()
        .map(|ns| {
            let mut v = vec![];
            files_of(ns, &mut v);
            v.into_iter().filter(|f| every.iter().any(|p| !file_lines(orc, &f.name, f.content, *p).is_empty())).map(|f| f.rel).collect()
        })
        .collect();
    let discovery_differs = disc_seq.iter().any(|d| *d != disc_seq[0]);
    if o.listing_differs && discovery_differs {
        o.nontrivial = Some(case.canonical());
    }
    content_coverage(&all_nodes, orc, &mut o.cover);
    let dirs: Vec<String> = scratch.iter().map(|s| s.path_str()).collect();
    let payload = format!("@src:{}", case.ser());
    let two_listings = |c: usize| -> String {
        // the first directory the two copies list differently
        for (d, l0) in &lst[0] {
            if let Some(lc) = lst[c].get(d) {
                if lc != l0 {
                    return format!("directory {:?} is listed {:?} in copy 0 and {:?} in copy {}", if d.is_empty() { "." } else { d.as_str() }, l0, lc, c);
                }
            }
        }
        "both copies list every directory in the same order".to_string()
    };

    for &cat in cats {
        let cname = CAT_NAMES[cat as usize];
        let replay = vec!["c13-dir-case".to_string(), payload.clone(), cname.to_string()];
        let orders = pattern_orders(orc, cat, case.pseed);
        o.evals += 1;
        let push = |o: &mut DOut, key: String, what: String, expected: String, actual: String| {
            o.viol.push((Disc { key, what: format!("{}: {}", cname, what), expected, actual }, replay.clone()));
        };
        let panic_disc = |stage: &str, msg: &str, c: usize, oname: &str| -> (String, String, String, String) {
            (
                format!("c13-dir:panic:{}:{}:{}", stage, panic_kind(msg), cname),
                format!("the real code panics ({}) on copy {} (listing: {}), patterns in {}", stage, c, clip(&sigs[c], 300), oname),
                "a report".to_string(),
                format!("panic: {}", clip(msg, 300)),
            )
        };
        o.renders += 1;
        let reference = match analyse(cat, &dirs[0], &orders[0].1) {
            Ok(r) => r,
            Err((stage, msg)) => {
                let (k, w, e, a) = panic_disc(stage, &msg, 0, orders[0].0);
                push(&mut o, k, w, e, a);
                continue;
            }
        };
        let ref_norm = reference.normalised();
        // 1. the same call again (fresh HashMaps, fresh hasher keys)
        let mut stable = true;
        for _ in 0..2 {
            o.renders += 1;
            match analyse(cat, &dirs[0], &orders[0].1) {
                Ok(r) => {
                    if r.text != reference.text {
                        stable = false;
                        let (n, x, y) = first_diff(&reference.text, &r.text);
                        push(
                            &mut o,
                            format!("c13-dir:report-differs-between-two-runs:{}", cname),
                            format!("two runs in one process over the SAME scratch directory (listing: {}), same pattern order, give different reports; first differing line {}: {} / {}", clip(&sigs[0], 300), n, x, y),
                            x,
                            y,
                        );
                        break;
                    }
                }
                Err((stage, msg)) => {
                    stable = false;
                    let (k, w, e, a) = panic_disc(stage, &msg, 0, orders[0].0);
                    push(&mut o, k, w, e, a);
                    break;
                }
            }
        }
        if !stable {
            // differences between copies could not be attributed to the listing order
            continue;
        }
        // 2. every copy x every pattern order
        let mut differs = vec![vec![false; orders.len()]; dirs.len()];
        for c in 0..dirs.len() {
            for (oi, (oname, order)) in orders.iter().enumerate() {
                if c == 0 && oi == 0 {
                    continue;
                }
                o.renders += 1;
                let r = match analyse(cat, &dirs[c], order) {
                    Ok(r) => r,
                    Err((stage, msg)) => {
                        let (k, w, e, a) = panic_disc(stage, &msg, c, oname);
                        push(&mut o, k, w, e, a);
                        differs[c][oi] = true;
                        continue;
                    }
                };
                if oi == 0 && r.raw != reference.raw && r.normalised() == ref_norm {
                    o.result_order_differs = true;
                }
                if r.text == reference.text {
                    continue;
                }
                differs[c][oi] = true;
                let (n, x, y) = first_diff(&reference.text, &r.text);
                let norm = r.normalised();
                let same_findings = norm == ref_norm;
                let fnote = if same_findings {
                    "analyze_dir returned the same findings (as sets) for both, only the rendering differs".to_string()
                } else {
                    format!("analyze_dir itself returned different findings: [{}] versus [{}]", fmt_findings(&ref_norm), fmt_findings(&norm))
                };
                let sub = if same_findings { "" } else { "findings-differ:" };
                let same_listing = lst[c] == lst[0];
                let (key, what) = if c == 0 {
                    (
                        format!("c13-dir:report-depends-on-pattern-order:{}{}", sub, cname),
                        format!("same scratch directory (listing: {}), patterns configured in {} instead of declaration order", clip(&sigs[0], 300), oname),
                    )
                } else if oi == 0 && same_listing {
                    (
                        format!("c13-dir:report-differs-between-two-runs:{}{}", sub, cname),
                        format!("copy {} holds the same content, is listed in the same order ({}) and was analysed with the same pattern order, yet the report differs", c, clip(&sigs[0], 300)),
                    )
                } else if oi == 0 {
                    (
                        format!("c13-dir:report-depends-on-listing-order:{}{}", sub, cname),
                        format!("the same content created in another order: {}; listing of copy 0: {} ; listing of copy {}: {}", two_listings(c), clip(&sigs[0], 300), c, clip(&sigs[c], 300)),
                    )
                } else if differs[c][0] || differs[0][oi] {
                    // already reported through the single change
                    continue;
                } else {
                    (
                        format!("c13-dir:report-depends-on-listing-and-pattern-order:{}{}", sub, cname),
                        format!("copy {} ({}) with the patterns in {} differs, although each change alone does not change the report; listing of copy 0: {} ; listing of copy {}: {}", c, two_listings(c), oname, clip(&sigs[0], 300), c, clip(&sigs[c], 300)),
                    )
                };
                push(&mut o, key, format!("{}; first differing line {}: {} (copy 0, declaration order) / {} ; {}", what, n, x, y, fnote), x, y);
            }
        }
        // 3. a new process
        if new_process {
            match render_in_new_process(&dirs[0], cat, &orders[0].1) {
                Ok(Ok(text)) => {
                    o.child_runs += 1;
                    o.renders += 1;
                    if text != reference.text {
                        let (n, x, y) = first_diff(&reference.text, &text);
                        push(
                            &mut o,
                            format!("c13-dir:report-depends-on-process:{}", cname),
                            format!("a new process analysing the SAME scratch directory (listing: {}) with the same pattern order prints another report; first differing line {}: {} / {}", clip(&sigs[0], 300), n, x, y),
                            x,
                            y,
                        );
                    }
                }
                Ok(Err(msg)) => {
                    o.child_runs += 1;
                    push(
                        &mut o,
                        format!("c13-dir:panic:new-process:{}:{}", panic_kind(&msg), cname),
                        format!("the real code panics in a new process on a scratch directory it handles in this process (listing: {})", clip(&sigs[0], 300)),
                        "a report".into(),
                        format!("panic: {}", clip(&msg, 300)),
                    );
                }
                Err(e) => o.notes.push(clip(&e, 160)),
            }
        }
    }
    o.sample = Some(J::obj(vec![
        ("content", J::s(case.canonical())),
        ("origin", J::s(case.origin)),
        ("listings_observed", J::arr_s(sigs.iter().cloned())),
        ("some_directory_listed_differently", J::Bool(o.listing_differs)),
        ("files_with_findings_discovered_in_different_orders", J::Bool(discovery_differs)),
        ("features", J::arr_s(o.cover.iter().cloned())),
    ]));
    o
}

// ------------------------------------------------------------------------------------------------
// generator
// ------------------------------------------------------------------------------------------------

/// few names, so that the same name comes back in other directories; several differ only in letter case
const C13_FILES: [&str; 10] = ["a.sol", "A.sol", "b.sol", "Token.sol", "token.sol", "TOKEN.sol", "k.sol", "z9.sol", "my token.sol", "\u{5408}\u{7ea6}.sol"];
const C13_INELIGIBLE: [&str; 4] = ["a.t.sol", "README.md", "A.SOL", "notes.txt"];
const C13_DIRS: [&str; 8] = ["lib", "Lib", "src", "x", "y", "d.sol", "sub dir", "n0"];

fn label_c13(shape: &[Sh], prefix: &str, rng: &mut Rng, placed: &mut Vec<(String, usize)>, out: &mut Vec<Ent>) {
    let mut used: Vec<String> = vec![];
    for s in shape {
        match s {
            Sh::F => {
                let inel = rng.below(7) == 0;
                let elsewhere: Vec<(String, usize)> = placed.iter().filter(|(n, _)| !used.contains(n)).cloned().collect();
                let (name, src) = if inel {
                    let free: Vec<&&str> = C13_INELIGIBLE.iter().filter(|n| !used.contains(&n.to_string())).collect();
                    if free.is_empty() {
                        continue;
                    }
                    (rng.pick(&free).to_string(), rng.below(SOURCES.len()))
                } else if !elsewhere.is_empty() && rng.below(2) == 0 {
                    // a name that exists in another directory: same source (equal lines) or another one
                    let (n, k) = rng.pick(&elsewhere).clone();
                    let src = if rng.below(2) == 0 { k } else { (k + 1 + rng.below(SOURCES.len() - 1)) % SOURCES.len() };
                    (n, src)
                } else {
                    let free: Vec<&&str> = C13_FILES.iter().filter(|n| !used.contains(&n.to_string())).collect();
                    if free.is_empty() {
                        continue;
                    }
                    // mostly from the front of the list: collisions and letter-case neighbours are wanted
                    let w = if rng.below(3) == 0 { free.len() } else { free.len().min(5) };
                    (free[rng.below(w)].to_string(), rng.below(SOURCES.len()))
                };
                used.push(name.clone());
                if !inel {
                    placed.push((name.clone(), src));
                }
                out.push(Ent { path: format!("{}{}", prefix, name), kind: Kind::File(Content::Src(src)) });
            }
            Sh::D(inner) => {
                let free: Vec<&&str> = C13_DIRS.iter().filter(|n| !used.contains(&n.to_string())).collect();
                if free.is_empty() {
                    continue;
                }
                let w = if rng.below(3) == 0 { free.len() } else { free.len().min(4) };
                let name = free[rng.below(w)].to_string();
                used.push(name.clone());
                let path = format!("{}{}", prefix, name);
                out.push(Ent { path: path.clone(), kind: Kind::Dir });
                label_c13(inner, &format!("{}/", path), rng, placed, out);
            }
        }
    }
}

/// random forest with about `budget` entries, directories nest `dl` more levels
fn random_forest(rng: &mut Rng, budget: &mut usize, dl: usize, width: usize) -> Vec<Sh> {
    let mut v = vec![];
    let n = 1 + rng.below(width);
    for _ in 0..n {
        if *budget == 0 {
            break;
        }
        *budget -= 1;
        if dl > 0 && rng.below(5) < 2 {
            v.push(Sh::D(random_forest(rng, budget, dl - 1, width)));
        } else {
            v.push(Sh::F);
        }
    }
    v
}

fn n_copies(tier: &str) -> usize {
    if tier == "thorough" {
        6
    } else {
        4
    }
}

/// creation orders of one content: path order, reversed, rotated by half, then seeded shuffles
fn copies_of(content: &Tree, k: usize, rng: &mut Rng) -> Vec<Tree> {
    let mut base = content.clone();
    base.ents.sort_by(|a, b| a.path.cmp(&b.path));
    let mut out = vec![base.clone()];
    let mut r = base.clone();
    r.ents.reverse();
    out.push(r);
    let mut rot = base.clone();
    let half = rot.ents.len() / 2;
    rot.ents.rotate_left(half);
    out.push(rot);
    while out.len() < k {
        let mut s = base.clone();
        rng.shuffle(&mut s.ents);
        out.push(s);
    }
    out.truncate(k.max(3));
    out
}

const HAND_WRITTEN: [&[(&str, &str)]; 16] = [
    // the same name in two directories: different lines for the shared patterns / equal lines
    &[("s0", "x/a.sol"), ("s3", "y/a.sol")],
    &[("s0", "x/a.sol"), ("s0", "y/a.sol")],
    &[("s1", "x/a.sol"), ("s3", "y/a.sol"), ("s5", "z/a.sol")],
    &[("s0", "a.sol"), ("s2", "lib/a.sol"), ("s3", "lib/sub/a.sol"), ("s2", "lib/sub/deep/a.sol")],
    &[("s3", "a.sol"), ("s0", "lib/a.sol"), ("s0", "src/a.sol"), ("s3", "src/lib/a.sol")],
    // names that differ only in letter case, in one directory and across directories
    &[("s0", "a.sol"), ("s3", "A.sol")],
    &[("s0", "a.sol"), ("s3", "A.sol"), ("s2", "lib/a.sol"), ("s0", "lib/A.sol"), ("s3", "Lib/a.sol")],
    &[("s1", "Token.sol"), ("s3", "token.sol"), ("s5", "TOKEN.sol"), ("s3", "x/Token.sol"), ("s1", "x/token.sol")],
    // files and sub-directories interleaved, at the top and inside a sub-directory
    &[("s0", "a.sol"), ("s2", "lib/b.sol"), ("s3", "k.sol"), ("s5", "src/b.sol"), ("s1", "z9.sol")],
    &[("s1", "lib/a.sol"), ("s3", "lib/x/a.sol"), ("s5", "lib/b.sol"), ("s3", "lib/y/a.sol"), ("s1", "lib/k.sol"), ("s2", "k.sol")],
    &[("s2", "a.sol"), ("s2", "x/a.sol"), ("s0", "x/y/a.sol"), ("s3", "x/y/n0/a.sol"), ("s3", "b.sol"), ("s0", "x/b.sol"), ("s2", "x/y/b.sol")],
    // files without findings (clean for a category, ineligible names, an empty directory)
    &[("s4", "a.sol"), ("s4", "lib/a.sol"), ("s0", "lib/b.sol"), ("s3", "b.sol")],
    &[("s0", "a.sol"), ("s3", "a.t.sol"), ("s2", "README.md"), ("s3", "lib/a.sol"), ("s0", "lib/A.SOL"), ("d", "empty")],
    &[("s4", "a.sol"), ("s4", "b.sol"), ("s4", "lib/a.sol")],
    // one pattern (QA, vulnerability) found at the top and in two nested directories
    &[("s5", "a.sol"), ("s1", "x/a.sol"), ("s3", "x/y/a.sol"), ("s5", "x/y/b.sol"), ("s1", "b.sol")],
    &[("s2", "a.sol"), ("s2", "x/b.sol"), ("s2", "y/a.sol"), ("s5", "y/z/a.sol"), ("s5", "k.sol")],
];

fn generate_c13(tier: &str, seed: u64) -> (Vec<DCase>, usize, usize, usize) {
    let mut rng = Rng::new(seed ^ 0x0c13_d1d1);
    let thorough = tier == "thorough";
    let mut contents: Vec<(Tree, &'static str)> = vec![];
    for spec in HAND_WRITTEN.iter() {
        contents.push((t(spec), "hand-written"));
    }
    let n = if thorough { 7 } else { 5 };
    let labellings = if thorough { 3 } else { 2 };
    let mut memo = HashMap::new();
    let mut shapes = 0usize;
    for k in 2..=n {
        for shape in forests(k, 3, &mut memo) {
            shapes += 1;
            for _ in 0..labellings {
                let mut ents = vec![];
                label_c13(&shape, "", &mut rng, &mut vec![], &mut ents);
                if ents.len() >= 2 {
                    contents.push((Tree { ents }, "enumerated-shape"));
                }
            }
        }
    }
    let (n_random, max_budget) = if thorough { (1500, 24) } else { (120, 14) };
    for i in 0..n_random {
        let mut budget = 6 + i * (max_budget - 5) / n_random;
        let shape = random_forest(&mut rng, &mut budget, 3, 4);
        let mut ents = vec![];
        label_c13(&shape, "", &mut rng, &mut vec![], &mut ents);
        if ents.len() >= 3 {
            contents.push((Tree { ents }, "random-larger-tree"));
        }
    }
    // distinct contents, small to large
    let mut seen = BTreeSet::new();
    contents.retain(|(t, _)| seen.insert(t.canonical()));
    contents.sort_by_key(|(t, _)| t.ents.len());
    let k = n_copies(tier);
    let cases = contents
        .into_iter()
        .map(|(tree, origin)| {
            let copies = copies_of(&tree, k, &mut rng);
            DCase { copies, pseed: rng.next() % 1_000_000, origin }
        })
        .collect();
    (cases, shapes, n, max_budget)
}

fn par_map16<C: Sync, T: Send>(cases: &[C], f: impl Fn(usize, &C) -> T + Sync) -> Vec<T> {
    let n = cases.len();
    let next = AtomicUsize::new(0);
    let out: Mutex<Vec<Option<T>>> = Mutex::new((0..n).map(|_| None).collect());
    let threads = std::thread::available_parallelism().map(|x| x.get()).unwrap_or(2).clamp(1, 16);
    std::thread::scope(|s| {
        for _ in 0..threads {
            s.spawn(|| loop {
                let i = next.fetch_add(1, Ordering::SeqCst);
                if i >= n {
                    break;
                }
                let v = f(i, &cases[i]);
                out.lock().unwrap()[i] = Some(v);
            });
        }
    });
    out.into_inner().unwrap().into_iter().map(|x| x.expect("case not executed")).collect()
}

const REQUIRED_FEATURES: [&str; 8] = [
    "same-name-in-several-directories:different-lines:discovered-in-both-orders",
    "same-name-in-several-directories:equal-lines:discovered-in-both-orders",
    "names-differing-only-in-letter-case:same-directory",
    "names-differing-only-in-letter-case:different-directories",
    "siblings-sharing-a-pattern-listed-in-both-orders:file-and-sub-directory",
    "siblings-sharing-a-pattern-listed-in-both-orders:two-files",
    "file-with-findings-under-3-directories",
    "eligible-file-without-findings-in-a-category",
];

pub fn run_c13_dir(tier: &str, seed: u64) -> CheckResult {
    let mut r = CheckResult::new("c13-dir");
    let prev_hook = panic::take_hook();
    install_hook();
    let orc = Oracle::build();
    let (base, order_matters, tried) = pick_base();
    let (cases, shapes, n, max_budget) = generate_c13(tier, seed);
    let every_nth_in_new_process = if tier == "thorough" { 10 } else { 25 };
    let outs = par_map16(&cases, |i, c| run_dcase(c, &orc, &base, &[0, 1, 2], i % every_nth_in_new_process == 0 || c.origin == "hand-written"));
    panic::set_hook(prev_hook);

    let mut cover: BTreeMap<String, i64> = BTreeMap::new();
    let (mut renders, mut child_runs, mut listing_differs, mut result_order_differs) = (0i64, 0i64, 0i64, 0i64);
    let mut notes: BTreeMap<String, i64> = BTreeMap::new();
    let mut sampled: Vec<&str> = vec![];
    let mut max_entries = 0usize;
    for (case, o) in cases.iter().zip(outs.into_iter()) {
        if let Some(e) = o.harness_error {
            r.violate("harness:c13-dir-scratch-io", &format!("cannot build or list a scratch tree: {}", e), vec!["c13-dir-case".into(), format!("@src:{}", case.ser())], String::new(), String::new());
            continue;
        }
        max_entries = max_entries.max(case.copies[0].ents.len());
        r.evaluations += o.evals;
        renders += o.renders as i64;
        child_runs += o.child_runs as i64;
        listing_differs += o.listing_differs as i64;
        result_order_differs += o.result_order_differs as i64;
        let nontrivial = o.nontrivial.is_some();
        if let Some(id) = o.nontrivial {
            r.nontrivial.insert(id);
        }
        for c in &o.cover {
            *cover.entry(c.clone()).or_insert(0) += 1;
        }
        for m in o.notes {
            *notes.entry(m).or_insert(0) += 1;
        }
        for (d, replay) in o.viol {
            r.violate(&d.key, &d.what, replay, d.expected, d.actual);
        }
        if let Some(s) = o.sample {
            let interesting = nontrivial && case.copies[0].ents.len() >= 4 && case.copies[0].ents.iter().any(|e| e.path.contains('/'));
            if interesting && sampled.iter().filter(|x| **x == case.origin).count() < 2 {
                sampled.push(case.origin);
                r.sample(s);
            }
        }
    }
    let missing: Vec<String> = REQUIRED_FEATURES.iter().filter(|f| !cover.contains_key(**f)).map(|f| f.to_string()).collect();
    if !order_matters {
        r.violate(
            "harness:c13-dir-listing-order-not-variable",
            &format!("no scratch location was found on which the creation order of the entries changes the fs::read_dir listing: every copy is listed alike and the check covers nothing beyond repeated runs and pattern orders; tried: {}", tried.join("; ")),
            vec!["c13-dir".into()],
            "a file system whose listing order depends on the creation order (tmpfs), e.g. via VXN_C13_SCRATCH".into(),
            "none".into(),
        );
    } else {
        for m in &missing {
            r.violate(
                &format!("harness:c13-dir-feature-not-observed:{}", m),
                "the generator never produced / fs::read_dir never showed this situation: the bounded check does not cover it",
                vec!["c13-dir".into()],
                "observed in at least one content".into(),
                "not observed".into(),
            );
        }
    }
    r.rule = "a case is one (directory content, category): the content is built in several scratch directories that differ only in the creation order of the entries, the real analyze_dir + generate_*_report run on every copy with the patterns in declaration order and in permuted orders (plus twice more on copy 0, plus in a new process for a subset), and all texts must be byte-identical. distinct_nontrivial counts distinct contents for which fs::read_dir REALLY listed some directory differently in at least two copies (observed on the built copies) AND the files that have findings were therefore discovered in a different sequence; contents whose copies are all listed alike only exercise repeated runs and pattern orders and are not counted".into();
    r.bound = format!(
        "directory contents with <= {} entries (files + directories), <= 3 levels of sub-directories: {} hand-written contents; every ordered shape with 2..{} entries ({} shapes) x {} labellings from a small name pool ({} eligible names incl. letter-case variants, {} ineligible names, {} directory names incl. a letter-case pair; a name already used in another directory is reused with probability 1/2, then with the same or with another source); {} seeded random larger shapes (budget up to {} entries); file contents from {} fixed sources; {} creation orders per content (path order, reversed, rotated by half, seeded shuffles); per category up to 3 pattern orders (declaration, reversed, seeded shuffle when it differs from both) x every copy, 2 repetitions on copy 0, a new process for every {}th content and all hand-written ones; all three categories; seed {}",
        max_entries,
        HAND_WRITTEN.len(),
        n,
        shapes,
        if tier == "thorough" { 3 } else { 2 },
        C13_FILES.len(),
        C13_INELIGIBLE.len(),
        C13_DIRS.len(),
        if tier == "thorough" { 1500 } else { 120 },
        max_budget,
        SOURCES.len(),
        n_copies(tier),
        every_nth_in_new_process,
        seed
    );
    r.exhaustive = false;
    r.extra.push(("contents".into(), J::Num(cases.len() as i64)));
    r.extra.push(("contents_with_some_directory_listed_differently".into(), J::Num(listing_differs)));
    r.extra.push(("contents_where_analyze_dir_returned_the_same_findings_in_another_vec_order".into(), J::Num(result_order_differs)));
    r.extra.push(("reports_rendered".into(), J::Num(renders)));
    r.extra.push(("renderings_in_a_new_process".into(), J::Num(child_runs)));
    r.extra.push(("scratch_base".into(), J::s(base.display().to_string())));
    r.extra.push(("scratch_base_probe".into(), J::arr_s(tried)));
    r.extra.push(("listing_order_depends_on_creation_order".into(), J::Bool(order_matters)));
    r.extra.push(("observed_through".into(), J::s("fs::read_dir on every directory of every built copy")));
    r.extra.push(("features_observed".into(), J::Obj(cover.iter().map(|(k, v)| (k.clone(), J::Num(*v))).collect())));
    r.extra.push(("features_required_not_observed".into(), J::arr_s(missing)));
    r.extra.push(("source_findings".into(), orc.describe_sources()));
    r.extra.push(("patterns_never_selected_because_a_fixed_source_makes_them_panic".into(), J::arr_s(orc.excluded.iter().map(|p| pat_name(*p)))));
    r.extra.push(("notes".into(), J::Obj(notes.into_iter().map(|(k, v)| (k, J::Num(v))).collect())));
    r.assumptions.push("BOUNDED check: only the generated contents, creation orders and pattern orders are covered; nothing here is a proof".into());
    r.assumptions.push("the listing order can only be varied through the creation order on the scratch file system (tmpfs lists in reverse creation order, ext4 in hash order whatever the creation order); the orders compared are the ones observed, other orders a file system could produce are not covered".into());
    r.assumptions.push("per-process randomness is sampled, not controlled: every analyze_dir / generate_*_report call builds fresh HashMaps with fresh hasher keys, and a subset of the contents is rendered once more in a new process".into());
    r.assumptions.push("eligible files hold one of the fixed parseable sources (pragma line, no free function); ineligible files hold valid sources too; file names are valid Unicode; no symbolic links".into());
    r.assumptions.push("whether the findings themselves are right is C03's business: here only their independence of discovery order, pattern order and process is checked".into());
    r
}

fn replay_c13(payload: &str, cat: Option<&str>) -> Result<(bool, String), String> {
    let prev_hook = panic::take_hook();
    install_hook();
    let orc = Oracle::build();
    let res = (|| -> Result<(bool, String), String> {
        let case = DCase::parse(payload)?;
        let cats: Vec<u8> = match cat {
            Some(c) => vec![CAT_NAMES.iter().position(|n| *n == c).ok_or_else(|| format!("unknown category {:?}", c))? as u8],
            None => vec![0, 1, 2],
        };
        let (base, order_matters, tried) = pick_base();
        let o = run_dcase(&case, &orc, &base, &cats, true);
        if let Some(e) = o.harness_error {
            return Err(e);
        }
        let mut msg = vec![];
        if !order_matters {
            msg.push(format!("note: the creation order does not change the listing on any scratch location ({})", tried.join("; ")));
        }
        if let Some(s) = &o.sample {
            msg.push(s.render());
        }
        for n in &o.notes {
            msg.push(format!("note: {}", n));
        }
        for (d, _) in &o.viol {
            msg.push(format!("VIOLATED {}: {}\n  expected: {}\n  actual:   {}", d.key, d.what, d.expected, d.actual));
        }
        if o.viol.is_empty() {
            msg.push(format!("contract holds ({} (content, category) comparisons, {} reports rendered, all byte-identical per category)", o.evals, o.renders));
        }
        Ok((o.viol.is_empty(), msg.join("\n")))
    })();
    panic::set_hook(prev_hook);
    res
}

/// `vxn c13-dir-render <dir> <category> <i,j,..>`: one real analyze_dir + generate_*_report in this (new) process
fn render_cmd(rest: &[String]) -> i32 {
    if rest.len() < 3 {
        eprintln!("usage: vxn c13-dir-render <dir> <category> <pattern indices, comma separated>");
        return 2;
    }
    let cat = match CAT_NAMES.iter().position(|n| *n == rest[1]) {
        Some(c) => c as u8,
        None => {
            eprintln!("unknown category {:?}", rest[1]);
            return 2;
        }
    };
    let mut order = vec![];
    for x in rest[2].split(',').filter(|x| !x.is_empty()) {
        match x.parse::<u8>() {
            Ok(i) if (i as usize) < n_pats(cat) => order.push(Pat(cat, i)),
            _ => {
                eprintln!("bad pattern index {:?}", x);
                return 2;
            }
        }
    }
    let prev_hook = panic::take_hook();
    install_hook();
    let res = analyse(cat, &rest[0], &order);
    panic::set_hook(prev_hook);
    match res {
        Ok(r) => {
            print!("{}", r.text);
            0
        }
        Err((stage, msg)) => {
            eprintln!("{}: {}", stage, msg);
            3
        }
    }
}

pub fn dispatch(cmd: &str, rest: &[String], tier: &str, seed: u64) -> Option<i32> {
    match cmd {
        "c13-dir" => {
            println!("{}", run_c13_dir(tier, seed).to_json().render());
            Some(0)
        }
        "c13-dir-case" => {
            if rest.is_empty() {
                eprintln!("usage: vxn c13-dir-case @src:pseed=<n>#<tree in creation order 1>#<tree in creation order 2>#.. [<category>]");
                return Some(2);
            }
            match replay_c13(&crate::arg_or_file(&rest[0]), rest.get(1).map(|s| s.as_str())) {
                Ok((ok, msg)) => {
                    println!("{}", msg);
                    Some(if ok { 0 } else { 1 })
                }
                Err(e) => {
                    eprintln!("cannot replay: {}", e);
                    Some(2)
                }
            }
        }
        "c13-dir-render" => Some(render_cmd(rest)),
        _ => None,
    }
}
