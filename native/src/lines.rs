//! C02, C17, C15: line numbers, layout invariance, independence
use crate::report::CheckResult;

/// Returns Some(exit code) when `cmd` belongs to this module.
pub fn dispatch(cmd: &str, rest: &[String], tier: &str, seed: u64) -> Option<i32> {
    let _ = (rest, tier, seed);
    match cmd {
        "c02" => {
            println!("{}", todo("c02").to_json().render());
            Some(0)
        }
        "c17" => {
            println!("{}", todo("c17").to_json().render());
            Some(0)
        }
        "c15" => {
            println!("{}", todo("c15").to_json().render());
            Some(0)
        }
        _ => None,
    }
}

#[allow(dead_code)]
fn todo(name: &str) -> CheckResult {
    let mut r = CheckResult::new(name);
    r.violate("harness:not-implemented", "check not implemented yet", vec![name.to_string()], String::new(), String::new());
    r
}
