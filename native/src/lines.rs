//! C02, C17, C15: line numbers, layout invariance, independence (bounded executable contracts).
//!
//! C02  (a) `utils::get_line_number(off, s) == 1 + |{ i < off : s[i] == '\n' }|` for every admissible (s, off);
//!      (b) `analyze_for_*(src, _, p) == { 1 + #'\n' before loc.start : loc in detector_p(parse(src)) }`.
//! C17  the tokens that start flagged constructs are the same on every token-preserving re-layout of a
//!      file, the reported lines are exactly the lines of those tokens, and text inside comments or string
//!      literals never produces a finding of its own.
//! C15  the lines reported for (file content, pattern) do not depend on call history (other patterns on the same
//!      file, other files analysed before it), repetition, `file_number`, a fresh process, or concurrent callers.
//!
//! The tokenizer is solang's own lexer (`solang_parser::lexer::Lexer`, the one `parse` uses), so "token" means
//! exactly what the code under test sees; every re-layout is re-lexed and must give the same token sequence
//! (harness self-check) before it is used.
use crate::gen::{self, Prog};
use crate::json::J;
use crate::report::{CheckResult, Rng};
use solang_parser::lexer::Lexer;
use solang_parser::pt::{Loc, SourceUnit};
use solstat::analyzer::optimizations as opt;
use solstat::analyzer::qa;
use solstat::analyzer::utils;
use solstat::analyzer::vulnerabilities as vul;
use std::collections::{BTreeSet, HashSet};
use std::panic::{catch_unwind, AssertUnwindSafe};
use std::sync::atomic::{AtomicUsize, Ordering};
use std::sync::{Barrier, Mutex, Once};

// ------------------------------------------------------------------------------------------------
// the 30 detectors
// ------------------------------------------------------------------------------------------------

#[derive(Clone, Copy)]
enum Pat {
    O(opt::Optimization),
    V(vul::Vulnerability),
    Q(qa::QualityAssurance),
}

#[derive(Clone, Copy)]
struct Det {
    name: &'static str,
    pat: Pat,
    f: fn(SourceUnit) -> HashSet<Loc>,
}

fn detectors() -> Vec<Det> {
    fn o(name: &'static str, f: fn(SourceUnit) -> HashSet<Loc>) -> Det {
        Det { name, pat: Pat::O(opt::str_to_optimization(name)), f }
    }
    fn v(name: &'static str, f: fn(SourceUnit) -> HashSet<Loc>) -> Det {
        Det { name, pat: Pat::V(vul::str_to_vulnerability(name)), f }
    }
    fn q(name: &'static str, f: fn(SourceUnit) -> HashSet<Loc>) -> Det {
        Det { name, pat: Pat::Q(qa::str_to_qa(name)), f }
    }
    vec![
        o("address_balance", opt::address_balance::address_balance_optimization),
        o("address_zero", opt::address_zero::address_zero_optimization),
        o("assign_update_array_value", opt::assign_update_array_value::assign_update_array_optimization),
        o("bool_equals_bool", opt::bool_equals_bool::bool_equals_bool_optimization),
        o("cache_array_length", opt::cache_array_length::cache_array_length_optimization),
        o("constant_variables", opt::constant_variables::constant_variable_optimization),
        o("immutable_variables", opt::immutable_variables::immutable_variables_optimization),
        o("increment_decrement", opt::increment_decrement::increment_decrement_optimization),
        o("memory_to_calldata", opt::memory_to_calldata::memory_to_calldata_optimization),
        o("multiple_require", opt::multiple_require::multiple_require_optimization),
        o("optimal_comparison", opt::optimal_comparison::optimal_comparison_optimization),
        o("pack_storage_variables", opt::pack_storage_variables::pack_storage_variables_optimization),
        o("pack_struct_variables", opt::pack_struct_variables::pack_struct_variables_optimization),
        o("payable_function", opt::payable_function::payable_function_optimization),
        o("private_constant", opt::private_constant::private_constant_optimization),
        o("safe_math_pre_080", opt::safe_math::safe_math_pre_080_optimization),
        o("safe_math_post_080", opt::safe_math::safe_math_post_080_optimization),
        o("shift_math", opt::shift_math::shift_math_optimization),
        o("short_revert_string", opt::short_revert_string::short_revert_string_optimization),
        o("solidity_keccak256", opt::solidity_keccak256::solidity_keccak256_optimization),
        o("solidity_math", opt::solidity_math::solidity_math_optimization),
        o("sstore", opt::sstore::sstore_optimization),
        o("string_errors", opt::string_errors::string_error_optimization),
        v("divide_before_multiply", vul::divide_before_multiply::divide_before_multiply_vulnerability),
        v("floating_pragma", vul::floating_pragma::floating_pragma_vulnerability),
        v("unprotected_selfdestruct", vul::unprotected_selfdestruct::unprotected_selfdestruct_vulnerability),
        v("unsafe_erc20_operation", vul::unsafe_erc20_operation::unsafe_erc20_operation_vulnerability),
        q("constructor_order", qa::constructor_order::constructor_order_qa),
        q("private_func_leading_underscore", qa::private_func_leading_underscore::private_func_leading_underscore),
        q("private_vars_leading_underscore", qa::private_vars_leading_underscore::private_vars_leading_underscore),
    ]
}

fn det_by_name(dets: &[Det], name: &str) -> Option<usize> {
    dets.iter().position(|d| d.name == name)
}

static SILENCE: Once = Once::new();
/// panics of the code under test are caught and handled; keep them off stderr
fn silence() {
    SILENCE.call_once(|| std::panic::set_hook(Box::new(|_| {})));
}

fn panic_msg(e: Box<dyn std::any::Any + Send>) -> String {
    if let Some(s) = e.downcast_ref::<&str>() {
        s.to_string()
    } else if let Some(s) = e.downcast_ref::<String>() {
        s.clone()
    } else {
        "panic".to_string()
    }
}

type Lines = Result<BTreeSet<i32>, String>;

/// the real per-file entry point for one pattern
fn analyze(d: &Det, src: &str, file_no: usize) -> Lines {
    let pat = d.pat;
    catch_unwind(AssertUnwindSafe(|| match pat {
        Pat::O(o) => opt::analyze_for_optimization(src, file_no, o),
        Pat::V(v) => vul::analyze_for_vulnerability(src, file_no, v),
        Pat::Q(q) => qa::analyze_for_qa(src, file_no, q),
    }))
    .map_err(panic_msg)
}

/// the detector function called directly on a parse tree
fn locations(d: &Det, su: SourceUnit) -> Result<HashSet<Loc>, String> {
    let f = d.f;
    catch_unwind(AssertUnwindSafe(|| f(su))).map_err(panic_msg)
}

fn fmt_lines(l: &Lines) -> String {
    match l {
        Ok(s) => format!("{:?}", s),
        Err(m) => format!("PANIC({})", m),
    }
}

/// the specification of a line number: one plus the number of line feeds strictly before `off`
fn spec_line(off: usize, s: &str) -> i32 {
    1 + s.as_bytes()[..off.min(s.len())].iter().filter(|b| **b == b'\n').count() as i32
}

// ------------------------------------------------------------------------------------------------
// small parallel map (deterministic result order)
// ------------------------------------------------------------------------------------------------

fn workers() -> usize {
    std::thread::available_parallelism().map(|n| n.get()).unwrap_or(4).clamp(1, 8)
}

fn par_map<T: Sync, R: Send, F: Fn(usize, &T) -> R + Sync>(items: &[T], f: F) -> Vec<R> {
    let n = items.len();
    let next = AtomicUsize::new(0);
    let results: Mutex<Vec<(usize, R)>> = Mutex::new(Vec::with_capacity(n));
    std::thread::scope(|s| {
        for _ in 0..workers().min(n.max(1)) {
            let _ = std::thread::Builder::new().stack_size(32 << 20).spawn_scoped(s, || loop {
                let i = next.fetch_add(1, Ordering::Relaxed);
                if i >= n {
                    break;
                }
                let r = f(i, &items[i]);
                results.lock().unwrap().push((i, r));
            });
        }
    });
    let mut v = results.into_inner().unwrap();
    v.sort_by_key(|(i, _)| *i);
    v.into_iter().map(|(_, r)| r).collect()
}

struct Viol {
    key: String,
    what: String,
    replay: Vec<String>,
    expected: String,
    actual: String,
}

/// a per-detector mismatch; collapsed by `collapse` when one root cause hits many detectors on one program
struct Mis {
    /// key prefix, e.g. "c15:threads-differ"
    group: String,
    /// key suffix after the detector name, e.g. ":single-line" (may be empty)
    suffix: String,
    det: &'static str,
    /// program order (small programs first) and tag
    order: usize,
    prog: String,
    what: String,
    replay: Vec<String>,
    expected: String,
    actual: String,
}

/// key = `<group>:<detector><suffix>`; when more than 3 detectors differ on the same program for the same
/// (group, suffix) ONE violation `<group>:many-detectors<suffix>` is emitted (witness: the first such program) and
/// the detectors it covers (over all programs) get no key of their own.
fn collapse(r: &mut CheckResult, mut mis: Vec<Mis>) {
    use std::collections::BTreeMap;
    mis.sort_by_key(|m| m.order);
    let mut buckets: BTreeMap<(String, String, usize), Vec<&'static str>> = BTreeMap::new();
    for m in &mis {
        let e = buckets.entry((m.group.clone(), m.suffix.clone(), m.order)).or_default();
        if !e.contains(&m.det) {
            e.push(m.det);
        }
    }
    let mut covered: BTreeMap<(String, String), BTreeSet<&'static str>> = BTreeMap::new();
    let mut witness: BTreeMap<(String, String), usize> = BTreeMap::new();
    for ((g, sfx, o), dets) in &buckets {
        if dets.len() > 3 {
            covered.entry((g.clone(), sfx.clone())).or_default().extend(dets.iter().cloned());
            witness.entry((g.clone(), sfx.clone())).or_insert(*o);
        }
    }
    for m in &mis {
        let gs = (m.group.clone(), m.suffix.clone());
        if let Some(w) = witness.get(&gs) {
            if covered[&gs].contains(m.det) {
                if m.order == *w {
                    let here = &buckets[&(m.group.clone(), m.suffix.clone(), *w)];
                    let all: Vec<&str> = covered[&gs].iter().cloned().collect();
                    r.violate(
                        &format!("{}:many-detectors{}", m.group, m.suffix),
                        &format!(
                            "{} detectors differ on program {}: {}; {} detectors over all programs: {}; first mismatch: {}",
                            here.len(),
                            m.prog,
                            here.join(", "),
                            all.len(),
                            all.join(", "),
                            m.what
                        ),
                        m.replay.clone(),
                        m.expected.clone(),
                        m.actual.clone(),
                    );
                }
                continue;
            }
        }
        r.violate(&format!("{}:{}{}", m.group, m.det, m.suffix), &m.what, m.replay.clone(), m.expected.clone(), m.actual.clone());
    }
}

#[derive(Default)]
struct Part {
    mis: Vec<Mis>,
    evals: u64,
    nontrivial: Vec<String>,
    viols: Vec<Viol>,
    skipped_panics: u64,
    parse_fail: Vec<String>,
    rejected: u64,
    samples: Vec<J>,
}

impl Part {
    fn mismatch(&mut self, m: Mis) {
        if self.mis.iter().any(|x| x.group == m.group && x.suffix == m.suffix && x.det == m.det) {
            return;
        }
        self.mis.push(m);
    }
    fn violate(&mut self, key: String, what: String, replay: Vec<String>, expected: String, actual: String) {
        if self.viols.iter().any(|v| v.key == key) {
            return;
        }
        self.viols.push(Viol { key, what, replay, expected, actual });
    }
}

#[derive(Default)]
struct Totals {
    mis: Vec<Mis>,
    skipped_panics: u64,
    parse_fail: Vec<String>,
    rejected: u64,
}

fn merge(r: &mut CheckResult, parts: Vec<Part>, t: &mut Totals) {
    for p in parts {
        r.evaluations += p.evals;
        for n in p.nontrivial {
            r.nontrivial.insert(n);
        }
        for v in p.viols {
            r.violate(&v.key, &v.what, v.replay, v.expected, v.actual);
        }
        for s in p.samples {
            r.sample(s);
        }
        t.skipped_panics += p.skipped_panics;
        t.mis.extend(p.mis);
        t.parse_fail.extend(p.parse_fail);
        t.rejected += p.rejected;
    }
}

// ------------------------------------------------------------------------------------------------
// corpus
// ------------------------------------------------------------------------------------------------

const EXPR_PAYLOADS: &[(&str, &str)] = &[
    ("ge", "x >= y"),
    ("transfer", "token.transfer(a0[0], 1)"),
    ("balance", "address(this).balance"),
    ("arrupd", "a0[0] = a0[0] + 1"),
    ("mul2", "x * 2"),
    ("keccak", "keccak256(abi.encode(x))"),
    ("booleq", "x == true"),
    ("sstore", "s0 = x"),
    ("preinc", "++x"),
    ("postinc", "x++"),
    ("require", "require(x > 0 && y > 0, \"short\")"),
    ("divmul", "(x / y) * 3"),
    ("addrzero", "a0[0] == address(0)"),
    ("length", "x < a0.length"),
];

const STMT_PAYLOADS: &[(&str, &str)] = &[("selfdestruct", "selfdestruct(payable(address(0)));")];

/// string literals full of code-like text (C17: text inside strings never produces a finding)
const STRING_EXPR_PAYLOADS: &[(&str, &str)] = &[
    ("str-keccak", "keccak256(\"x >= y; ++x; token.transfer(a0[0], 1); a0[0] = a0[0] + 1; x * 2\")"),
    ("str-cmp", "keccak256(bytes('selfdestruct(msg.sender); x == true; i++')) == keccak256(bytes(\"address(this).balance\"))"),
];
const STRING_STMT_PAYLOADS: &[(&str, &str)] = &[
    ("str-require", "require(x > 0, \"selfdestruct(msg.sender); x == true; address(this).balance >= 1\");"),
    ("str-revert", "if (x == 99) { revert(\"x++ ; y <= x ; (x / y) * 3\"); }"),
    ("str-local", "string memory sx = \"s0 = x; require(x > 0 && y > 0); pragma solidity ^0.4.0;\"; sx;"),
];

/// positions that are always kept when the placements of a payload are sub-sampled
const KEEP_POS: &[&str] = &["@stmt-expr", "@file:file-constant", "@member:state-init", "@for-cond", "@file:library-fn"];

fn corpus(per_payload: usize, with_strings: bool, rng: &mut Rng) -> Vec<Prog> {
    let mut v: Vec<Prog> = vec![];
    let sample = |all: Vec<Prog>, rng: &mut Rng, v: &mut Vec<Prog>| {
        if per_payload == 0 || all.len() <= per_payload {
            v.extend(all);
            return;
        }
        let mut keep: Vec<Prog> = vec![];
        let mut rest: Vec<Prog> = vec![];
        for p in all {
            if KEEP_POS.iter().any(|k| p.tag.ends_with(k)) {
                keep.push(p);
            } else {
                rest.push(p);
            }
        }
        rng.shuffle(&mut rest);
        let room = per_payload.saturating_sub(keep.len());
        rest.truncate(room);
        v.extend(keep);
        v.extend(rest);
    };
    for (n, e) in EXPR_PAYLOADS {
        sample(gen::place_expr_everywhere(n, e), rng, &mut v);
    }
    for (n, s) in STMT_PAYLOADS {
        v.extend(gen::place_stmt_everywhere(n, s));
    }
    if with_strings {
        for (n, e) in STRING_EXPR_PAYLOADS {
            sample(gen::place_expr_everywhere(n, e), rng, &mut v);
        }
        for (n, s) in STRING_STMT_PAYLOADS {
            v.extend(gen::place_stmt_everywhere(n, s));
        }
    }
    v.extend(gen::sink());
    // programs under OLD pragmas, so that the version-gated detectors (safe_math_pre_080, short_revert_string) are active too:
    // SafeMath call sites, require messages below / above 32 bytes, and a message split into adjacent string literals
    for (tag, header) in [("0.7.6", "pragma solidity 0.7.6;\n"), ("0.8.3", "pragma solidity 0.8.3;\n"), ("0.8.4", "pragma solidity 0.8.4;\n")] {
        let src = format!(
            "{}library SafeMath {{\n    function add(uint a, uint b) internal pure returns (uint) {{ return a + b; }}\n}}\ncontract O {{\n    using SafeMath for uint;\n    function f(uint a, uint b) public returns (uint) {{\n        require(a > b, \"aaaaaaaaaaaaaaaa\" \"bbbbbbbbbbbbbbbbb\");\n        require(a > b, \"cccccccccccccccccccccccccccccccccccc\");\n        require(a > b, \"dddddddddddddddddddddddddddddd\" \"ee\");\n        require(a > b, \"short\");\n        require(a > b, \"not enough \" \"collateral\");\n        return a.add(b);\n    }}\n}}\n",
            header
        );
        v.push(Prog { src, tag: format!("version-gated@file:pragma-{}", tag) });
    }
    // small programs first: the first witness kept per violation key is a small one
    v.sort_by(|a, b| (a.src.len(), &a.tag).cmp(&(b.src.len(), &b.tag)));
    v
}

// ------------------------------------------------------------------------------------------------
// tokens and layouts
// ------------------------------------------------------------------------------------------------

fn lex_spans(src: &str) -> Option<Vec<(usize, usize)>> {
    let mut comments = Vec::new();
    let mut out = vec![];
    let lx = Lexer::new(src, 0, &mut comments);
    for t in lx {
        match t {
            Ok((s, _, e)) => out.push((s, e)),
            Err(_) => return None,
        }
    }
    Some(out)
}

/// true iff `g` consists of white space and well-formed comments only (independent re-check of the lexer's spans)
fn gap_is_trivia(g: &str) -> bool {
    let b = g.as_bytes();
    let mut i = 0;
    while i < b.len() {
        if g[i..].starts_with("//") {
            while i < b.len() && b[i] != b'\n' && b[i] != b'\r' {
                i += 1;
            }
        } else if g[i..].starts_with("/*") {
            match g[i + 2..].find("*/") {
                Some(k) => i = i + 2 + k + 2,
                None => return false,
            }
        } else {
            let ch = g[i..].chars().next().unwrap();
            if !ch.is_whitespace() {
                return false;
            }
            i += ch.len_utf8();
        }
    }
    true
}

#[derive(Clone)]
struct Toks {
    texts: Vec<String>,
    /// gap i (before token i; gap n = after the last token) may hold white space only:
    /// solang's lexer takes everything between `pragma <ident>` and `;` as ONE value token, comments included
    ws_only: Vec<bool>,
    orig_gaps: Vec<String>,
}

fn tokenize(src: &str) -> Option<Toks> {
    let spans = lex_spans(src)?;
    let mut texts = vec![];
    let mut gaps = vec![];
    let mut pos = 0;
    for (s, e) in &spans {
        if *s < pos || *e <= *s || *e > src.len() || !src.is_char_boundary(*s) || !src.is_char_boundary(*e) {
            return None;
        }
        let g = &src[pos..*s];
        if !gap_is_trivia(g) {
            return None;
        }
        gaps.push(g.to_string());
        texts.push(src[*s..*e].to_string());
        pos = *e;
    }
    if !gap_is_trivia(&src[pos..]) {
        return None;
    }
    gaps.push(src[pos..].to_string());
    let n = texts.len();
    let mut ws_only = vec![false; n + 1];
    for i in 2..n {
        if texts[i - 2] == "pragma" && texts[i] != ";" {
            ws_only[i] = true;
            ws_only[i + 1] = true;
        }
    }
    // a comment already sitting in such a gap would have been swallowed by the value token; fine.
    Some(Toks { texts, ws_only, orig_gaps: gaps })
}

struct Layout {
    kind: String,
    text: String,
    starts: Vec<usize>,
    /// 1-based line of the first byte of each token (by the specification: 1 + line feeds before it)
    lines: Vec<i32>,
}

fn assemble(kind: &str, t: &Toks, gaps: &[String]) -> Layout {
    let mut text = String::new();
    let mut starts = vec![];
    let mut lines = vec![];
    let mut line = 1;
    for (i, tok) in t.texts.iter().enumerate() {
        text.push_str(&gaps[i]);
        line += gaps[i].bytes().filter(|b| *b == b'\n').count() as i32;
        starts.push(text.len());
        lines.push(line);
        text.push_str(tok);
        line += tok.bytes().filter(|b| *b == b'\n').count() as i32;
    }
    text.push_str(&gaps[t.texts.len()]);
    Layout { kind: kind.to_string(), text, starts, lines }
}

fn gaps_const(t: &Toks, lead: &str, mid: &str, trail: &str) -> Vec<String> {
    let n = t.texts.len();
    let mut g = vec![mid.to_string(); n + 1];
    g[0] = lead.to_string();
    g[n] = trail.to_string();
    g
}

const WS_POOL: &[&str] = &[" ", "  ", "\t", "\n", "\n\n", " \n  ", "\r\n", "\n\t\t", "\r\n\r\n", " \r ", "\n \n \n"];
const EDGE_POOL: &[&str] = &["", "\n", "  ", "\n\n", "\r\n", " "];

fn gaps_random_ws(t: &Toks, rng: &mut Rng) -> Vec<String> {
    let n = t.texts.len();
    let mut g: Vec<String> = (0..=n).map(|_| rng.pick(WS_POOL).to_string()).collect();
    g[0] = rng.pick(EDGE_POOL).to_string();
    g[n] = rng.pick(EDGE_POOL).to_string();
    g
}

const CODE_COMMENTS: &[&str] = &[
    "/* x >= y; token.transfer(a,b); */",
    "// selfdestruct(msg.sender);",
    "/* a[0] = a[0] + 1; x * 2; ++i; i++ */",
    "// require(a > 0 && b > 0, \"msg\"); x == true",
    "/* address(this).balance; keccak256(abi.encode(x));\n   function f() public {} uint constant K = 1;\n   x <= y */",
    "/// x <= y in a doc comment",
    "/** (x / y) * 3; pragma solidity ^0.8.0; */",
    "// using SafeMath for uint; a.add(b); contract Z { constructor() {} }",
    "/* \"unterminated string; x >= y */",
    "// /* block opener inside a line comment; ++x",
    "/* // line opener inside a block comment; x-- */",
    "/**/",
];

const MB_COMMENTS: &[&str] = &[
    "/* \u{e9}\u{6f22}\u{5b57}\u{1F600} x++ */",
    "// \u{fc}n\u{ef} ++i \u{2014} \u{f1} x >= y",
    "/* \u{2200}x\u{2265}y\n \u{65e5}\u{672c}\u{8a9e} token.transfer(a,b) */",
    "/** \u{434}\u{43e}\u{43a} x >= y */",
];

fn gaps_comments(t: &Toks, rng: &mut Rng, pool: &[&str], density: usize) -> Vec<String> {
    let n = t.texts.len();
    let mut g = vec![];
    for i in 0..=n {
        let ws = if i == 0 { "" } else { *rng.pick(&[" ", "\n", "  ", "\n    ", "\r\n"]) };
        if t.ws_only[i] || rng.below(density) != 0 {
            g.push(if ws.is_empty() && i != 0 && i != n { " ".to_string() } else { ws.to_string() });
            continue;
        }
        let c = *rng.pick(pool);
        let mut s = String::new();
        s.push_str(ws);
        s.push_str(c);
        if c.starts_with("//") {
            s.push_str(if rng.below(4) == 0 { "\r\n" } else { "\n" });
        } else {
            s.push_str(*rng.pick(&[" ", "\n", ""]));
        }
        g.push(s);
    }
    if !g[n].ends_with('\n') {
        g[n].push('\n');
    }
    g
}

fn mb_header() -> String {
    format!("/* {} */\n", "\u{6f22}\u{e9}\u{1F600}".repeat(24))
}

/// the reference layout: token i alone on line i + 1
fn base_layout(t: &Toks) -> Layout {
    assemble("one-token-per-line", t, &gaps_const(t, "", "\n", "\n"))
}

fn crlf_gaps(gaps: &[String]) -> Vec<String> {
    gaps.iter().map(|g| g.replace("\r\n", "\n").replace('\n', "\r\n")).collect()
}

/// token-preserving re-layouts (C17); `rounds` seeded instances of each random kind
fn relayouts(t: &Toks, rng: &mut Rng, rounds: usize) -> Vec<Layout> {
    let n = t.texts.len();
    let mut v = vec![];
    v.push(assemble("original", t, &t.orig_gaps));
    v.push(assemble("original-crlf", t, &crlf_gaps(&t.orig_gaps)));
    v.push(assemble("single-line", t, &gaps_const(t, "", " ", "\n")));
    v.push(assemble("single-line-no-eol", t, &gaps_const(t, "", " ", "")));
    v.push(assemble("crlf-token-per-line", t, &gaps_const(t, "", "\r\n", "\r\n")));
    v.push(assemble("blank-lines", t, &gaps_const(t, "\n\n", "\n\n\n", "\n\n")));
    v.push(assemble("multibyte-header+token-per-line", t, &gaps_const(t, &mb_header(), "\n", "\n")));
    let mut two = gaps_const(t, "", "\n", "\n");
    for i in 1..n {
        if i % 2 == 1 {
            two[i] = " ".to_string();
        }
    }
    v.push(assemble("two-tokens-per-line", t, &two));
    for _ in 0..rounds {
        v.push(assemble("random-whitespace", t, &gaps_random_ws(t, rng)));
        v.push(assemble("code-comments", t, &gaps_comments(t, rng, CODE_COMMENTS, 3)));
        v.push(assemble("multibyte-comments", t, &gaps_comments(t, rng, MB_COMMENTS, 3)));
    }
    v
}

/// a layout is usable iff solang's lexer sees exactly the same tokens at the recorded offsets and the text parses
fn layout_ok(l: &Layout, t: &Toks) -> bool {
    let spans = match lex_spans(&l.text) {
        Some(s) => s,
        None => return false,
    };
    if spans.len() != t.texts.len() {
        return false;
    }
    for (i, (s, e)) in spans.iter().enumerate() {
        if *s != l.starts[i] || l.text.get(*s..*e) != Some(t.texts[i].as_str()) {
            return false;
        }
    }
    solang_parser::parse(&l.text, 0).is_ok()
}

/// same text, every comment body replaced by `z` (line structure and all byte offsets unchanged)
fn neutralize_comments(text: &str) -> Option<String> {
    let spans = lex_spans(text)?;
    let mut out = String::with_capacity(text.len());
    let mut pos = 0;
    let mut gaps: Vec<(usize, usize)> = vec![];
    for (s, e) in &spans {
        gaps.push((pos, *s));
        pos = *e;
    }
    gaps.push((pos, text.len()));
    let mut tok_i = 0;
    for (gs, ge) in gaps {
        let g = &text[gs..ge];
        let b = g.as_bytes();
        let mut i = 0;
        while i < b.len() {
            if g[i..].starts_with("//") {
                out.push_str("//");
                i += 2;
                while i < b.len() && b[i] != b'\n' && b[i] != b'\r' {
                    out.push('z');
                    i += 1;
                }
            } else if g[i..].starts_with("/*") {
                let k = g[i + 2..].find("*/")?;
                out.push_str("/*");
                for c in g[i + 2..i + 2 + k].bytes() {
                    out.push(if c == b'\n' || c == b'\r' { c as char } else { 'z' });
                }
                out.push_str("*/");
                i = i + 2 + k + 2;
            } else {
                let ch = g[i..].chars().next().unwrap();
                out.push(ch);
                i += ch.len_utf8();
            }
        }
        if tok_i < spans.len() {
            out.push_str(&text[spans[tok_i].0..spans[tok_i].1]);
            tok_i += 1;
        }
    }
    if out.len() != text.len() {
        return None;
    }
    Some(out)
}

/// same text, the content of every quoted string literal replaced by `z` (same byte length; hex strings,
/// import paths and assembly dialect strings are left alone). None when there is nothing to replace.
fn neutralize_strings(text: &str) -> Option<String> {
    let spans = lex_spans(text)?;
    let mut out = String::with_capacity(text.len());
    let mut pos = 0;
    let mut changed = false;
    let mut prev = "";
    for (s, e) in &spans {
        out.push_str(&text[pos..*s]);
        let tok = &text[*s..*e];
        let body_start = if tok.starts_with('"') || tok.starts_with('\'') {
            Some(1)
        } else if tok.starts_with("unicode\"") || tok.starts_with("unicode'") {
            Some(8)
        } else {
            None
        };
        match body_start {
            Some(k) if tok.len() >= k + 1 && prev != "assembly" && prev != "import" && prev != "from" => {
                out.push_str(&tok[..k]);
                let body = &tok[k..tok.len() - 1];
                if body.bytes().any(|c| c != b'z') {
                    changed = true;
                }
                for _ in 0..body.len() {
                    out.push('z');
                }
                out.push_str(&tok[tok.len() - 1..]);
            }
            _ => out.push_str(tok),
        }
        prev = tok;
        pos = *e;
    }
    out.push_str(&text[pos..]);
    if changed && out.len() == text.len() {
        Some(out)
    } else {
        None
    }
}

// ------------------------------------------------------------------------------------------------
// C02
// ------------------------------------------------------------------------------------------------

struct LineFail {
    key: &'static str,
    expected: i32,
    actual: String,
}

fn real_line(off: usize, s: &str) -> Result<i32, String> {
    catch_unwind(AssertUnwindSafe(|| utils::get_line_number(off, s))).map_err(panic_msg)
}

/// one case of contract (a); admissibility (off < len, char boundary, s[off] != '\n') is the caller's business
fn line_case(s: &str, off: usize) -> Option<LineFail> {
    let exp = spec_line(off, s);
    let got = match real_line(off, s) {
        Err(m) => return Some(LineFail { key: "c02:get_line_number-panics", expected: exp, actual: format!("panic: {}", m) }),
        Ok(g) => g,
    };
    if got == exp {
        return None;
    }
    let key = if got == 0 && !s[off..].contains('\n') {
        "c02:last-line-without-newline-gives-0"
    } else if s.contains('\r') && real_line(off, &s.replace('\r', "a")) == Ok(exp) {
        "c02:crlf"
    } else if !s.is_ascii() && {
        let ascii: String = s.chars().map(|c| if c.is_ascii() { c.to_string() } else { "a".repeat(c.len_utf8()) }).collect();
        real_line(off, &ascii) == Ok(exp)
    } {
        "c02:multibyte"
    } else if (got - exp).abs() == 1 {
        "c02:get_line_number-off-by-one"
    } else {
        "c02:get_line_number-wrong"
    };
    Some(LineFail { key, expected: exp, actual: got.to_string() })
}

fn admissible(s: &str, off: usize) -> bool {
    off < s.len() && s.is_char_boundary(off) && s.as_bytes()[off] != b'\n'
}

fn line_violation(part: &mut Part, s: &str, off: usize, f: LineFail) {
    part.violate(
        f.key.to_string(),
        format!("get_line_number({}, {:?}) returns {}, the byte at that offset is on line {}", off, s, f.actual, f.expected),
        vec!["c02-case".into(), "line".into(), format!("@src:{}", s), off.to_string()],
        format!("{} (1 + number of line feeds before offset {})", f.expected, off),
        f.actual,
    );
}

const ALPHABET: [char; 4] = ['a', '\n', '\r', '\u{e9}'];
const EXH_LEN: usize = 7;

fn random_text(rng: &mut Rng) -> String {
    let span = if rng.below(8) == 0 { 1500 } else { 120 };
    let n = 8 + rng.below(span);
    let mut s = String::new();
    for _ in 0..n {
        match rng.below(20) {
            0 | 1 | 2 => s.push('\n'),
            3 => s.push('\r'),
            4 => s.push_str("\r\n"),
            5 => s.push('\u{e9}'),
            6 => s.push('\u{6f22}'),
            7 => s.push('\u{1F600}'),
            8 => s.push(' '),
            9 => s.push('\t'),
            k => s.push((b'a' + (k as u8 - 10)) as char),
        }
    }
    s
}

/// text layouts of contract (b): need not preserve tokens, only has to parse
fn c02_layouts(p: &Prog, rng: &mut Rng) -> Vec<(String, String)> {
    let mut v: Vec<(String, String)> = vec![];
    v.push(("original".into(), p.src.clone()));
    v.push(("original-no-final-newline".into(), p.src.trim_end().to_string()));
    if let Some(t) = tokenize(&p.src) {
        if !t.texts.is_empty() {
            let n = t.texts.len();
            let mut g = t.orig_gaps.clone();
            v.push(("original-crlf".into(), assemble("", &t, &crlf_gaps(&g)).text));
            g[n] = String::new();
            v.push(("original-crlf-no-final-newline".into(), assemble("", &t, &crlf_gaps(&g)).text));
            let blank: Vec<String> = t.orig_gaps.iter().map(|x| x.replace('\n', "\n\n\n")).collect();
            v.push(("blank-lines".into(), assemble("", &t, &blank).text));
            let per_line = base_layout(&t).text;
            v.push(("one-token-per-line".into(), per_line.clone()));
            v.push(("one-token-per-line-no-eol".into(), per_line.trim_end().to_string()));
            v.push(("crlf-token-per-line-no-eol".into(), assemble("", &t, &gaps_const(&t, "", "\r\n", "")).text));
            v.push(("single-line-no-eol".into(), assemble("", &t, &gaps_const(&t, "", " ", "")).text));
            v.push(("single-line".into(), assemble("", &t, &gaps_const(&t, "", " ", "\n")).text));
            v.push(("multibyte-comment-header+token-per-line".into(), format!("{}{}", mb_header(), per_line)));
            v.push((
                "multibyte-string-header+token-per-line".into(),
                format!("string constant MB0 = \"{}\";\n{}", "\u{6f22}\u{e9}\u{1F600}".repeat(24), per_line),
            ));
            v.push(("multibyte-comments".into(), assemble("", &t, &gaps_comments(&t, rng, MB_COMMENTS, 2)).text));
            v.push(("random-whitespace".into(), assemble("", &t, &gaps_random_ws(&t, rng)).text));
        }
    }
    v
}

/// outcome of contract (b) on one (text, detector)
struct BFail {
    key: String,
    expected: String,
    actual: String,
    /// Some(offset) when the mismatch is get_line_number's own (contract (a) fails on this text at that offset)
    line_off: Option<usize>,
    /// Some(key prefix) when the key is per detector (`<group>:<detector>`), subject to `collapse`
    group: Option<&'static str>,
}

/// contract (b) on one text and one detector. Ok((flagged, None)) = holds; Ok((_, Some(fail))) = violated.
/// Err = not applicable (does not parse / detector panics: C04's business)
fn analyze_case(d: &Det, text: &str) -> Result<(bool, Option<BFail>), String> {
    let su = match solang_parser::parse(text, 0) {
        Ok((su, _)) => su,
        Err(_) => return Err("does not parse".into()),
    };
    let locs = locations(d, su).map_err(|m| format!("detector panics: {}", m))?;
    let expected: BTreeSet<i32> = locs.iter().map(|l| spec_line(l.start(), text)).collect();
    let got = match analyze(d, text, 0) {
        Ok(g) => g,
        Err(m) => {
            return Ok((
                true,
                Some(BFail {
                    key: format!("c02:analyze_for-panics-but-detector-does-not:{}", d.name),
                    expected: format!("{:?}", expected),
                    actual: format!("panic: {}", m),
                    line_off: None,
                    group: Some("c02:analyze_for-panics-but-detector-does-not"),
                }),
            ))
        }
    };
    let flagged = !expected.is_empty() || !got.is_empty();
    if got == expected {
        return Ok((flagged, None));
    }
    // whose fault? if the reported set is exactly what get_line_number makes of the detector's locations,
    // the conversion of the location set is right and get_line_number itself is wrong on this text
    let mut starts: Vec<usize> = locs.iter().map(|l| l.start()).collect();
    starts.sort();
    let via: Option<BTreeSet<i32>> = starts.iter().map(|o| real_line(*o, text).ok()).collect();
    if via.as_ref() == Some(&got) {
        for o in starts {
            if admissible(text, o) {
                if let Some(f) = line_case(text, o) {
                    return Ok((flagged, Some(BFail { key: f.key.to_string(), expected: format!("{:?}", expected), actual: format!("{:?}", got), line_off: Some(o), group: None })));
                }
            }
        }
    }
    Ok((
        flagged,
        Some(BFail {
            key: format!("c02:analyze_for-lines-mismatch:{}", d.name),
            expected: format!("{:?}", expected),
            actual: format!("{:?}", got),
            line_off: None,
            group: Some("c02:analyze_for-lines-mismatch"),
        }),
    ))
}

fn c02_program(order: usize, p: &Prog, dets: &[Det], rng: &mut Rng) -> Part {
    let mut part = Part::default();
    if solang_parser::parse(&p.src, 0).is_err() {
        part.parse_fail.push(p.tag.clone());
        return part;
    }
    for (kind, text) in c02_layouts(p, rng) {
        if solang_parser::parse(&text, 0).is_err() {
            part.rejected += 1;
            continue;
        }
        for d in dets {
            match analyze_case(d, &text) {
                Err(_) => part.skipped_panics += 1,
                Ok((flagged, res)) => {
                    part.evals += 1;
                    // non-trivial: the detector reports at least one location on this text
                    if flagged {
                        part.nontrivial.push(format!("b|{}|{}|{}", p.tag, kind, d.name));
                    }
                    if let Some(f) = res {
                        let (why, replay) = match f.line_off {
                            Some(o) => (
                                format!(" (get_line_number is wrong at offset {} of this text)", o),
                                vec!["c02-case".into(), "line".into(), format!("@src:{}", text), o.to_string()],
                            ),
                            None => (String::new(), vec!["c02-case".into(), "analyze".into(), format!("@src:{}", text), d.name.to_string()]),
                        };
                        let what = format!(
                            "analyze_for_* with pattern {} on layout '{}' of program {} reports lines {} but the detector's locations start on lines {}{}",
                            d.name, kind, p.tag, f.actual, f.expected, why
                        );
                        match f.group {
                            Some(g) => part.mismatch(Mis {
                                group: g.to_string(),
                                suffix: String::new(),
                                det: d.name,
                                order,
                                prog: p.tag.clone(),
                                what,
                                replay,
                                expected: f.expected,
                                actual: f.actual,
                            }),
                            None => part.violate(f.key, what, replay, f.expected, f.actual),
                        }
                    } else if flagged && part.samples.len() < 1 && kind == "multibyte-comments" {
                        part.samples.push(J::obj(vec![
                            ("part", J::s("b")),
                            ("program", J::s(p.tag.clone())),
                            ("layout", J::s(kind.clone())),
                            ("detector", J::s(d.name)),
                            ("lines", J::s(fmt_lines(&analyze(d, &text, 0)))),
                            ("source", J::s(text.clone())),
                        ]));
                    }
                }
            }
        }
    }
    part
}

pub fn run_c02(tier: &str, seed: u64) -> CheckResult {
    silence();
    let thorough = tier == "thorough";
    let mut r = CheckResult::new("c02");
    let mut tot = Totals::default();

    // (a1) bounded-exhaustive
    let mut strings = vec![String::new()];
    let mut frontier = vec![String::new()];
    for _ in 0..EXH_LEN {
        let mut next = vec![];
        for s in &frontier {
            for c in ALPHABET {
                let mut t = s.clone();
                t.push(c);
                next.push(t);
            }
        }
        strings.extend(next.iter().cloned());
        frontier = next;
    }
    let chunks: Vec<&[String]> = strings.chunks(128).collect();
    let parts = par_map(&chunks, |_, ch| {
        let mut part = Part::default();
        for s in ch.iter() {
            for off in 0..s.len() {
                if !admissible(s, off) {
                    continue;
                }
                part.evals += 1;
                if s.contains('\n') {
                    part.nontrivial.push(format!("a|{:?}@{}", s, off));
                }
                if let Some(f) = line_case(s, off) {
                    line_violation(&mut part, s, off, f);
                }
            }
        }
        part
    });
    let exh_strings = strings.len();
    merge(&mut r, parts, &mut tot);
    let exh_cases = r.evaluations;
    r.sample(J::obj(vec![
        ("part", J::s("a-exhaustive")),
        ("text", J::s("a\r\n\u{e9}\na")),
        ("offset", J::Num(6)),
        ("spec_line", J::Num(spec_line(6, "a\r\n\u{e9}\na") as i64)),
        ("get_line_number", J::s(format!("{:?}", real_line(6, "a\r\n\u{e9}\na")))),
    ]));

    // (a3) texts of EQUAL LENGTH that share a long common head (and tail) and differ only in where their line feeds are, converted
    // one after the other on ONE thread (a memo keyed by length / a prefix / a hash of the head would serve the wrong table)
    {
        let mut part = Part::default();
        let heads = ["// SPDX-License-Identifier: MIT\npragma solidity 0.8.10;\n// a header of more than sixty-four bytes, shared by all\n".to_string(), "h".repeat(130), format!("{}\n{}", "x".repeat(70), "y".repeat(70))];
        let mids = ["a\n\nb c", "a\nb\n c", "\na\nb c", "a b\n\nc", "a b c\n\n", "\n\na b c", "a\r\nb\nc", "a b c d"];
        for head in &heads {
            for round in 0..2 {
                for (k, mid) in mids.iter().enumerate() {
                    let mid = mids[(k + round * 3) % mids.len()];
                    let _ = mid;
                }
                for k in 0..mids.len() {
                    let mid = mids[(k * (round + 1) + round) % mids.len()];
                    let text = format!("{}{}\ncontract Z {{ }}\n", head, mid);
                    for off in head.len()..text.len() {
                        if !admissible(&text, off) {
                            continue;
                        }
                        part.evals += 1;
                        part.nontrivial.push(format!("a3|{}|{}|{}", head.len(), mid.escape_debug(), off));
                        if let Some(f) = line_case(&text, off) {
                            line_violation(&mut part, &text, off, f);
                        }
                    }
                }
            }
        }
        merge(&mut r, vec![part], &mut tot);
    }

    // (a2) seeded random longer texts
    let n_random: usize = if thorough { 100_000 } else { 6_000 };
    let per_chunk = 250;
    let chunk_ids: Vec<usize> = (0..(n_random + per_chunk - 1) / per_chunk).collect();
    let parts = par_map(&chunk_ids, |_, ci| {
        let mut part = Part::default();
        let mut rng = Rng::new(seed.wrapping_mul(1_000_003).wrapping_add(*ci as u64 + 17));
        for k in 0..per_chunk {
            let id = ci * per_chunk + k;
            if id >= n_random {
                break;
            }
            let s = random_text(&mut rng);
            let adm: Vec<usize> = (0..s.len()).filter(|o| admissible(&s, *o)).collect();
            if adm.is_empty() {
                continue;
            }
            // first and last admissible offset, the first offset after the last line feed, and random ones
            let mut offs = vec![adm[0], adm[adm.len() - 1]];
            if let Some(nl) = s.rfind('\n') {
                if admissible(&s, nl + 1) {
                    offs.push(nl + 1);
                }
            }
            for _ in 0..3 {
                offs.push(*rng.pick(&adm));
            }
            offs.sort();
            offs.dedup();
            for off in offs {
                part.evals += 1;
                if s.contains('\n') {
                    part.nontrivial.push(format!("r|{}@{}", id, off));
                }
                if let Some(f) = line_case(&s, off) {
                    line_violation(&mut part, &s, off, f);
                }
            }
        }
        part
    });
    merge(&mut r, parts, &mut tot);
    let rnd_cases = r.evaluations - exh_cases;

    // (b) analyze_for_* == line set of the detector's locations, programs x layouts x 30 detectors
    let dets = detectors();
    let mut rng = Rng::new(seed);
    let progs = corpus(if thorough { 0 } else { 30 }, false, &mut rng);
    let parts = par_map(&progs, |i, p| {
        let mut rng = Rng::new(seed.wrapping_mul(7919).wrapping_add(i as u64));
        c02_program(i, p, &dets, &mut rng)
    });
    merge(&mut r, parts, &mut tot);
    collapse(&mut r, std::mem::take(&mut tot.mis));
    let b_cases = r.evaluations - exh_cases - rnd_cases;

    r.exhaustive = true;
    r.rule = "part (a): a case is one (text, offset) with offset < len, on a char boundary, text[offset] != LF; non-trivial iff the text contains a line feed. \
part (b): a case is one (program, layout, detector) comparison of analyze_for_*'s line set with { 1 + #LF before loc.start : loc in detector(parse(text)) }, \
the detector function being called directly on the parse tree; non-trivial iff the detector reports at least one location on that text"
        .into();
    r.bound = format!(
        "EXHAUSTIVE for part (a) only: all {} texts of <= {} characters (hence all texts of <= {} UTF-8 code units) over the alphabet {{LF, CR, 'a', U+00E9}} x all admissible offsets = {} cases; \
SAMPLED: {} seeded random texts of 8..1500 characters (LF, CR, CRLF, 2/3/4-byte characters) with up to 6 offsets each = {} cases; \
SAMPLED part (b): {} generated programs x up to 15 layouts (original, no final newline, CRLF, CRLF without final newline, blank lines, one token per line with/without final newline, single line with/without final newline, multi-byte comment header, multi-byte string-literal header, multi-byte comments between tokens, random white space) x 30 detectors = {} cases",
        exh_strings, EXH_LEN, EXH_LEN, exh_cases, n_random, rnd_cases, progs.len(), b_cases
    );
    r.extra.push(("exhaustive_part".into(), J::s("part (a), get_line_number on the bounded text space only; everything else is sampled")));
    r.extra.push(("cases_exhaustive".into(), J::Num(exh_cases as i64)));
    r.extra.push(("cases_random_texts".into(), J::Num(rnd_cases as i64)));
    r.extra.push(("cases_analyze_for".into(), J::Num(b_cases as i64)));
    r.extra.push(("skipped_panics".into(), J::Num(tot.skipped_panics as i64)));
    r.extra.push(("layouts_rejected_by_parser".into(), J::Num(tot.rejected as i64)));
    r.extra.push(("parse_failures".into(), J::arr_s(tot.parse_fail)));
    r.assumptions.push("part (b) takes the byte location of a flagged construct from the detector function itself (which node a detector reports is the business of C05..C09)".into());
    r.assumptions.push("(program, detector) pairs on which the detector function panics are skipped and counted in skipped_panics (C04)".into());
    r.assumptions.push("solang_parser::parse locations are byte offsets into the text".into());
    r
}

fn c02_replay(rest: &[String]) -> i32 {
    silence();
    if rest.len() < 3 {
        eprintln!("usage: c02-case line <text> <offset> | c02-case analyze <source> <detector>");
        return 2;
    }
    let text = crate::arg_or_file(&rest[1]);
    match rest[0].as_str() {
        "line" => {
            let off: usize = rest[2].parse().unwrap_or(usize::MAX);
            if !admissible(&text, off) {
                println!("offset {} is not admissible for this text (precondition of the contract)", off);
                return 2;
            }
            match line_case(&text, off) {
                None => {
                    println!("holds: get_line_number({}, text) == {}", off, spec_line(off, &text));
                    0
                }
                Some(f) => {
                    println!("VIOLATED [{}]: get_line_number({}, {:?}) == {}, expected {}", f.key, off, text, f.actual, f.expected);
                    1
                }
            }
        }
        "analyze" => {
            let dets = detectors();
            let di = match det_by_name(&dets, &rest[2]) {
                Some(i) => i,
                None => {
                    eprintln!("unknown detector {}", rest[2]);
                    return 2;
                }
            };
            match analyze_case(&dets[di], &text) {
                Err(m) => {
                    println!("not applicable: {}", m);
                    0
                }
                Ok((_, None)) => {
                    println!("holds: analyze_for_* lines == lines of the detector's locations");
                    0
                }
                Ok((_, Some(f))) => {
                    println!("VIOLATED [{}]: analyze_for_* reports {}, the detector's locations start on lines {}", f.key, f.actual, f.expected);
                    1
                }
            }
        }
        _ => 2,
    }
}

// ------------------------------------------------------------------------------------------------
// C17
// ------------------------------------------------------------------------------------------------

/// Compare the lines reported on layout `l` with the lines of the tokens flagged on the reference layout.
/// Returns None if the contract holds, else (key, expected, actual).
/// Returns None if the contract holds, else (root-cause key or None for a per-detector key, expected, actual).
fn relayout_case(d: &Det, l: &Layout, flagged: &[usize], base_text: &str) -> Option<(Option<String>, String, String)> {
    let expected: BTreeSet<i32> = flagged.iter().map(|t| l.lines[*t]).collect();
    let got = match analyze(d, &l.text, 0) {
        Ok(g) => g,
        Err(m) => {
            return Some((None, format!("{:?}", expected), format!("panic (none on the one-token-per-line layout): {}", m)))
        }
    };
    if got == expected {
        return None;
    }
    // a wrong offset-to-line conversion (C02's contract (a)) on either text is a different defect than a
    // detector or parser that reacts to layout: key it by its C02 class, not per detector and layout
    let key = line_fault(d, &l.text).or_else(|| line_fault(d, base_text)).map(|class| format!("c17:{}", class.trim_start_matches("c02:")));
    Some((key, format!("{:?}", expected), format!("{:?}", got)))
}

/// the C02 class of a get_line_number fault at one of the locations the detector reports on `text`, if any
fn line_fault(d: &Det, text: &str) -> Option<&'static str> {
    let su = solang_parser::parse(text, 0).ok()?.0;
    let mut starts: Vec<usize> = locations(d, su).ok()?.iter().map(|l| l.start()).collect();
    starts.sort();
    for o in starts {
        if admissible(text, o) {
            if let Some(f) = line_case(text, o) {
                return Some(f.key);
            }
        }
    }
    None
}

/// flagged token indices on the reference layout; Err(lines) when a reported line holds no token start
fn flagged_tokens(lines: &BTreeSet<i32>, ntok: usize) -> Result<Vec<usize>, Vec<i32>> {
    let bad: Vec<i32> = lines.iter().cloned().filter(|l| *l < 1 || *l as usize > ntok).collect();
    if !bad.is_empty() {
        return Err(bad);
    }
    Ok(lines.iter().map(|l| (*l - 1) as usize).collect())
}

fn c17_program(order: usize, p: &Prog, dets: &[Det], rng: &mut Rng, rounds: usize) -> Part {
    let mut part = Part::default();
    if solang_parser::parse(&p.src, 0).is_err() {
        part.parse_fail.push(p.tag.clone());
        return part;
    }
    let toks = match tokenize(&p.src) {
        Some(t) if !t.texts.is_empty() && t.texts.iter().all(|x| !x.contains('\n')) => t,
        _ => {
            part.rejected += 1;
            return part;
        }
    };
    let n = toks.texts.len();
    let base = base_layout(&toks);
    if !layout_ok(&base, &toks) {
        part.rejected += 1;
        return part;
    }
    // reference findings: token indices
    let mut flagged: Vec<Option<Vec<usize>>> = vec![];
    for d in dets {
        match analyze(d, &base.text, 0) {
            Err(_) => {
                part.skipped_panics += 1;
                flagged.push(None);
            }
            Ok(lines) => match flagged_tokens(&lines, n) {
                Ok(f) => {
                    if !f.is_empty() {
                        part.nontrivial.push(format!("{}|{}", p.tag, d.name));
                        if part.samples.is_empty() && d.name != "solidity_math" {
                            part.samples.push(J::obj(vec![
                                ("program", J::s(p.tag.clone())),
                                ("detector", J::s(d.name)),
                                ("tokens", J::Num(n as i64)),
                                ("flagged_token_indices", J::s(format!("{:?}", f))),
                                ("flagged_tokens", J::s(format!("{:?}", f.iter().map(|i| toks.texts[*i].as_str()).collect::<Vec<_>>()))),
                            ]));
                        }
                    }
                    flagged.push(Some(f));
                }
                Err(bad) => {
                    part.evals += 1;
                    let what = format!("{} reports lines {:?} on the one-token-per-line layout of {} which has {} lines/tokens", d.name, bad, p.tag, n);
                    let replay = vec!["c17-case".into(), "relayout".into(), format!("@src:{}", base.text), d.name.to_string()];
                    let (expected, actual) = (format!("every reported line in 1..={}", n), format!("{:?}", lines));
                    match line_fault(d, &base.text) {
                        Some(class) => part.violate(format!("c17:{}", class.trim_start_matches("c02:")), what, replay, expected, actual),
                        None => part.mismatch(Mis {
                            group: "c17:line-without-token-start".into(),
                            suffix: String::new(),
                            det: d.name,
                            order,
                            prog: p.tag.clone(),
                            what,
                            replay,
                            expected,
                            actual,
                        }),
                    }
                    flagged.push(None);
                }
            },
        }
    }
    // (1) token-preserving re-layouts
    let layouts = relayouts(&toks, rng, rounds);
    for l in &layouts {
        if !layout_ok(l, &toks) {
            part.rejected += 1;
            continue;
        }
        for (di, d) in dets.iter().enumerate() {
            let fl = match &flagged[di] {
                Some(f) => f,
                None => continue,
            };
            part.evals += 1;
            if let Some((key, expected, actual)) = relayout_case(d, l, fl, &base.text) {
                let what = format!(
                    "{} on layout '{}' of {}: tokens {:?} start flagged constructs (one-token-per-line layout); they are on lines {} of this layout, reported {}",
                    d.name,
                    l.kind,
                    p.tag,
                    fl.iter().map(|i| format!("#{} {}", i, toks.texts[*i])).collect::<Vec<_>>(),
                    expected,
                    actual
                );
                let replay = vec!["c17-case".into(), "relayout".into(), format!("@src:{}", l.text), d.name.to_string()];
                match key {
                    Some(k) => part.violate(k, what, replay, expected, actual),
                    None => part.mismatch(Mis {
                        group: "c17:layout-changes-findings".into(),
                        suffix: format!(":{}", l.kind),
                        det: d.name,
                        order,
                        prog: p.tag.clone(),
                        what,
                        replay,
                        expected,
                        actual,
                    }),
                }
            }
        }
        // (2) comment text is never flagged: same layout, comment bodies neutralised
        if l.kind == "code-comments" || l.kind == "multibyte-comments" {
            if let Some(neutral) = neutralize_comments(&l.text) {
                if neutral != l.text && solang_parser::parse(&neutral, 0).is_ok() {
                    for d in dets {
                        let a = analyze(d, &l.text, 0);
                        let b = analyze(d, &neutral, 0);
                        if a.is_err() && b.is_err() {
                            continue;
                        }
                        part.evals += 1;
                        if a != b {
                            let what = format!("{} on {}: findings change when only the text inside comments is replaced by neutral text", d.name, p.tag);
                            let replay = vec!["c17-case".into(), "comments".into(), format!("@src:{}", l.text), d.name.to_string()];
                            match line_fault(d, &l.text).or_else(|| line_fault(d, &neutral)) {
                                Some(class) => part.violate(format!("c17:{}", class.trim_start_matches("c02:")), what, replay, fmt_lines(&b), fmt_lines(&a)),
                                None => part.mismatch(Mis {
                                    group: "c17:comment-text-flagged".into(),
                                    suffix: String::new(),
                                    det: d.name,
                                    order,
                                    prog: p.tag.clone(),
                                    what,
                                    replay,
                                    expected: fmt_lines(&b),
                                    actual: fmt_lines(&a),
                                }),
                            }
                        }
                    }
                }
            }
        }
    }
    // (3) string-literal text is never flagged
    if let Some(neutral) = neutralize_strings(&p.src) {
        if solang_parser::parse(&neutral, 0).is_ok() {
            for d in dets {
                let a = analyze(d, &p.src, 0);
                let b = analyze(d, &neutral, 0);
                if a.is_err() && b.is_err() {
                    continue;
                }
                part.evals += 1;
                part.nontrivial.push(format!("{}|strings|{}", p.tag, d.name));
                if a != b {
                    let what = format!("{} on {}: findings change when only the characters inside string literals are replaced (same lengths)", d.name, p.tag);
                    let replay = vec!["c17-case".into(), "strings".into(), format!("@src:{}", p.src), d.name.to_string()];
                    match line_fault(d, &p.src).or_else(|| line_fault(d, &neutral)) {
                        Some(class) => part.violate(format!("c17:{}", class.trim_start_matches("c02:")), what, replay, fmt_lines(&b), fmt_lines(&a)),
                        None => part.mismatch(Mis {
                            group: "c17:string-text-flagged".into(),
                            suffix: String::new(),
                            det: d.name,
                            order,
                            prog: p.tag.clone(),
                            what,
                            replay,
                            expected: fmt_lines(&b),
                            actual: fmt_lines(&a),
                        }),
                    }
                }
            }
        } else {
            part.rejected += 1;
        }
    }
    part
}

pub fn run_c17(tier: &str, seed: u64) -> CheckResult {
    silence();
    let thorough = tier == "thorough";
    let mut r = CheckResult::new("c17");
    let mut tot = Totals::default();
    let dets = detectors();
    let mut rng = Rng::new(seed);
    let progs = corpus(if thorough { 0 } else { 30 }, true, &mut rng);
    let rounds = if thorough { 3 } else { 1 };
    let parts = par_map(&progs, |i, p| {
        let mut rng = Rng::new(seed.wrapping_mul(104_729).wrapping_add(i as u64));
        c17_program(i, p, &dets, &mut rng, rounds)
    });
    merge(&mut r, parts, &mut tot);
    collapse(&mut r, std::mem::take(&mut tot.mis));
    r.rule = "tokens = the token sequence of solang's lexer; reference = the one-token-per-line layout (reported line L <=> token index L-1 starts a flagged construct); \
a case is one (program, layout, detector) comparison: lines reported on the layout == lines of the reference-flagged tokens in that layout; plus (program, detector) comparisons of the findings with \
comment bodies / string-literal contents replaced by neutral text of identical byte and line structure; non-trivial iff the detector flags at least one token of the program (or the program has a string literal to neutralise)"
        .into();
    r.bound = format!(
        "{} generated programs (detector payloads in every position template, string-literal payloads, kitchen-sink files) x 30 detectors x {} layouts \
(original, original-crlf, single-line, single-line-no-eol, crlf-token-per-line, blank-lines, multibyte-header+token-per-line, two-tokens-per-line, and {} seeded instance(s) each of random-whitespace, code-comments, multibyte-comments)",
        progs.len(),
        8 + 3 * rounds,
        rounds
    );
    r.extra.push(("skipped_panics".into(), J::Num(tot.skipped_panics as i64)));
    r.extra.push(("layouts_or_programs_rejected_by_selfcheck".into(), J::Num(tot.rejected as i64)));
    r.extra.push(("parse_failures".into(), J::arr_s(tot.parse_fail)));
    r.assumptions.push("token boundaries are those of solang_parser::lexer::Lexer (the lexer the analysis itself uses); each layout is re-lexed and must give the same tokens at the recorded offsets, and must parse, else it is dropped and counted".into());
    r.assumptions.push("no comment is inserted next to a pragma value: solang lexes everything between `pragma <ident>` and `;` as one token".into());
    r.assumptions.push("(program, detector) pairs on which the detector panics on the reference layout are skipped and counted in skipped_panics (C04)".into());
    r.assumptions.push("a finding on the unterminated last line reported as line 0 is C02's defect and is keyed separately (c17:last-line-without-newline-gives-0)".into());
    r
}

fn c17_replay(rest: &[String]) -> i32 {
    silence();
    if rest.len() < 3 {
        eprintln!("usage: c17-case relayout|comments|strings <source> <detector>");
        return 2;
    }
    let text = crate::arg_or_file(&rest[1]);
    let dets = detectors();
    let d = match det_by_name(&dets, &rest[2]) {
        Some(i) => dets[i],
        None => {
            eprintln!("unknown detector {}", rest[2]);
            return 2;
        }
    };
    if solang_parser::parse(&text, 0).is_err() {
        println!("not applicable: the text does not parse");
        return 0;
    }
    match rest[0].as_str() {
        "relayout" => {
            let toks = match tokenize(&text) {
                Some(t) if !t.texts.is_empty() => t,
                _ => {
                    println!("not applicable: cannot tokenize");
                    return 0;
                }
            };
            let base = base_layout(&toks);
            let this = assemble("given", &toks, &toks.orig_gaps);
            if !layout_ok(&base, &toks) || this.text != text {
                println!("not applicable: the one-token-per-line layout does not preserve the tokens");
                return 0;
            }
            let lines = match analyze(&d, &base.text, 0) {
                Ok(l) => l,
                Err(m) => {
                    println!("not applicable: detector panics on the reference layout: {}", m);
                    return 0;
                }
            };
            let fl = match flagged_tokens(&lines, toks.texts.len()) {
                Ok(f) => f,
                Err(bad) => {
                    println!("VIOLATED: lines {:?} reported on the one-token-per-line layout hold no token", bad);
                    return 1;
                }
            };
            println!(
                "flagged tokens on the one-token-per-line layout: {:?}",
                fl.iter().map(|i| format!("#{} {}", i, toks.texts[*i])).collect::<Vec<_>>()
            );
            match relayout_case(&d, &this, &fl, &base.text) {
                None => {
                    println!("holds: the given layout reports exactly the lines of those tokens");
                    0
                }
                Some((key, expected, actual)) => {
                    let key = key.unwrap_or_else(|| format!("c17:layout-changes-findings:{}", d.name));
                    println!("VIOLATED [{}]: those tokens are on lines {} of the given layout, reported {}", key, expected, actual);
                    1
                }
            }
        }
        "comments" | "strings" => {
            let neutral = if rest[0] == "comments" { neutralize_comments(&text) } else { neutralize_strings(&text) };
            let neutral = match neutral {
                Some(n) if solang_parser::parse(&n, 0).is_ok() => n,
                _ => {
                    println!("not applicable: nothing to neutralise");
                    return 0;
                }
            };
            let a = analyze(&d, &text, 0);
            let b = analyze(&d, &neutral, 0);
            if a == b || (a.is_err() && b.is_err()) {
                println!("holds: {} with and without the text inside {}", fmt_lines(&a), rest[0]);
                0
            } else {
                println!("VIOLATED: {} as given, {} with the text inside {} replaced by neutral text", fmt_lines(&a), fmt_lines(&b), rest[0]);
                1
            }
        }
        _ => 2,
    }
}

// ------------------------------------------------------------------------------------------------
// C15
// ------------------------------------------------------------------------------------------------

const FILE_NUMBERS: [usize; 4] = [0, 1, 7, usize::MAX / 2];
const THREADS: usize = 8;

fn same(a: &Lines, b: &Lines) -> bool {
    match (a, b) {
        (Ok(x), Ok(y)) => x == y,
        (Err(_), Err(_)) => true,
        _ => false,
    }
}

/// run every pattern except `di` in the order given by `perm_seed`, then `di`; returns all results
fn history_run(dets: &[Det], src: &str, di: usize, perm_seed: u64) -> Vec<(usize, Lines)> {
    let mut others: Vec<usize> = (0..dets.len()).filter(|j| *j != di).collect();
    Rng::new(perm_seed).shuffle(&mut others);
    let mut out = vec![];
    for j in others {
        out.push((j, analyze(&dets[j], src, 0)));
    }
    out.push((di, analyze(&dets[di], src, 0)));
    out
}

/// THREADS threads, released together, each running all patterns on `src` in its own seeded order
/// (interleaved with calls on `other`, a different file content)
fn threads_run(dets: &[Det], src: &str, other: &str, seed: u64) -> Vec<Vec<(usize, Lines)>> {
    let barrier = Barrier::new(THREADS);
    std::thread::scope(|s| {
        let mut hs = vec![];
        for t in 0..THREADS {
            let b = &barrier;
            let h = std::thread::Builder::new()
                .stack_size(32 << 20)
                .spawn_scoped(s, move || {
                    let mut order: Vec<usize> = (0..dets.len()).collect();
                    Rng::new(seed.wrapping_add(t as u64 * 0x9E37)).shuffle(&mut order);
                    b.wait();
                    let mut out = vec![];
                    for &di in &order {
                        out.push((di, analyze(&dets[di], src, 0)));
                        if !other.is_empty() {
                            let _ = analyze(&dets[(di + t) % dets.len()], other, t);
                        }
                    }
                    out
                })
                .expect("cannot spawn thread");
            hs.push(h);
        }
        hs.into_iter().map(|h| h.join().unwrap_or_default()).collect()
    })
}

fn encode_lines(l: &Lines) -> String {
    match l {
        Ok(s) => format!("OK {}", s.iter().map(|x| x.to_string()).collect::<Vec<_>>().join(",")),
        Err(m) => format!("PANIC {}", m.replace('\n', " ")),
    }
}

fn decode_lines(s: &str) -> Option<Lines> {
    let s = s.trim();
    if let Some(rest) = s.strip_prefix("OK") {
        let mut set = BTreeSet::new();
        for p in rest.trim().split(',') {
            if p.is_empty() {
                continue;
            }
            set.insert(p.parse::<i32>().ok()?);
        }
        Some(Ok(set))
    } else {
        s.strip_prefix("PANIC").map(|m| Err(m.trim().to_string()))
    }
}

/// the same (content, pattern) analysed as the only thing a fresh process ever does
fn fresh_process(src: &str, det: &str) -> Option<Lines> {
    if src.len() > 60_000 || src.contains('\0') {
        return None;
    }
    let exe = std::env::current_exe().ok()?;
    let out = std::process::Command::new(exe).arg("c15-alone").arg(format!("@src:{}", src)).arg(det).output().ok()?;
    let txt = String::from_utf8_lossy(&out.stdout).to_string();
    decode_lines(txt.lines().last()?)
}

fn c15_mis(order: usize, p: &Prog, kind: &str, det: &'static str, what: String, replay_tail: Vec<String>, expected: &Lines, actual: &Lines) -> Mis {
    let mut replay = vec!["c15-case".to_string(), kind.to_string(), format!("@src:{}", p.src), det.to_string()];
    replay.extend(replay_tail);
    let group = match kind {
        "repeat" => "c15:not-repeatable",
        "file-number" => "c15:depends-on-file-number",
        "history" => "c15:depends-on-history",
        "threads" | "deep-threads" => "c15:threads-differ",
        _ => "c15:fresh-process-differs",
    };
    Mis {
        group: group.to_string(),
        suffix: String::new(),
        det,
        order,
        prog: p.tag.clone(),
        what: format!("{} on {}: {}", det, p.tag, what),
        replay,
        expected: fmt_lines(expected),
        actual: fmt_lines(actual),
    }
}

const DEEP_THREADS: [usize; 2] = [24, 32];

/// deeply nested programs (every nesting level on its own line): findings at the innermost level and after the nest
fn deep_programs() -> Vec<Prog> {
    let inner = "if (x >= y) { s0 = x * 2; ++x; token.transfer(a0[0], 1); }";
    let after = "x = y * 2;\n        if (y >= x) { s0 = y; y++; token.transfer(a0[0], 2); }";
    let mut v = vec![];
    // 1. nested ifs
    let d = 48;
    let mut s = String::new();
    for i in 0..d {
        s.push_str(&format!("{}if (x > {}) {{\n", " ".repeat(8 + i % 8), i));
    }
    s.push_str(inner);
    s.push('\n');
    for _ in 0..d {
        s.push_str("}\n");
    }
    s.push_str(after);
    v.push(Prog { src: gen::file_with_stmt(&s), tag: format!("deep-if-{}", d) });
    // 2. nested blocks and loops
    let d = 56;
    let mut s = String::new();
    let mut closers: Vec<String> = vec![];
    for i in 0..d {
        let (o, c) = match i % 5 {
            0 => ("{".to_string(), "}".to_string()),
            1 => (format!("while (x > {}) {{", i), "}".to_string()),
            2 => (format!("for (uint i{} = 0; i{} < 2; i{}++) {{", i, i, i), "}".to_string()),
            3 => ("unchecked {".to_string(), "}".to_string()),
            _ => ("do {".to_string(), format!("}} while (y > {});", i)),
        };
        s.push_str(&o);
        s.push('\n');
        closers.push(c);
    }
    s.push_str(inner);
    s.push('\n');
    while let Some(c) = closers.pop() {
        s.push_str(&c);
        s.push('\n');
    }
    s.push_str(after);
    v.push(Prog { src: gen::file_with_stmt(&s), tag: format!("deep-blocks-loops-{}", d) });
    // 3. nested parenthesised binary expressions, one level per line
    let d = 60;
    let mut s = String::from("uint z =\n");
    for _ in 0..d {
        s.push_str("(\n");
    }
    s.push_str("x * 2\n");
    for i in 0..d {
        s.push_str(match i % 4 {
            0 => "+ 1)\n",
            1 => "* 2)\n",
            2 => "- y)\n",
            _ => "/ 4)\n",
        });
    }
    s.push_str(";\n");
    s.push_str("z;\n");
    s.push_str(after);
    v.push(Prog { src: gen::file_with_stmt(&s), tag: format!("deep-expr-{}", d) });
    // 4. mixed: if / else chains with a nested expression in each condition
    let d = 40;
    let mut s = String::new();
    for i in 0..d {
        s.push_str(&format!("if (((x + {}) * 2) >= y) {{\n s0 = x;\n}} else {{\n", i));
    }
    s.push_str(inner);
    s.push('\n');
    for _ in 0..d {
        s.push_str("}\n");
    }
    s.push_str(after);
    v.push(Prog { src: gen::file_with_stmt(&s), tag: format!("deep-if-else-{}", d) });
    v
}

/// `nthreads` threads released together; thread t walks all files starting at file t % n (so the same and different
/// files are analysed simultaneously), each with all patterns in its own seeded order. Returns (file, pattern, lines).
fn deep_threads_run(dets: &[Det], files: &[&str], nthreads: usize, seed: u64) -> Vec<Vec<(usize, usize, Lines)>> {
    let barrier = Barrier::new(nthreads);
    std::thread::scope(|s| {
        let mut hs = vec![];
        for t in 0..nthreads {
            let b = &barrier;
            let h = std::thread::Builder::new()
                .stack_size(64 << 20)
                .spawn_scoped(s, move || {
                    let mut order: Vec<usize> = (0..dets.len()).collect();
                    Rng::new(seed.wrapping_add(t as u64 * 0x9E37)).shuffle(&mut order);
                    b.wait();
                    let mut out = vec![];
                    for k in 0..files.len() {
                        let fi = (t + k) % files.len();
                        for &di in &order {
                            out.push((fi, di, analyze(&dets[di], files[fi], 0)));
                        }
                    }
                    out
                })
                .expect("cannot spawn thread");
            hs.push(h);
        }
        hs.into_iter().map(|h| h.join().unwrap_or_default()).collect()
    })
}

/// Two texts of EQUAL byte length with different line structure before their findings: A gets 3 blank lines in
/// front and no trailing newline, B no leading and 3 trailing newlines; the shorter one is padded at the very end
/// (spaces, or a `//ppp` comment) so that only the tail differs.
fn equal_length_pair(p: &str, q: &str, comment_pad: bool) -> (String, String) {
    let mut a = format!("\n\n\n{}", p.trim_end());
    let mut b = format!("{}\n\n\n", q.trim_end());
    let pad = |s: &mut String, k: usize| {
        if comment_pad && k >= 2 {
            s.push_str("//");
            s.push_str(&"p".repeat(k - 2));
        } else {
            s.push_str(&" ".repeat(k));
        }
    };
    if a.len() < b.len() {
        let k = b.len() - a.len();
        pad(&mut a, k);
    } else if b.len() < a.len() {
        let k = a.len() - b.len();
        pad(&mut b, k);
    }
    (a, b)
}

/// Analyse every pattern on a sequence of texts that all live, one after the other, in ONE String buffer
/// (same allocation, same pointer, equal lengths). Returns None if the buffer moved (cannot happen with the
/// capacity reserved up front; checked all the same), else per step the results of all patterns.
fn same_buffer_run(dets: &[Det], seq: &[&str]) -> Option<Vec<Vec<Lines>>> {
    let cap = seq.iter().map(|s| s.len()).max().unwrap_or(0) + 64;
    let mut buf = String::with_capacity(cap);
    buf.push_str(seq[0]);
    let ptr0 = buf.as_ptr();
    let mut out = vec![];
    for (i, text) in seq.iter().enumerate() {
        if i > 0 {
            buf.clear();
            buf.push_str(text);
        }
        if buf.as_ptr() != ptr0 {
            return None;
        }
        out.push(dets.iter().map(|d| analyze(d, buf.as_str(), 0)).collect());
    }
    Some(out)
}

/// the three orders of the same-buffer stage: (label, sequence of 0 = A / 1 = B)
const SAME_BUFFER_ORDERS: [(&str, &[usize]); 3] = [("A,B", &[0, 1]), ("B,A", &[1, 0]), ("A,B,A", &[0, 1, 0])];

/// Returns the mismatches of one pair: (order label, step, which text, detector index, got)
fn same_buffer_pair(dets: &[Det], a: &str, b: &str, refs: &[Vec<Lines>; 2], evals: &mut u64, moved: &mut u64) -> Vec<(&'static str, usize, usize, usize, Lines)> {
    let texts = [a, b];
    let mut bad = vec![];
    for (label, order) in SAME_BUFFER_ORDERS {
        let seq: Vec<&str> = order.iter().map(|w| texts[*w]).collect();
        match same_buffer_run(dets, &seq) {
            None => *moved += 1,
            Some(res) => {
                for (step, per_det) in res.into_iter().enumerate() {
                    let w = order[step];
                    for (di, g) in per_det.into_iter().enumerate() {
                        if refs[w][di].is_err() {
                            continue;
                        }
                        *evals += 1;
                        if !same(&g, &refs[w][di]) {
                            bad.push((label, step, w, di, g));
                        }
                    }
                }
            }
        }
    }
    bad
}

// ---- other-file history: a DIFFERENT file is analysed first, then the file under test ----

/// headers of the version-sensitive pool (name, text); the two without `pragma solidity` come first so that their
/// in-process references are computed before any version was seen by this process
const OFH_HEADERS: [(&str, &str); 6] = [
    ("no pragma", ""),
    ("only pragma experimental ABIEncoderV2", "pragma experimental ABIEncoderV2;\n"),
    ("pragma solidity 0.7.6", "pragma solidity 0.7.6;\n"),
    ("pragma solidity 0.8.3", "pragma solidity 0.8.3;\n"),
    ("pragma solidity 0.8.4", "pragma solidity 0.8.4;\n"),
    ("pragma solidity ^0.8.17", "pragma solidity ^0.8.17;\n"),
];

/// version-sensitive bodies: SafeMath calls (safe_math_pre_080 / safe_math_post_080) and `require` with a 31-byte and
/// a 33-byte message (string_errors / short_revert_string); the verdict of the four detectors depends on the version
fn ofh_bodies() -> Vec<(&'static str, String)> {
    let s31 = "reason of thirty-one bytes 4567";
    let s33 = "reason of thirty-three bytes 4567";
    assert!(s31.len() == 31 && s33.len() == 33);
    vec![
        (
            "safemath-require",
            format!(
                "library SafeMath {{\n    function add(uint a, uint b) internal pure returns (uint) {{\n        return a + b;\n    }}\n    function sub(uint a, uint b) internal pure returns (uint) {{\n        return a - b;\n    }}\n}}\n\ncontract V0 {{\n    using SafeMath for uint;\n    uint total;\n\n    function f0(uint a, uint b) public returns (uint) {{\n        require(a > 0, \"{}\");\n        require(b > 0, \"{}\");\n        total = a.add(b);\n        return total.sub(1);\n    }}\n}}\n",
                s31, s33
            ),
        ),
        (
            // the same kinds of constructs on other lines, library after the contract
            "safemath-require-2",
            format!(
                "\n\ncontract W0 {{\n    using SafeMath for uint256;\n    uint acc;\n    function g1(uint p, uint q) external returns (uint) {{\n        require(p != q,\n            \"{}\");\n        acc = p.mul(q).div(2);\n\n        require(acc > 1, \"{}\");\n        return acc;\n    }}\n}}\nlibrary SafeMath {{\n    function mul(uint a, uint b) internal pure returns (uint) {{ return a * b; }}\n    function div(uint a, uint b) internal pure returns (uint) {{ return a / b; }}\n}}\n",
                s33, s31
            ),
        ),
        (
            // calls named like SafeMath's but NO `using SafeMath`, no message strings: nothing to report at any version
            // unless the facts `uses SafeMath` / `has a long message` are left behind by another file
            "add-without-using-safemath",
            "library Other {\n    function add(uint a, uint b) internal pure returns (uint) {\n        return a + b;\n    }\n}\n\ncontract U0 {\n    using Other for uint;\n    uint total;\n\n    function f0(uint a, uint b) public returns (uint) {\n        require(a > 0);\n        total = a.add(b);\n        return total;\n    }\n}\n".to_string(),
        ),
    ]
}

struct OfhProg {
    tag: String,
    /// what names the compiler version in this file (the fact another file could leave behind)
    header: String,
    src: String,
}

fn ofh_header_of(src: &str) -> String {
    match src.find("pragma solidity") {
        Some(i) => format!("pragma solidity {}", src[i + 15..].split(';').next().unwrap_or("").trim()),
        None => {
            if src.contains("pragma ") {
                "only another pragma".to_string()
            } else {
                "no pragma".to_string()
            }
        }
    }
}

/// the pool: version-sensitive programs (body x header) plus a few programs of the corpus
fn ofh_pool(thorough: bool, progs: &[Prog], seed: u64) -> (Vec<OfhProg>, Vec<String>) {
    let bodies = ofh_bodies();
    let mut pool = vec![];
    for (hi, (hname, htext)) in OFH_HEADERS.iter().enumerate() {
        for (bi, (bname, btext)) in bodies.iter().enumerate() {
            // quick: body 0 with every header, bodies 1 and 2 with 0.8.4
            // thorough: bodies 0 and 1 with every header, body 2 with 0.7.6, 0.8.4 and ^0.8.17
            let take = match bi {
                0 => true,
                1 => thorough || hi == 4,
                _ => hi == 4 || (thorough && (hi == 2 || hi == 5)),
            };
            if take {
                pool.push(OfhProg { tag: format!("{} + {}", hname, bname), header: hname.to_string(), src: format!("{}{}", htext, btext) });
            }
        }
    }
    // corpus programs: fixed ones (a `require` with a message, a state write, the 0.4 file that uses SafeMath) and seeded ones
    let fixed: &[&str] = if thorough { &["require@stmt-expr", "sstore@stmt-expr", "sink-old", "transfer@stmt-expr", "arrupd@stmt-expr"] } else { &["require@stmt-expr", "sink-old"] };
    let mut chosen: Vec<&Prog> = vec![];
    for t in fixed {
        if let Some(p) = progs.iter().find(|p| p.tag == *t) {
            chosen.push(p);
        }
    }
    let mut rng = Rng::new(seed ^ 0x0F11_E5);
    let extra = if thorough { 3 } else { 0 };
    let mut tries = 0;
    while chosen.len() < fixed.len() + extra && tries < 200 && !progs.is_empty() {
        tries += 1;
        let p = rng.pick(progs);
        if p.src.len() < 4000 && !chosen.iter().any(|c| c.tag == p.tag) {
            chosen.push(p);
        }
    }
    for p in chosen {
        pool.push(OfhProg { tag: format!("corpus {}", p.tag), header: ofh_header_of(&p.src), src: p.src.clone() });
    }
    // only programs that parse take part
    let mut parse_fail = vec![];
    pool.retain(|p| {
        let ok = solang_parser::parse(&p.src, 0).is_ok();
        if !ok {
            parse_fail.push(format!("other-file-history: {}", p.tag));
        }
        ok
    });
    (pool, parse_fail)
}

/// every ordered pair (index of A, index of B) of different texts
fn ofh_pairs(pool: &[OfhProg]) -> Vec<(usize, usize)> {
    let mut v = vec![];
    for ia in 0..pool.len() {
        for ib in 0..pool.len() {
            if ia != ib && pool[ia].src != pool[ib].src {
                v.push((ia, ib));
            }
        }
    }
    v
}

const OFH_CONTEXTS: usize = 3;
const OFH_CONTEXT_NAMES: [&str; OFH_CONTEXTS] = ["directly after A (order A,B)", "second time in the order A,B,A,B", "after A with file number 1, B with file number 2"];

/// The contexts of one case (A, B, pattern), all in the calling thread: A with ALL patterns and immediately afterwards
/// B with pattern `di`; the same once more (order A,B,A,B); then A with file number 1 and B with file number 2 (all
/// three `analyze_for_*` entry points are used on A every time). Returns B's lines in each context.
fn ofh_run(dets: &[Det], a: &str, b: &str, di: usize) -> Vec<Lines> {
    let all = |file_no: usize| {
        for d in dets {
            let _ = analyze(d, a, file_no);
        }
    };
    let mut out = vec![];
    all(0);
    out.push(analyze(&dets[di], b, 0));
    all(0);
    out.push(analyze(&dets[di], b, 0));
    all(1);
    out.push(analyze(&dets[di], b, 2));
    out
}

/// one ordered pair: the cases (A, B, pattern) for every pattern, one after the other; result[pattern][context]
fn ofh_pair(dets: &[Det], a: &str, b: &str) -> Vec<Vec<Lines>> {
    (0..dets.len()).map(|di| ofh_run(dets, a, b, di)).collect()
}

/// `c15-ofh-worker <text A> <text B>`: a single-threaded process that analyses nothing but this ordered pair
fn ofh_worker(rest: &[String]) -> i32 {
    silence();
    if rest.len() < 2 {
        return 2;
    }
    let a = crate::arg_or_file(&rest[0]);
    let b = crate::arg_or_file(&rest[1]);
    let dets = detectors();
    let mut txt = String::new();
    for (di, per_ctx) in ofh_pair(&dets, &a, &b).into_iter().enumerate() {
        for (ci, g) in per_ctx.into_iter().enumerate() {
            txt.push_str(&format!("{} {} {}\n", di, ci, encode_lines(&g)));
        }
    }
    txt.push_str("done\n");
    print!("{}", txt);
    0
}

/// one ordered pair analysed by a worker process; None if the process cannot be started or its output is not complete
fn ofh_pair_in_worker(a: &str, b: &str, nd: usize) -> Option<Vec<Vec<Lines>>> {
    if a.len() + b.len() > 60_000 || a.contains('\0') || b.contains('\0') {
        return None;
    }
    let exe = std::env::current_exe().ok()?;
    let out = std::process::Command::new(exe).arg("c15-ofh-worker").arg(format!("@src:{}", a)).arg(format!("@src:{}", b)).output().ok()?;
    if !out.status.success() {
        return None;
    }
    let txt = String::from_utf8_lossy(&out.stdout).to_string();
    let mut res: Vec<Vec<Lines>> = (0..nd).map(|_| vec![]).collect();
    let mut done = false;
    for line in txt.lines() {
        if line == "done" {
            done = true;
            continue;
        }
        let mut it = line.splitn(3, ' ');
        let di = it.next()?.parse::<usize>().ok()?;
        let ci = it.next()?.parse::<usize>().ok()?;
        let g = decode_lines(it.next()?)?;
        if di >= nd || ci != res[di].len() {
            return None;
        }
        res[di].push(g);
    }
    if done && res.iter().all(|v| v.len() == OFH_CONTEXTS) {
        Some(res)
    } else {
        None
    }
}

fn ofh_replay_argv(a: &str, b: &str, det: &str) -> Vec<String> {
    vec!["c15-case".into(), "other-file-history".into(), format!("@src:{}", a), format!("@src:{}", b), det.to_string()]
}

/// runs the replay of a case in a process of its own: Some(true) = it reports the violation, Some(false) = it holds
fn ofh_replay_reproduces(argv: &[String]) -> Option<bool> {
    let exe = std::env::current_exe().ok()?;
    let out = std::process::Command::new(exe).args(argv).output().ok()?;
    match out.status.code() {
        Some(1) => Some(true),
        Some(0) => Some(false),
        _ => None,
    }
}

const OFH_GROUP: &str = "c15:other-file-history";
/// at most this many mismatches are re-run through their replay command while the check runs (only a tree with a
/// defect has any)
const OFH_VERIFY_CAP: usize = 60;

#[derive(Default)]
struct OfhOut {
    mis: Vec<Mis>,
    evals: u64,
    nontrivial: Vec<String>,
    pool: usize,
    pairs: u64,
    cmp_pairs: u64,
    cmp_refs: u64,
    fresh_refs: u64,
    inproc_refs: u64,
    skipped_panics: u64,
    parse_fail: Vec<String>,
    sample: Option<J>,
    pairs_in_process: usize,
}

/// MUST run before anything else is analysed by this process: the in-process references are first evaluations.
/// Reference of (B, pattern) = B analysed by a fresh process that does nothing else; where no process can be started,
/// the first in-process evaluation (programs without `pragma solidity` first).
/// Every ordered pair is analysed by a single-threaded process of its own, so a difference can only come from the
/// two files of the pair; pairs whose process cannot be started are run in this process afterwards.
fn ofh_stage(dets: &[Det], pool: Vec<OfhProg>, parse_fail: Vec<String>, order_base: usize) -> OfhOut {
    let mut o = OfhOut::default();
    o.parse_fail = parse_fail;
    o.pool = pool.len();
    let nd = dets.len();
    let pairs = ofh_pairs(&pool);
    o.pairs = pairs.len() as u64;
    // fresh-process references and the pair processes (nothing of it happens in this process)
    let jobs: Vec<(usize, usize)> = (0..pool.len()).flat_map(|k| (0..nd).map(move |di| (k, di))).collect();
    let fresh: Vec<Option<Lines>> = par_map(&jobs, |_, (k, di)| fresh_process(&pool[*k].src, dets[*di].name));
    let from_workers: Vec<Option<Vec<Vec<Lines>>>> = par_map(&pairs, |_, (ia, ib)| ofh_pair_in_worker(&pool[*ia].src, &pool[*ib].src, nd));
    let mut verified = 0usize;
    // the in-process first evaluations, then the references
    let mut refs: Vec<Vec<Lines>> = vec![];
    for (k, p) in pool.iter().enumerate() {
        let inproc: Vec<Lines> = dets.iter().map(|d| analyze(d, &p.src, 0)).collect();
        let mut row = vec![];
        for (di, first) in inproc.into_iter().enumerate() {
            match &fresh[k * nd + di] {
                Some(f) => {
                    o.fresh_refs += 1;
                    if f.is_ok() {
                        // the first evaluation in this process comes after pool[..k] (all patterns each) only
                        o.evals += 1;
                        o.cmp_refs += 1;
                        if !same(&first, f) {
                            // which earlier program is enough on its own? (the last one first)
                            let mut culprit: Option<usize> = None;
                            for j in (0..k).rev() {
                                if verified >= OFH_VERIFY_CAP {
                                    break;
                                }
                                verified += 1;
                                if ofh_replay_reproduces(&ofh_replay_argv(&pool[j].src, &p.src, dets[di].name)) == Some(true) {
                                    culprit = Some(j);
                                    break;
                                }
                            }
                            let prev = &pool[culprit.unwrap_or(k.saturating_sub(1))];
                            o.mis.push(Mis {
                                group: OFH_GROUP.to_string(),
                                suffix: String::new(),
                                det: dets[di].name,
                                order: order_base + 1_000_000 + k,
                                prog: p.tag.clone(),
                                what: format!(
                                    "{} on B = [{}] (header: {}): the first evaluation in this process, made after {} other pool program(s) had been analysed with all patterns, differs from a fresh process that analyses only B; {} A = [{}] (header: {})",
                                    dets[di].name,
                                    p.tag,
                                    p.header,
                                    k,
                                    if culprit.is_some() { "the replay reproduces it with" } else { "NOT reproduced with a single earlier program by the replay; the last one was" },
                                    prev.tag,
                                    prev.header
                                ),
                                replay: ofh_replay_argv(&prev.src, &p.src, dets[di].name),
                                expected: fmt_lines(f),
                                actual: fmt_lines(&first),
                            });
                        }
                    }
                    row.push(f.clone());
                }
                None => {
                    o.inproc_refs += 1;
                    row.push(first);
                }
            }
        }
        refs.push(row);
    }
    // ordered pairs
    for (k, ((ia, ib), res)) in pairs.iter().zip(from_workers.into_iter()).enumerate() {
        let (a, b) = (&pool[*ia], &pool[*ib]);
        let (res, own_process) = match res {
            Some(v) => (v, true),
            None => {
                o.pairs_in_process += 1;
                (ofh_pair(dets, &a.src, &b.src), false)
            }
        };
        for (di, per_ctx) in res.into_iter().enumerate() {
            let want = &refs[*ib][di];
            let wb = match want {
                Ok(w) => w,
                Err(_) => {
                    o.skipped_panics += 1;
                    continue;
                }
            };
            let on_a = matches!(&refs[*ia][di], Ok(x) if !x.is_empty());
            if a.header != b.header && (on_a || !wb.is_empty()) {
                o.nontrivial.push(format!("other-file|{}|{}|{}", a.tag, b.tag, dets[di].name));
                if o.sample.is_none() && !wb.is_empty() && a.header.starts_with("pragma solidity") && b.header == "no pragma" {
                    o.sample = Some(J::obj(vec![
                        ("stage", J::s("other-file history")),
                        ("A", J::s(a.tag.clone())),
                        ("B", J::s(b.tag.clone())),
                        ("detector", J::s(dets[di].name)),
                        ("lines_of_B", J::s(fmt_lines(want))),
                    ]));
                }
            }
            let mut reported = false;
            for (ci, g) in per_ctx.into_iter().enumerate() {
                o.evals += 1;
                o.cmp_pairs += 1;
                if same(&g, want) || reported {
                    continue;
                }
                reported = true;
                // the replay runs this one case in a fresh process; when it does not show the difference, the difference
                // needs the earlier cases of the pair as well (other patterns on the same two files): replay the sequence
                let mut replay = ofh_replay_argv(&a.src, &b.src, dets[di].name);
                let mut note = "";
                if verified < OFH_VERIFY_CAP {
                    verified += 1;
                    if ofh_replay_reproduces(&replay) == Some(false) {
                        replay.push("pair-sequence".into());
                        note = if own_process {
                            "; seen only after the cases of the earlier patterns had been run on the same two files in the same process (replay with `pair-sequence`)"
                        } else {
                            "; NOT seen by the single-case replay: no worker process could be started for this pair, so other pool programs had been analysed in this process before"
                        };
                    }
                }
                o.mis.push(Mis {
                    group: OFH_GROUP.to_string(),
                    suffix: String::new(),
                    det: dets[di].name,
                    order: order_base + k,
                    prog: format!("[{}] then [{}]", a.tag, b.tag),
                    what: format!(
                        "{} on B = [{}] (header: {}) reports other lines when A = [{}] (header: {}) was analysed with all patterns first in the same thread ({}) than when B is analysed on its own{}",
                        dets[di].name,
                        b.tag,
                        b.header,
                        a.tag,
                        a.header,
                        OFH_CONTEXT_NAMES.get(ci).copied().unwrap_or("?"),
                        note
                    ),
                    replay,
                    expected: fmt_lines(want),
                    actual: fmt_lines(&g),
                });
            }
        }
    }
    o
}

pub fn run_c15(tier: &str, seed: u64) -> CheckResult {
    silence();
    let thorough = tier == "thorough";
    let mut r = CheckResult::new("c15");
    let dets = detectors();
    let nd = dets.len();
    let mut rng = Rng::new(seed);
    let progs = corpus(if thorough { 24 } else { 6 }, false, &mut rng);
    // (vi) other-file history: FIRST, while this process has analysed nothing yet
    let ofh_t0 = std::time::Instant::now();
    let (ofh_programs, ofh_parse_fail) = ofh_pool(thorough, &progs, seed);
    let ofh = ofh_stage(&dets, ofh_programs, ofh_parse_fail, progs.len() + 100);
    if std::env::var("VXN_TIMING").is_ok() {
        eprintln!("c15 other-file history: {} ms", ofh_t0.elapsed().as_millis());
    }
    let rounds: u64 = if thorough { 2 } else { 1 };
    let fresh_every = if thorough { 4 } else { 8 };
    let mut skipped_panics = 0u64;
    let mut parse_fail = vec![];
    let mut counts = [0u64; 5]; // repeat, file-number, history, threads, fresh
    let mut fresh_jobs: Vec<(usize, usize)> = vec![];
    let mut baselines: Vec<Option<Vec<Lines>>> = vec![];
    let mut prev_src = String::new();
    let mut mis: Vec<Mis> = vec![];
    // results of the other-file-history stage (it ran first, see above)
    r.evaluations += ofh.evals;
    for n in &ofh.nontrivial {
        r.nontrivial.insert(n.clone());
    }
    skipped_panics += ofh.skipped_panics;
    parse_fail.extend(ofh.parse_fail.iter().cloned());
    mis.extend(ofh.mis);

    for (pi, p) in progs.iter().enumerate() {
        if solang_parser::parse(&p.src, 0).is_err() {
            parse_fail.push(p.tag.clone());
            baselines.push(None);
            continue;
        }
        // (i) reference: the first evaluation of (content, pattern) in this process
        let base: Vec<Lines> = dets.iter().map(|d| analyze(d, &p.src, 0)).collect();
        for (di, d) in dets.iter().enumerate() {
            match &base[di] {
                Err(_) => skipped_panics += 1,
                Ok(l) => {
                    if !l.is_empty() {
                        r.nontrivial.insert(format!("{}|{}", p.tag, d.name));
                        if r.samples.len() < 3 && d.name != "solidity_math" {
                            r.sample(J::obj(vec![("program", J::s(p.tag.clone())), ("detector", J::s(d.name)), ("lines", J::s(fmt_lines(&base[di])))]));
                        }
                    }
                }
            }
        }
        let report = |mis: &mut Vec<Mis>, kind: &str, di: usize, what: String, replay_tail: Vec<String>, got: &Lines| {
            mis.push(c15_mis(pi, p, kind, dets[di].name, what, replay_tail, &base[di], got));
        };
        // (iii) repeated: three evaluations in a row give the same lines
        for di in 0..nd {
            if base[di].is_err() {
                continue;
            }
            for k in 0..2 {
                let g = analyze(&dets[di], &p.src, 0);
                r.evaluations += 1;
                counts[0] += 1;
                if !same(&g, &base[di]) {
                    report(&mut mis, "repeat", di, format!("repetition {} differs from the first evaluation", k + 2), vec![], &g);
                }
            }
        }
        // (iv) file_number
        for di in 0..nd {
            if base[di].is_err() {
                continue;
            }
            for fno in &FILE_NUMBERS[1..] {
                let g = analyze(&dets[di], &p.src, *fno);
                r.evaluations += 1;
                counts[1] += 1;
                if !same(&g, &base[di]) {
                    // really the file number? the same call once more must differ again and file_number 0 must still agree
                    let again = analyze(&dets[di], &p.src, *fno);
                    let zero = analyze(&dets[di], &p.src, 0);
                    if same(&again, &g) && same(&zero, &base[di]) {
                        report(&mut mis, "file-number", di, format!("file_number {} gives other lines than file_number 0", fno), vec![], &g);
                    } else {
                        report(&mut mis, "repeat", di, format!("evaluations with file_number {} and 0 are not repeatable", fno), vec![], &g);
                    }
                }
            }
        }
        // (ii) history: after the 29 other patterns in a seeded order
        for round in 0..rounds {
            for di in 0..nd {
                let perm_seed = seed.wrapping_mul(1_000_003).wrapping_add((pi * nd + di) as u64 * 7 + round);
                for (j, g) in history_run(&dets, &p.src, di, perm_seed) {
                    if base[j].is_err() {
                        continue;
                    }
                    r.evaluations += 1;
                    counts[2] += 1;
                    if !same(&g, &base[j]) {
                        report(
                            &mut mis,
                            "history",
                            j,
                            format!("differs after other patterns were run first (order seed {}, target {})", perm_seed, dets[di].name),
                            vec![perm_seed.to_string(), dets[di].name.to_string()],
                            &g,
                        );
                    }
                }
            }
        }
        // (v) concurrent callers
        let tseed = seed.wrapping_mul(31).wrapping_add(pi as u64);
        for (t, res) in threads_run(&dets, &p.src, &prev_src, tseed).into_iter().enumerate() {
            if res.len() != nd {
                r.violate("c15:thread-died", &format!("thread {} did not finish on {}", t, p.tag), vec!["c15-case".into(), "threads".into(), format!("@src:{}", p.src), dets[0].name.into(), tseed.to_string()], "30 results".into(), format!("{} results", res.len()));
            }
            for (di, g) in res {
                if base[di].is_err() {
                    continue;
                }
                r.evaluations += 1;
                counts[3] += 1;
                if !same(&g, &base[di]) {
                    report(&mut mis, "threads", di, format!("thread {} of {} concurrent callers got other lines", t, THREADS), vec![tseed.to_string()], &g);
                }
            }
        }
        if pi % fresh_every == 0 {
            for di in 0..nd {
                fresh_jobs.push((pi, di));
            }
        }
        prev_src = p.src.clone();
        baselines.push(Some(base));
    }
    // (i') truly alone: one fresh process per (content, pattern), compared with the in-process reference
    let fresh = par_map(&fresh_jobs, |_, (pi, di)| fresh_process(&progs[*pi].src, dets[*di].name));
    let mut fresh_unavailable = 0u64;
    for ((pi, di), f) in fresh_jobs.iter().zip(fresh.into_iter()) {
        let base = match &baselines[*pi] {
            Some(b) => b,
            None => continue,
        };
        match f {
            None => fresh_unavailable += 1,
            Some(g) => {
                r.evaluations += 1;
                counts[4] += 1;
                if !same(&g, &base[*di]) {
                    let p = &progs[*pi];
                    mis.push(c15_mis(
                        *pi,
                        p,
                        "fresh",
                        dets[*di].name,
                        "a fresh process that analyses nothing else reports other lines (expected) than this process did (actual)".into(),
                        vec![],
                        &g,
                        &base[*di],
                    ));
                }
            }
        }
    }
    // (v') deeply nested files, many concurrent callers: every thread's result against the single-threaded reference
    let deep = deep_programs();
    let deep_rounds: usize = if thorough { 30 } else { 10 };
    let mut deep_cmp = 0u64;
    let mut deep_refs: Vec<Vec<Lines>> = vec![];
    let mut deep_ok: Vec<&Prog> = vec![];
    for p in &deep {
        if solang_parser::parse(&p.src, 0).is_err() {
            parse_fail.push(p.tag.clone());
            continue;
        }
        let base: Vec<Lines> = dets.iter().map(|d| analyze(d, &p.src, 0)).collect();
        for (di, d) in dets.iter().enumerate() {
            match &base[di] {
                Err(_) => skipped_panics += 1,
                Ok(l) if !l.is_empty() => {
                    r.nontrivial.insert(format!("{}|{}", p.tag, d.name));
                }
                _ => {}
            }
        }
        deep_refs.push(base);
        deep_ok.push(p);
    }
    if !deep_ok.is_empty() {
        let files: Vec<&str> = deep_ok.iter().map(|p| p.src.as_str()).collect();
        for nthreads in DEEP_THREADS {
            for round in 0..deep_rounds {
                let dseed = seed.wrapping_mul(977).wrapping_add((nthreads * 1000 + round) as u64);
                for (t, res) in deep_threads_run(&dets, &files, nthreads, dseed).into_iter().enumerate() {
                    for (fi, di, g) in res {
                        if deep_refs[fi][di].is_err() {
                            continue;
                        }
                        r.evaluations += 1;
                        deep_cmp += 1;
                        if !same(&g, &deep_refs[fi][di]) {
                            mis.push(c15_mis(
                                progs.len() + fi,
                                deep_ok[fi],
                                "deep-threads",
                                dets[di].name,
                                format!(
                                    "thread {} of {} concurrent callers (all analysing deeply nested files) got other lines than the single-threaded reference (round {})",
                                    t, nthreads, round
                                ),
                                vec![dseed.to_string(), nthreads.to_string()],
                                &deep_refs[fi][di],
                                &g,
                            ));
                        }
                    }
                }
            }
        }
        r.sample(J::obj(vec![
            ("program", J::s(deep_ok[0].tag.clone())),
            ("bytes", J::Num(deep_ok[0].src.len() as i64)),
            ("optimal_comparison_lines", J::s(det_by_name(&dets, "optimal_comparison").map(|i| fmt_lines(&deep_refs[0][i])).unwrap_or_default())),
        ]));
    }
    // (ii') same-buffer history: two different files of equal byte length analysed one after the other from the
    // SAME memory (one String buffer, pointer asserted unchanged), in one thread, through all three analyze_for_*
    let mut sb_pairs = 0u64;
    let mut sb_cmp = 0u64;
    let mut sb_moved = 0u64;
    {
        let usable: Vec<&Prog> = progs.iter().zip(baselines.iter()).filter(|(_, b)| b.is_some()).map(|(p, _)| p).collect();
        let mut pairs: Vec<(String, String, String)> = vec![];
        let step = if thorough { 1 } else { 3 };
        let mut i = 0;
        while i < usable.len() {
            // the same program in two line layouts of equal length, and two different programs padded to equal length
            let (a, b) = equal_length_pair(&usable[i].src, &usable[i].src, false);
            pairs.push((format!("{} / {}", usable[i].tag, usable[i].tag), a, b));
            if i + 1 < usable.len() {
                let (a, b) = equal_length_pair(&usable[i].src, &usable[i + 1].src, i % 2 == 0);
                pairs.push((format!("{} / {}", usable[i].tag, usable[i + 1].tag), a, b));
            }
            i += step;
        }
        for (tag, a, b) in &pairs {
            if a.len() != b.len() || a == b || solang_parser::parse(a, 0).is_err() || solang_parser::parse(b, 0).is_err() {
                continue;
            }
            // single-shot references, each text in its own allocation (both alive: the pointers differ)
            let refs: [Vec<Lines>; 2] = [dets.iter().map(|d| analyze(d, a, 0)).collect(), dets.iter().map(|d| analyze(d, b, 0)).collect()];
            sb_pairs += 1;
            for (di, d) in dets.iter().enumerate() {
                if let (Ok(x), Ok(y)) = (&refs[0][di], &refs[1][di]) {
                    if x != y && (!x.is_empty() || !y.is_empty()) {
                        r.nontrivial.insert(format!("same-buffer|{}|{}", tag, d.name));
                    }
                }
            }
            let mut ev = 0u64;
            let bad = same_buffer_pair(&dets, a, b, &refs, &mut ev, &mut sb_moved);
            r.evaluations += ev;
            sb_cmp += ev;
            if let Some((label, step, w, di, g)) = bad.first() {
                let mut names: Vec<&str> = vec![];
                for (_, _, _, dj, _) in &bad {
                    if !names.contains(&dets[*dj].name) {
                        names.push(dets[*dj].name);
                    }
                }
                r.violate(
                    "c15:depends-on-history:same-buffer-equal-length",
                    &format!(
                        "programs {}: two different texts of equal byte length ({} bytes) analysed one after the other from the same String buffer (same pointer): {} detector(s) report other lines than on a single-shot analysis of the same text: {}; first: {} in order {} at step {} (text {})",
                        tag,
                        a.len(),
                        names.len(),
                        names.join(", "),
                        dets[*di].name,
                        label,
                        step + 1,
                        if *w == 0 { "A" } else { "B" }
                    ),
                    vec!["c15-case".into(), "same-buffer".into(), format!("@src:{}", a), dets[*di].name.to_string(), format!("@src:{}", b)],
                    fmt_lines(&refs[*w][*di]),
                    fmt_lines(g),
                );
            }
        }
    }
    if let Some(j) = ofh.sample.clone() {
        r.sample(j);
    }
    collapse(&mut r, mis);
    r.rule = format!(
        "reference = first evaluation of (file content, pattern) in this process through analyze_for_*; a case is one comparison of another evaluation of the same (content, pattern) with the reference: \
repeated twice more; file_number in {:?}; after the 29 other patterns in a seeded permuted order (every pattern is the target once per program and round, and every intermediate result is compared too); \
from {} threads released together, each running all 30 patterns in its own permutation, interleaved with calls on a different file; \
{} deeply nested files (nesting depth 40..60, findings at the innermost level and after the nest) analysed by 24 and by 32 threads released together, each thread walking all files (rotated start, so the same and different files are analysed simultaneously) with all 30 patterns in its own permutation; \
pairs (A, B) of different texts of EQUAL byte length and different line structure (A: 3 leading blank lines, no trailing newline; B: 3 trailing newlines; end padded with spaces or a comment) analysed in one thread \
one after the other from the SAME String buffer (pointer checked unchanged) in the orders A,B / B,A / A,B,A with all 30 patterns (all three analyze_for_* entry points) against single-shot references; \
and (sampled programs) as the only call of a fresh process. when more than 3 detectors differ on one program for one kind of context, one `many-detectors` key is reported. \
non-trivial iff the reference reports at least one line. THREAD INTERLEAVINGS ARE SAMPLED BY THE OS SCHEDULER, NOT EXPLORED SYSTEMATICALLY.",
        FILE_NUMBERS,
        THREADS,
        deep.len()
    );
    r.bound = format!(
        "{} generated programs x 30 patterns; {} history round(s); {} deep programs x {{24, 32}} threads x {} rounds; comparisons: repeat {}, file_number {}, history {}, threads {}, fresh process {}, deep threads {}, same-buffer {} ({} equal-length pairs x 3 orders)",
        progs.len(),
        rounds,
        deep.len(),
        deep_rounds,
        counts[0],
        counts[1],
        counts[2],
        counts[3],
        counts[4],
        deep_cmp,
        sb_cmp,
        sb_pairs
    );
    r.rule.push_str(&format!(
        " OTHER-FILE HISTORY (runs first, before this process has analysed anything): a pool of {} programs = version-sensitive bodies (library SafeMath + `using SafeMath for uint` + .add/.sub/.mul/.div calls, require with a 31-byte and a 33-byte message; and one body that calls .add WITHOUT using SafeMath and has no message) under the headers {{no pragma, only `pragma experimental ABIEncoderV2`, pragma solidity 0.7.6 / 0.8.3 / 0.8.4 / ^0.8.17}} plus a few corpus programs (pragma 0.8.10, ^0.4.24); reference of (B, pattern) = B analysed by a fresh process that does nothing else (fallback when no process can be started: the first evaluation in this process, pragma-less programs first); for every ordered pair (A, B), A != B, and every pattern: A is analysed with ALL 30 patterns (all three analyze_for_* entry points) and immediately afterwards, in the same thread, B with the pattern under test -- in the order A,B, again as A,B,A,B, and once more with file number 1 for A and 2 for B; each of the three results on B is one comparison with the reference; every ordered pair is analysed by a single-threaded process of its own (this binary; it analyses nothing but A and B: the 30 cases of the pair one after the other), so a difference can only come from the two files of the pair; a pair whose process cannot be started is run in this process afterwards; a difference is re-run through its replay command before it is reported; additionally the first in-process evaluation of every pool program (made after the earlier pool programs) is compared with its fresh-process reference. a pair case (A, B, pattern) is non-trivial iff A and B have different headers and the pattern reports at least one line on A or on B.",
        ofh.pool
    ));
    r.bound.push_str(&format!(
        "; other-file history: pool of {} programs, {} ordered pairs x 30 patterns x 3 contexts = {} comparisons, {} first-evaluation-vs-fresh-process comparisons, references: {} from fresh processes, {} in-process",
        ofh.pool, ofh.pairs, ofh.cmp_pairs, ofh.cmp_refs, ofh.fresh_refs, ofh.inproc_refs
    ));
    r.extra.push(("other_file_history_pairs".into(), J::Num(ofh.pairs as i64)));
    r.extra.push(("other_file_history_inprocess_references".into(), J::Num(ofh.inproc_refs as i64)));
    r.extra.push(("other_file_history_pairs_without_own_process".into(), J::Num(ofh.pairs_in_process as i64)));
    r.extra.push(("same_buffer_moved".into(), J::Num(sb_moved as i64)));
    r.extra.push(("skipped_panics".into(), J::Num(skipped_panics as i64)));
    r.extra.push(("fresh_process_unavailable".into(), J::Num(fresh_unavailable as i64)));
    r.extra.push(("parse_failures".into(), J::arr_s(parse_fail)));
    r.assumptions.push("thread interleavings are sampled (8, 24 and 32 OS threads, barrier start), not explored systematically; a data race that needs a rare schedule can be missed".into());
    r.assumptions.push("independence from sibling files, directories and directory position is exercised only through the file_number argument, through interleaved calls on other contents and through the other-file-history pairs (another file analysed first) here; analyze_dir itself is C03's contract".into());
    r.assumptions.push("other-file history: the facts another file can leave behind are sampled by a fixed pool (compiler version / pragma kind, use of SafeMath, long require messages, names of the corpus scaffold), all pairs of it, one thread; state that needs three or more different files, or another kind of fact, can be missed".into());
    r.assumptions.push("(program, pattern) pairs whose reference evaluation panics are skipped and counted in skipped_panics (C04); they still run as part of the history of the other patterns".into());
    r
}

/// `c15-case other-file-history <text A> <text B> <detector> [pair-sequence]`: the reference is B analysed by a fresh
/// process that does nothing else (if none can be started: B first in this process); then this process, which has
/// analysed nothing yet, runs A with all patterns followed by B with the detector, in the contexts of `ofh_run`
/// (with `pair-sequence`: after the same cases for the patterns before this one, as the check's pair process does).
/// Exit 1 iff B's lines differ from the reference.
fn c15_replay_other_file(rest: &[String]) -> i32 {
    if rest.len() < 4 {
        eprintln!("usage: c15-case other-file-history <text A> <text B> <detector> [pair-sequence]");
        return 2;
    }
    let a = crate::arg_or_file(&rest[1]);
    let b = crate::arg_or_file(&rest[2]);
    let dets = detectors();
    let di = match det_by_name(&dets, &rest[3]) {
        Some(i) => i,
        None => {
            eprintln!("unknown detector {}", rest[3]);
            return 2;
        }
    };
    let sequence = rest.get(4).map(|x| x == "pair-sequence").unwrap_or(false);
    if solang_parser::parse(&a, 0).is_err() || solang_parser::parse(&b, 0).is_err() {
        println!("not applicable: A or B does not parse");
        return 0;
    }
    let base = match fresh_process(&b, dets[di].name) {
        Some(f) => {
            println!("B alone (fresh process): {}", fmt_lines(&f));
            f
        }
        None => {
            let f = analyze(&dets[di], &b, 0);
            println!("B alone (no process could be started; first call of this process): {}", fmt_lines(&f));
            f
        }
    };
    if base.is_err() {
        println!("not applicable: the pattern panics on B alone (C04)");
        return 0;
    }
    if sequence {
        for dj in 0..di {
            let _ = ofh_run(&dets, &a, &b, dj);
        }
    }
    let mut rc = 0;
    for (ci, g) in ofh_run(&dets, &a, &b, di).into_iter().enumerate() {
        if !same(&g, &base) {
            println!("VIOLATED: B {} gives {}", OFH_CONTEXT_NAMES[ci], fmt_lines(&g));
            rc = 1;
        }
    }
    if rc == 0 {
        println!("holds: B gives the same lines after A was analysed with all patterns (orders A,B / A,B,A,B / file numbers 1,2)");
    }
    rc
}

fn c15_replay(rest: &[String]) -> i32 {
    silence();
    if rest.len() < 3 {
        eprintln!("usage: c15-case repeat|file-number|history|threads|deep-threads|same-buffer|fresh <source> <detector> [seed|text B] [target|nthreads]\n       c15-case other-file-history <text A> <text B> <detector> [pair-sequence]");
        return 2;
    }
    if rest[0] == "other-file-history" {
        return c15_replay_other_file(rest);
    }
    let src = crate::arg_or_file(&rest[1]);
    let dets = detectors();
    let di = match det_by_name(&dets, &rest[2]) {
        Some(i) => i,
        None => {
            eprintln!("unknown detector {}", rest[2]);
            return 2;
        }
    };
    if solang_parser::parse(&src, 0).is_err() {
        println!("not applicable: the text does not parse");
        return 0;
    }
    let sd: u64 = rest.get(3).and_then(|s| s.parse().ok()).unwrap_or(1);
    // in a replay the process is fresh: the first evaluation IS the (content, pattern) analysed alone
    let base = analyze(&dets[di], &src, 0);
    let mut others: Vec<(String, Lines)> = vec![];
    match rest[0].as_str() {
        "repeat" => {
            for k in 0..2 {
                others.push((format!("repetition {}", k + 2), analyze(&dets[di], &src, 0)));
            }
        }
        "file-number" => {
            for f in &FILE_NUMBERS[1..] {
                others.push((format!("file_number {}", f), analyze(&dets[di], &src, *f)));
            }
        }
        "history" => {
            let target = rest.get(4).and_then(|n| det_by_name(&dets, n)).unwrap_or(di);
            for (j, g) in history_run(&dets, &src, target, sd) {
                if j == di {
                    others.push((format!("after other patterns (order seed {})", sd), g));
                }
            }
            others.push(("once more at the end".into(), analyze(&dets[di], &src, 0)));
        }
        "threads" => {
            for (t, res) in threads_run(&dets, &src, &src, sd).into_iter().enumerate() {
                for (j, g) in res {
                    if j == di {
                        others.push((format!("thread {}", t), g));
                    }
                }
            }
        }
        "deep-threads" => {
            let nthreads: usize = rest.get(4).and_then(|x| x.parse().ok()).unwrap_or(32).clamp(2, 256);
            for round in 0..8u64 {
                for (t, res) in deep_threads_run(&dets, &[src.as_str()], nthreads, sd.wrapping_add(round)).into_iter().enumerate() {
                    for (_, j, g) in res {
                        if j == di {
                            others.push((format!("round {} thread {} of {}", round, t, nthreads), g));
                        }
                    }
                }
            }
        }
        "same-buffer" => {
            // rest[3] = text B (same byte length as the source A); exit 1 iff some step differs from its single-shot reference
            let b = match rest.get(3) {
                Some(x) => crate::arg_or_file(x),
                None => {
                    eprintln!("usage: c15-case same-buffer <text A> <detector> <text B>");
                    return 2;
                }
            };
            if b.len() != src.len() || solang_parser::parse(&b, 0).is_err() {
                println!("not applicable: B must parse and have the same byte length as A ({} vs {})", b.len(), src.len());
                return 0;
            }
            let one = [dets[di]];
            let refs: [Vec<Lines>; 2] = [vec![base.clone()], vec![analyze(&dets[di], &b, 0)]];
            let (mut ev, mut moved) = (0u64, 0u64);
            let bad = same_buffer_pair(&one, &src, &b, &refs, &mut ev, &mut moved);
            println!("single-shot: A {} B {}", fmt_lines(&refs[0][0]), fmt_lines(&refs[1][0]));
            if moved > 0 {
                println!("the buffer moved; not applicable");
                return 2;
            }
            for (label, step, w, _, g) in &bad {
                println!("VIOLATED: order {} step {} (text {}) from the same buffer gives {}", label, step + 1, if *w == 0 { "A" } else { "B" }, fmt_lines(g));
            }
            if bad.is_empty() {
                println!("holds: every text analysed from the shared buffer gives its single-shot lines");
                return 0;
            }
            return 1;
        }
        "fresh" => {
            for d in &dets {
                let _ = analyze(d, &src, 0);
            }
            let again = analyze(&dets[di], &src, 0);
            match fresh_process(&src, dets[di].name) {
                Some(f) => {
                    others.push(("another fresh process".into(), f));
                    others.push(("this process after all 30 patterns".into(), again));
                }
                None => {
                    println!("cannot start a fresh process");
                    return 2;
                }
            }
        }
        _ => return 2,
    }
    let mut rc = 0;
    println!("alone: {}", fmt_lines(&base));
    for (what, g) in others {
        if !same(&g, &base) {
            println!("VIOLATED: {} gives {}", what, fmt_lines(&g));
            rc = 1;
        }
    }
    if rc == 0 {
        println!("holds: every other evaluation gives the same lines");
    }
    rc
}

// ------------------------------------------------------------------------------------------------

/// Returns Some(exit code) when `cmd` belongs to this module.
pub fn dispatch(cmd: &str, rest: &[String], tier: &str, seed: u64) -> Option<i32> {
    match cmd {
        "c02" => {
            println!("{}", run_c02(tier, seed).to_json().render());
            Some(0)
        }
        "c17" => {
            println!("{}", run_c17(tier, seed).to_json().render());
            Some(0)
        }
        "c15" => {
            println!("{}", run_c15(tier, seed).to_json().render());
            Some(0)
        }
        "c02-case" => Some(c02_replay(rest)),
        "c17-case" => Some(c17_replay(rest)),
        "c15-case" => Some(c15_replay(rest)),
        // helper of c15 (other-file history): one ordered pair (A, B), all patterns, in a process of its own
        "c15-ofh-worker" => Some(ofh_worker(rest)),
        // helper of c15: analyse one (content, pattern) as the only thing this process does
        "c15-alone" => {
            silence();
            if rest.len() < 2 {
                return Some(2);
            }
            let src = crate::arg_or_file(&rest[0]);
            let dets = detectors();
            match det_by_name(&dets, &rest[1]) {
                Some(di) => {
                    println!("{}", encode_lines(&analyze(&dets[di], &src, 0)));
                    Some(0)
                }
                None => Some(2),
            }
        }
        _ => None,
    }
}
