//! Executable oracles: an independent transcription of DESIGN.md section 8 ("Canonical, matching and
//! non-matching forms per detector") and of the property statements C05..C09.
//!
//! Everything is computed from `oracle_gen::all_nodes` (the enumeration of the parse tree that C01 proves
//! equal to the real tree search); nothing here calls solstat's walker or its helpers.
//!
//! `expected(det, su)` returns START OFFSETS of the construct named under `loc` in section 8:
//!   must  -- canonical instances: have to be reported
//!   may   -- matching instances: allowed to be reported (must is a subset); anything else must never be
use super::Det;
use crate::oracle_gen as og;
use solang_parser::pt::{self, CodeLocation, Expression as E, Statement as S};
use solstat::analyzer::ast::Node;
use std::collections::{BTreeMap, BTreeSet};

#[derive(Default, Clone, Debug)]
pub struct Expect {
    pub must: BTreeSet<usize>,
    pub may: BTreeSet<usize>,
}

impl Expect {
    fn both(&mut self, o: usize) {
        self.must.insert(o);
        self.may.insert(o);
    }
    fn may(&mut self, o: usize) {
        self.may.insert(o);
    }
}

pub fn st(l: &pt::Loc) -> usize {
    match l {
        pt::Loc::File(_, s, _) => *s,
        _ => usize::MAX,
    }
}
pub fn en(l: &pt::Loc) -> usize {
    match l {
        pt::Loc::File(_, _, e) => *e,
        _ => usize::MAX,
    }
}

pub fn nodes_of_su(su: &pt::SourceUnit) -> Vec<Node> {
    og::all_nodes(&Node::SourceUnit(su.clone()))
}
fn nodes_of_expr(e: &E) -> Vec<Node> {
    og::all_nodes(&Node::Expression(e.clone()))
}
fn nodes_of_stmt(s: &S) -> Vec<Node> {
    og::all_nodes(&Node::Statement(s.clone()))
}
fn nodes_of_part(p: &pt::ContractPart) -> Vec<Node> {
    og::all_nodes(&Node::ContractPart(p.clone()))
}

fn exprs(nodes: &[Node]) -> impl Iterator<Item = &E> {
    nodes.iter().filter_map(|n| if let Node::Expression(e) = n { Some(e) } else { None })
}
fn stmts(nodes: &[Node]) -> impl Iterator<Item = &S> {
    nodes.iter().filter_map(|n| if let Node::Statement(s) = n { Some(s) } else { None })
}
pub fn contracts(nodes: &[Node]) -> Vec<&pt::ContractDefinition> {
    nodes
        .iter()
        .filter_map(|n| if let Node::SourceUnitPart(pt::SourceUnitPart::ContractDefinition(c)) = n { Some(&**c) } else { None })
        .collect()
}
fn member_functions<'a>(cs: &[&'a pt::ContractDefinition]) -> Vec<(&'a pt::ContractPart, &'a pt::FunctionDefinition)> {
    let mut v = vec![];
    for c in cs {
        for p in &c.parts {
            if let pt::ContractPart::FunctionDefinition(f) = p {
                v.push((p, &**f));
            }
        }
    }
    v
}
pub fn member_variables<'a>(cs: &[&'a pt::ContractDefinition]) -> Vec<&'a pt::VariableDefinition> {
    let mut v = vec![];
    for c in cs {
        for p in &c.parts {
            if let pt::ContractPart::VariableDefinition(d) = p {
                v.push(&**d);
            }
        }
    }
    v
}

fn is_ident(e: &E, name: &str) -> bool {
    matches!(e, E::Variable(id) if id.name == name)
}
fn strip_parens(e: &E) -> &E {
    let mut c = e;
    while let E::Parenthesis(_, inner) = c {
        c = inner;
    }
    c
}

// ---------------------------------------------------------------------------------------------
// big decimal helper for shift_math: the set of all powers of two (as decimal strings) up to 2^4200
// ---------------------------------------------------------------------------------------------
fn powers_of_two() -> &'static BTreeSet<String> {
    use std::sync::OnceLock;
    static P: OnceLock<BTreeSet<String>> = OnceLock::new();
    P.get_or_init(|| {
        let mut set = BTreeSet::new();
        // little endian decimal digits
        let mut d: Vec<u8> = vec![1];
        for _ in 0..4200 {
            set.insert(d.iter().rev().map(|x| (b'0' + *x) as char).collect::<String>());
            let mut carry = 0u8;
            for x in d.iter_mut() {
                let v = *x * 2 + carry;
                *x = v % 10;
                carry = v / 10;
            }
            if carry > 0 {
                d.push(carry);
            }
        }
        set
    })
}

/// value of a decimal literal `digits e exponent` is an integer power of two (2^k, k >= 0)
pub fn literal_is_power_of_two(digits: &str, exponent: &str) -> bool {
    let digits: String = digits.chars().filter(|c| *c != '_').collect();
    if digits.is_empty() || !digits.chars().all(|c| c.is_ascii_digit()) {
        return false;
    }
    let exponent: String = exponent.chars().filter(|c| *c != '_').collect();
    let e: i128 = if exponent.is_empty() {
        0
    } else {
        match exponent.parse::<i128>() {
            Ok(v) => v,
            Err(_) => return false,
        }
    };
    let mut int = digits.trim_start_matches('0').to_string();
    if int.is_empty() {
        return false; // zero
    }
    if e > 0 {
        // a non-zero integer times 10^e (e>0) is divisible by 5
        return false;
    }
    if e < 0 {
        let k = (-e) as usize;
        // must be an integer: k trailing zeros
        if int.len() <= k {
            return false;
        }
        let (head, tail) = int.split_at(int.len() - k);
        if !tail.chars().all(|c| c == '0') {
            return false;
        }
        int = head.to_string();
    }
    powers_of_two().contains(&int)
}

// ---------------------------------------------------------------------------------------------
// C05
// ---------------------------------------------------------------------------------------------
fn address_balance(nodes: &[Node], x: &mut Expect) {
    for e in exprs(nodes) {
        if let E::MemberAccess(loc, base, id) = e {
            if id.name != "balance" {
                continue;
            }
            if let E::FunctionCall(_, callee, args) = &**base {
                if let E::Type(_, pt::Type::Address) = &**callee {
                    x.may(st(loc));
                    if args.len() == 1 && matches!(args[0], E::This(_)) {
                        x.both(st(loc));
                    }
                }
            }
        }
    }
}

/// (may, must) for one operand of a comparison
fn address_zero_operand(e: &E) -> (bool, bool) {
    if let E::FunctionCall(_, callee, args) = e {
        if let E::Type(_, pt::Type::Address) = &**callee {
            if let Some(E::NumberLiteral(_, digits, exp)) = args.first() {
                let d: String = digits.chars().filter(|c| *c != '_').collect();
                let zero = !d.is_empty() && d.chars().all(|c| c == '0');
                let canon = zero && d == "0" && exp.is_empty() && args.len() == 1;
                return (zero, canon);
            }
        }
    }
    (false, false)
}

fn address_zero(nodes: &[Node], x: &mut Expect) {
    for e in exprs(nodes) {
        if let E::Equal(loc, l, r) | E::NotEqual(loc, l, r) = e {
            let (a, b) = (address_zero_operand(l), address_zero_operand(r));
            if a.0 || b.0 {
                x.may(st(loc));
            }
            if a.1 || b.1 {
                x.both(st(loc));
            }
        }
    }
}

fn bool_equals_bool(nodes: &[Node], x: &mut Expect) {
    for e in exprs(nodes) {
        if let E::Equal(loc, l, r) | E::NotEqual(loc, l, r) = e {
            if matches!(**l, E::BoolLiteral(..)) || matches!(**r, E::BoolLiteral(..)) {
                x.both(st(loc));
            }
        }
    }
}

/// `a[k]` with `a` an identifier and `k` a decimal literal: (a, digits, exponent)
fn ident_literal_index(e: &E) -> Option<(&str, &str, &str)> {
    if let E::ArraySubscript(_, base, Some(idx)) = e {
        if let (E::Variable(id), E::NumberLiteral(_, d, ex)) = (&**base, &**idx) {
            return Some((&id.name, d, ex));
        }
    }
    None
}

fn assign_update_array_value(nodes: &[Node], x: &mut Expect) {
    for e in exprs(nodes) {
        if let E::Assign(loc, lhs, rhs) = e {
            let target = match ident_literal_index(lhs) {
                Some(t) => t,
                None => continue,
            };
            let (l, r) = match &**rhs {
                E::Add(_, l, r)
                | E::Subtract(_, l, r)
                | E::Multiply(_, l, r)
                | E::Divide(_, l, r)
                | E::Modulo(_, l, r)
                | E::ShiftLeft(_, l, r)
                | E::ShiftRight(_, l, r)
                | E::BitwiseAnd(_, l, r)
                | E::BitwiseOr(_, l, r)
                | E::BitwiseXor(_, l, r) => (l, r),
                _ => continue,
            };
            let lm = ident_literal_index(l) == Some(target);
            let rm = ident_literal_index(r) == Some(target);
            if lm || rm {
                x.may(st(loc));
            }
            if lm {
                x.both(st(loc));
            }
        }
    }
}

fn cache_array_length(nodes: &[Node], x: &mut Expect) {
    for s in stmts(nodes) {
        if let S::For(_, _, Some(cond), _, _) = s {
            for e in exprs(&nodes_of_expr(cond)) {
                if let E::MemberAccess(loc, _, id) = e {
                    if id.name == "length" {
                        x.both(st(loc));
                    }
                }
            }
        }
    }
}

fn increment_decrement(nodes: &[Node], x: &mut Expect) {
    // prefix forms nested at any depth in a statement of an `unchecked { }` block are exempt
    let mut exempt: BTreeSet<pt::Loc> = BTreeSet::new();
    for s in stmts(nodes) {
        if let S::Block { unchecked: true, statements, .. } = s {
            for inner in statements {
                for e in exprs(&nodes_of_stmt(inner)) {
                    if let E::PreIncrement(loc, _) | E::PreDecrement(loc, _) = e {
                        exempt.insert(*loc);
                    }
                }
            }
        }
    }
    for e in exprs(nodes) {
        match e {
            E::PreIncrement(loc, _) | E::PreDecrement(loc, _) => {
                if !exempt.contains(loc) {
                    x.both(st(loc));
                }
            }
            E::PostIncrement(loc, _) | E::PostDecrement(loc, _) => x.both(st(loc)),
            _ => {}
        }
    }
}

fn multiple_require(nodes: &[Node], x: &mut Expect) {
    for e in exprs(nodes) {
        if let E::FunctionCall(loc, callee, args) = e {
            if !is_ident(callee, "require") {
                continue;
            }
            if args.iter().any(|a| matches!(strip_parens(a), E::And(..))) {
                x.may(st(loc));
            }
            if args.iter().any(|a| matches!(a, E::And(..))) {
                x.both(st(loc));
            }
        }
    }
}

fn optimal_comparison(nodes: &[Node], x: &mut Expect) {
    for e in exprs(nodes) {
        if let E::MoreEqual(loc, ..) | E::LessEqual(loc, ..) = e {
            x.both(st(loc));
        }
    }
}

fn shift_math(nodes: &[Node], x: &mut Expect) {
    let pow2 = |e: &E| matches!(e, E::NumberLiteral(_, d, ex) if literal_is_power_of_two(d, ex));
    for e in exprs(nodes) {
        if let E::Multiply(loc, l, r) | E::Divide(loc, l, r) = e {
            if pow2(l) || pow2(r) {
                x.both(st(loc));
            }
        }
    }
}

fn solidity_keccak256(nodes: &[Node], x: &mut Expect) {
    for e in exprs(nodes) {
        if let E::FunctionCall(_, callee, _) = e {
            if let E::Variable(id) = &**callee {
                if id.name == "keccak256" {
                    x.both(st(&id.loc));
                }
            }
        }
    }
}

fn solidity_math(nodes: &[Node], x: &mut Expect) {
    for e in exprs(nodes) {
        if let E::Add(loc, ..) | E::Subtract(loc, ..) | E::Multiply(loc, ..) | E::Divide(loc, ..) = e {
            x.both(st(loc));
        }
    }
}

// ---------------------------------------------------------------------------------------------
// C06
// ---------------------------------------------------------------------------------------------
fn fn_public_or_external(f: &pt::FunctionDefinition) -> bool {
    f.attributes.iter().any(|a| {
        matches!(a, pt::FunctionAttribute::Visibility(pt::Visibility::Public(_)) | pt::FunctionAttribute::Visibility(pt::Visibility::External(_)))
    })
}
fn fn_payable(f: &pt::FunctionDefinition) -> bool {
    f.attributes.iter().any(|a| matches!(a, pt::FunctionAttribute::Mutability(pt::Mutability::Payable(_))))
}

fn payable_function(nodes: &[Node], x: &mut Expect) {
    let cs = contracts(nodes);
    for (_, f) in member_functions(&cs) {
        if f.body.is_some() && fn_public_or_external(f) && !fn_payable(f) {
            // "a public/external function with a body that is not payable": constructors declared public, receive and
            // fallback are functions of the contract too
            x.both(st(&f.loc));
        }
    }
}

fn var_has_constant(v: &pt::VariableDefinition) -> bool {
    v.attrs.iter().any(|a| matches!(a, pt::VariableAttribute::Constant(_)))
}
fn var_has_immutable(v: &pt::VariableDefinition) -> bool {
    v.attrs.iter().any(|a| matches!(a, pt::VariableAttribute::Immutable(_)))
}

fn private_constant(nodes: &[Node], x: &mut Expect) {
    let cs = contracts(nodes);
    for v in member_variables(&cs) {
        let private = v.attrs.iter().any(|a| matches!(a, pt::VariableAttribute::Visibility(pt::Visibility::Private(_))));
        if var_has_constant(v) && !private {
            x.both(st(&v.ty.loc()));
        }
    }
}

/// the leading-underscore convention is contradicted by one of the explicit visibility attributes
fn underscore_contradiction<'a, I: Iterator<Item = &'a pt::Visibility>>(name: &str, vis: I) -> bool {
    let underscore = name.starts_with('_');
    for v in vis {
        match v {
            pt::Visibility::Private(_) | pt::Visibility::Internal(_) => {
                if !underscore {
                    return true;
                }
            }
            pt::Visibility::Public(_) | pt::Visibility::External(_) => {
                if underscore {
                    return true;
                }
            }
        }
    }
    false
}

fn private_vars_leading_underscore(nodes: &[Node], x: &mut Expect) {
    let cs = contracts(nodes);
    for v in member_variables(&cs) {
        if var_has_constant(v) {
            continue;
        }
        let vis = v.attrs.iter().filter_map(|a| if let pt::VariableAttribute::Visibility(v) = a { Some(v) } else { None });
        if underscore_contradiction(&v.name.name, vis) {
            x.both(st(&v.ty.loc()));
        }
    }
}

fn fn_name_contradiction(f: &pt::FunctionDefinition) -> Option<usize> {
    if f.ty != pt::FunctionTy::Function {
        return None;
    }
    let name = f.name.as_ref()?;
    let vis = f.attributes.iter().filter_map(|a| if let pt::FunctionAttribute::Visibility(v) = a { Some(v) } else { None });
    if underscore_contradiction(&name.name, vis) {
        Some(st(&name.loc))
    } else {
        None
    }
}

fn private_func_leading_underscore(nodes: &[Node], x: &mut Expect) {
    let cs = contracts(nodes);
    for (_, f) in member_functions(&cs) {
        if let Some(o) = fn_name_contradiction(f) {
            x.both(o);
        }
    }
    // free functions cannot carry a visibility in Solidity, the parser accepts one: unspecified (may only)
    for n in nodes {
        if let Node::SourceUnitPart(pt::SourceUnitPart::FunctionDefinition(f)) = n {
            if let Some(o) = fn_name_contradiction(f) {
                x.may(o);
            }
        }
    }
}

fn constructor_order(nodes: &[Node], x: &mut Expect) {
    for c in contracts(nodes) {
        for (j, p) in c.parts.iter().enumerate() {
            if let pt::ContractPart::FunctionDefinition(f) = p {
                if f.ty != pt::FunctionTy::Constructor {
                    continue;
                }
                let preceded = c.parts[..j].iter().any(|q| {
                    matches!(q, pt::ContractPart::FunctionDefinition(g)
                        if g.ty != pt::FunctionTy::Modifier && g.ty != pt::FunctionTy::Constructor)
                });
                if preceded {
                    x.both(st(&f.loc));
                }
            }
        }
    }
}

// ---------------------------------------------------------------------------------------------
// C07
// ---------------------------------------------------------------------------------------------
fn unsafe_erc20_operation(nodes: &[Node], x: &mut Expect) {
    for e in exprs(nodes) {
        if let E::MemberAccess(loc, _, id) = e {
            if id.name == "transfer" || id.name == "transferFrom" || id.name == "approve" {
                x.both(st(loc));
            }
        }
    }
}

fn chain_div(e: &E) -> bool {
    match e {
        E::Divide(..) => true,
        E::Multiply(_, l, _) => chain_div(l),
        E::Parenthesis(_, l) => chain_div(l),
        _ => false,
    }
}
fn chain_mul(e: &E) -> bool {
    match e {
        E::Multiply(..) => true,
        E::Divide(_, l, _)
        | E::Add(_, l, _)
        | E::Subtract(_, l, _)
        | E::Modulo(_, l, _)
        | E::BitwiseAnd(_, l, _)
        | E::BitwiseOr(_, l, _)
        | E::BitwiseXor(_, l, _)
        | E::ShiftLeft(_, l, _)
        | E::ShiftRight(_, l, _) => chain_mul(l),
        E::Parenthesis(_, l) => chain_mul(l),
        _ => false,
    }
}

fn divide_before_multiply(nodes: &[Node], x: &mut Expect) {
    for e in exprs(nodes) {
        match e {
            E::Multiply(loc, l, _) if chain_div(l) => x.both(st(loc)),
            E::AssignDivide(loc, _, r) if chain_mul(r) => x.both(st(loc)),
            _ => {}
        }
    }
}

/// `1.2.3` and nothing else
pub fn pinned_version(s: &str) -> Option<(u64, u64, u64)> {
    let t = s.trim();
    let parts: Vec<&str> = t.split('.').collect();
    if parts.len() != 3 {
        return None;
    }
    let mut v = [0u64; 3];
    for (i, p) in parts.iter().enumerate() {
        if p.is_empty() || !p.chars().all(|c| c.is_ascii_digit()) {
            return None;
        }
        v[i] = p.parse::<u64>().ok()?;
    }
    Some((v[0], v[1], v[2]))
}

/// a pragma value with its `/* .. */` and `// ..` comments removed (hand-written scanner, independent of the regexes in utils.rs)
pub fn without_comments(t: &str) -> String {
    let b: Vec<char> = t.chars().collect();
    let mut out = String::new();
    let mut i = 0;
    while i < b.len() {
        if b[i] == '/' && i + 1 < b.len() && b[i + 1] == '*' {
            let mut j = i + 2;
            while j + 1 < b.len() && !(b[j] == '*' && b[j + 1] == '/') {
                j += 1;
            }
            let end = if j + 1 < b.len() { j + 2 } else { b.len() };
            // the line structure is kept: a comment that spans lines is replaced by its line breaks
            let nl: String = b[i..end].iter().filter(|c| **c == '\n').collect();
            i = end;
            if nl.is_empty() {
                out.push(' ');
            } else {
                out.push_str(&nl);
            }
        } else if b[i] == '/' && i + 1 < b.len() && b[i + 1] == '/' {
            while i < b.len() && b[i] != '\n' {
                i += 1;
            }
            out.push(' ');
        } else {
            out.push(b[i]);
            i += 1;
        }
    }
    out
}

fn floating_pragma(nodes: &[Node], x: &mut Expect) {
    for n in nodes {
        if let Node::SourceUnitPart(pt::SourceUnitPart::PragmaDirective(loc, ident, value)) = n {
            let value_text = without_comments(&value.string);
            if value_text.contains('^') {
                x.both(st(loc));
            } else if ident.name == "solidity" && pinned_version(&value_text).is_none() {
                // other range spellings (>=, ~, <, ||, -): unspecified
                x.may(st(loc));
            }
        }
    }
}

fn is_msg_sender(e: &E) -> bool {
    matches!(e, E::MemberAccess(_, base, id) if id.name == "sender" && is_ident(base, "msg"))
}
fn is_selfdestruct_call(e: &E) -> bool {
    matches!(e, E::FunctionCall(_, callee, _) if is_ident(callee, "selfdestruct") || is_ident(callee, "suicide"))
}

fn unprotected_selfdestruct(nodes: &[Node], x: &mut Expect) {
    let cs = contracts(nodes);
    for (part, f) in member_functions(&cs) {
        let body = match &f.body {
            Some(b) => b,
            None => continue,
        };
        if f.ty == pt::FunctionTy::Constructor || !fn_public_or_external(f) {
            continue; // never
        }
        let mut only_exact = false;
        let mut only_any_case = false;
        for a in &f.attributes {
            if let pt::FunctionAttribute::BaseOrModifier(_, base) = a {
                for id in &base.name.identifiers {
                    if id.name.contains("only") {
                        only_exact = true;
                    }
                    if id.name.to_lowercase().contains("only") {
                        only_any_case = true;
                    }
                }
            }
        }
        if only_exact {
            continue; // never
        }
        let body_nodes = nodes_of_stmt(body);
        // guarded(f): a call (not selfdestruct/suicide, not a type conversion) with msg.sender or a
        // ==/!= comparison against msg.sender as a top-level argument
        let guarded = exprs(&body_nodes).any(|e| {
            if let E::FunctionCall(_, callee, args) = e {
                if matches!(**callee, E::Type(..)) || is_selfdestruct_call(e) {
                    return false;
                }
                args.iter().any(|a| {
                    is_msg_sender(a)
                        || matches!(a, E::Equal(_, l, r) | E::NotEqual(_, l, r) if is_msg_sender(l) || is_msg_sender(r))
                })
            } else {
                false
            }
        });
        if guarded {
            continue; // never
        }
        let calls: Vec<usize> = exprs(&body_nodes)
            .filter(|e| is_selfdestruct_call(e))
            .map(|e| st(&e.loc()))
            .collect();
        for c in &calls {
            x.may(*c);
        }
        // must (property text): msg.sender is mentioned only inside the selfdestruct call's own arguments
        // or as the operand of a type conversion; modifier names are not 'only' in any letter case
        if only_any_case {
            continue;
        }
        let whole = nodes_of_part(part);
        let mentions: BTreeSet<pt::Loc> = exprs(&whole).filter(|e| is_msg_sender(e)).map(|e| e.loc()).collect();
        let mut allowed: BTreeSet<pt::Loc> = BTreeSet::new();
        for e in exprs(&body_nodes) {
            if let E::FunctionCall(_, callee, args) = e {
                if is_selfdestruct_call(e) {
                    for a in args {
                        for m in exprs(&nodes_of_expr(a)).filter(|m| is_msg_sender(m)) {
                            allowed.insert(m.loc());
                        }
                    }
                } else if matches!(**callee, E::Type(..)) {
                    for a in args {
                        if is_msg_sender(a) {
                            allowed.insert(a.loc());
                        }
                    }
                }
            }
        }
        if mentions.is_subset(&allowed) {
            for c in &calls {
                x.both(*c);
            }
        }
    }
}

// ---------------------------------------------------------------------------------------------
// C08
// ---------------------------------------------------------------------------------------------
/// name of the identifier a write node targets, with the form of the write
pub fn write_target(e: &E) -> Option<(&str, &'static str)> {
    let (t, form): (&E, &'static str) = match e {
        E::Assign(_, l, _) => (l, "assign"),
        E::AssignOr(_, l, _) => (l, "assign-or"),
        E::AssignAnd(_, l, _) => (l, "assign-and"),
        E::AssignXor(_, l, _) => (l, "assign-xor"),
        E::AssignShiftLeft(_, l, _) => (l, "assign-shl"),
        E::AssignShiftRight(_, l, _) => (l, "assign-shr"),
        E::AssignAdd(_, l, _) => (l, "assign-add"),
        E::AssignSubtract(_, l, _) => (l, "assign-sub"),
        E::AssignMultiply(_, l, _) => (l, "assign-mul"),
        E::AssignDivide(_, l, _) => (l, "assign-div"),
        E::AssignModulo(_, l, _) => (l, "assign-mod"),
        E::PreIncrement(_, l) => (l, "pre-inc"),
        E::PreDecrement(_, l) => (l, "pre-dec"),
        E::PostIncrement(_, l) => (l, "post-inc"),
        E::PostDecrement(_, l) => (l, "post-dec"),
        _ => return None,
    };
    if let E::Variable(id) = t {
        Some((&id.name, form))
    } else {
        None
    }
}

/// all writes (section 8 `writes(x)`) in a node list: name -> forms
pub fn writes_in(nodes: &[Node]) -> BTreeMap<String, Vec<&'static str>> {
    let mut m: BTreeMap<String, Vec<&'static str>> = BTreeMap::new();
    for e in exprs(nodes) {
        if let Some((n, form)) = write_target(e) {
            m.entry(n.to_string()).or_default().push(form);
        }
    }
    m
}

fn elementary(ty: &E) -> Option<&pt::Type> {
    match ty {
        E::Type(_, t) => match t {
            pt::Type::Mapping(..) | pt::Type::Function { .. } => None,
            t => Some(t),
        },
        _ => None,
    }
}
fn value_type(ty: &E) -> bool {
    matches!(
        elementary(ty),
        Some(pt::Type::Address)
            | Some(pt::Type::AddressPayable)
            | Some(pt::Type::Payable)
            | Some(pt::Type::Bool)
            | Some(pt::Type::Int(_))
            | Some(pt::Type::Uint(_))
            | Some(pt::Type::Bytes(_))
    )
}

fn constant_variables(nodes: &[Node], x: &mut Expect) {
    let written = writes_in(nodes);
    let cs = contracts(nodes);
    for v in member_variables(&cs) {
        if written.contains_key(&v.name.name) {
            continue; // never
        }
        if var_has_constant(v) {
            continue; // never: the variable is constant already (whatever the order of its attributes)
        }
        x.may(st(&v.ty.loc()));
        if elementary(&v.ty).is_some() {
            x.both(st(&v.ty.loc()));
        }
    }
}

fn non_value_assigned(v: &E) -> bool {
    match v {
        E::StringLiteral(_) => true,
        E::FunctionCall(_, callee, _) => match &**callee {
            E::MemberAccess(_, base, _) => is_ident(base, "abi"),
            E::Type(_, pt::Type::DynamicBytes) => true,
            _ => false,
        },
        _ => false,
    }
}

fn immutable_variables(nodes: &[Node], x: &mut Expect) {
    let cs = contracts(nodes);
    // plain assignments inside constructor bodies: name -> all values ok?
    let mut ctor_assigned: BTreeMap<String, bool> = BTreeMap::new();
    let mut ctor_body_writes: BTreeMap<String, usize> = BTreeMap::new();
    let mut nonctor_written: BTreeSet<String> = BTreeSet::new();
    for (part, f) in member_functions(&cs) {
        if f.ty == pt::FunctionTy::Constructor {
            if let Some(body) = &f.body {
                let bn = nodes_of_stmt(body);
                for e in exprs(&bn) {
                    if let E::Assign(_, l, val) = e {
                        if let E::Variable(id) = &**l {
                            let ok = !non_value_assigned(val);
                            let cur = ctor_assigned.entry(id.name.clone()).or_insert(true);
                            *cur = *cur && ok;
                        }
                    }
                }
                for (n, forms) in writes_in(&bn) {
                    *ctor_body_writes.entry(n).or_insert(0) += forms.len();
                }
            }
        } else {
            for (n, _) in writes_in(&nodes_of_part(part)) {
                nonctor_written.insert(n);
            }
        }
    }
    let all_writes = writes_in(nodes);
    for v in member_variables(&cs) {
        let name = &v.name.name;
        let values_ok = match ctor_assigned.get(name) {
            Some(ok) => *ok,
            None => continue, // only: assigned in a constructor body
        };
        if nonctor_written.contains(name) {
            continue; // only: no write inside a non-constructor function
        }
        if var_has_constant(v) || var_has_immutable(v) {
            continue; // never: constant / immutable already (whatever the order of its attributes)
        }
        x.may(st(&v.ty.loc()));
        // always: value-typed, not already constant/immutable, every constructor assignment a value;
        // (conservative) every write of the file is inside a constructor body
        let everywhere = all_writes.get(name).map(|f| f.len()).unwrap_or(0);
        let in_ctor_bodies = ctor_body_writes.get(name).cloned().unwrap_or(0);
        if value_type(&v.ty) && !var_has_constant(v) && !var_has_immutable(v) && values_ok && everywhere == in_ctor_bodies {
            x.both(st(&v.ty.loc()));
        }
    }
}

/// innermost base of a chain of index accesses
fn index_base(e: &E) -> &E {
    let mut c = e;
    while let E::ArraySubscript(_, b, _) = c {
        c = b;
    }
    c
}
/// innermost base through index accesses, member accesses, slices and parentheses
fn loose_base(e: &E) -> &E {
    let mut c = e;
    loop {
        match c {
            E::ArraySubscript(_, b, _) | E::MemberAccess(_, b, _) | E::Parenthesis(_, b) | E::ArraySlice(_, b, _, _) => c = b,
            _ => return c,
        }
    }
}

fn memory_to_calldata(nodes: &[Node], x: &mut Expect) {
    let mut fns: Vec<(&pt::FunctionDefinition, bool)> = vec![];
    for n in nodes {
        match n {
            Node::SourceUnitPart(pt::SourceUnitPart::FunctionDefinition(f)) => fns.push((f, false)),
            Node::ContractPart(pt::ContractPart::FunctionDefinition(f)) => fns.push((f, true)),
            _ => {}
        }
    }
    for (f, member) in fns {
        if f.ty == pt::FunctionTy::Constructor {
            continue; // never
        }
        let body_nodes = f.body.as_ref().map(nodes_of_stmt);
        for (_, p) in &f.params {
            let p = match p {
                Some(p) => p,
                None => continue,
            };
            let (mem_loc, name) = match (&p.storage, &p.name) {
                (Some(pt::StorageLocation::Memory(l)), Some(n)) => (l, &n.name),
                _ => continue,
            };
            let mut assigned = false;
            let mut written_loosely = false;
            if let Some(bn) = &body_nodes {
                for e in exprs(bn) {
                    let target: Option<&E> = match e {
                        E::Assign(_, l, _) => {
                            if is_ident(index_base(l), name) {
                                assigned = true;
                            }
                            Some(l)
                        }
                        E::AssignOr(_, l, _)
                        | E::AssignAnd(_, l, _)
                        | E::AssignXor(_, l, _)
                        | E::AssignShiftLeft(_, l, _)
                        | E::AssignShiftRight(_, l, _)
                        | E::AssignAdd(_, l, _)
                        | E::AssignSubtract(_, l, _)
                        | E::AssignMultiply(_, l, _)
                        | E::AssignDivide(_, l, _)
                        | E::AssignModulo(_, l, _)
                        | E::PreIncrement(_, l)
                        | E::PreDecrement(_, l)
                        | E::PostIncrement(_, l)
                        | E::PostDecrement(_, l)
                        | E::Delete(_, l) => Some(l),
                        _ => None,
                    };
                    if let Some(t) = target {
                        if is_ident(loose_base(t), name) {
                            written_loosely = true;
                        }
                    }
                }
            }
            if assigned {
                continue; // never
            }
            x.may(st(mem_loc));
            if member && f.ty == pt::FunctionTy::Function && f.body.is_some() && fn_public_or_external(f) && !written_loosely {
                x.both(st(mem_loc));
            }
        }
    }
}

fn sstore(nodes: &[Node], x: &mut Expect) {
    let cs = contracts(nodes);
    let mut strict: BTreeSet<&str> = BTreeSet::new();
    let mut loose: BTreeSet<&str> = BTreeSet::new();
    for v in member_variables(&cs) {
        if var_has_constant(v) || var_has_immutable(v) {
            continue;
        }
        if elementary(&v.ty).is_some() {
            strict.insert(&v.name.name);
        } else if matches!(v.ty, E::Type(_, pt::Type::Function { .. })) {
            loose.insert(&v.name.name); // a function type is not elementary, but it is a one-slot value: unspecified
        }
    }
    for e in exprs(nodes) {
        if let E::Assign(loc, l, _) = e {
            if let E::Variable(id) = &**l {
                if strict.contains(id.name.as_str()) {
                    x.both(st(loc));
                } else if loose.contains(id.name.as_str()) {
                    x.may(st(loc));
                }
            }
        }
    }
}

// ---------------------------------------------------------------------------------------------
// C09
// ---------------------------------------------------------------------------------------------
#[derive(Clone, Copy, Debug, PartialEq, Eq)]
pub enum Version {
    /// no `pragma solidity` directive at all
    Absent,
    /// exactly one `pragma solidity` naming one full version (with an optional operator)
    One(u64, u64, u64),
    /// several directives, a compound range, or numbers that do not fit 32 bits: unspecified
    Unclear,
}

pub fn version_of(nodes: &[Node]) -> Version {
    let mut found: Vec<&str> = vec![];
    for n in nodes {
        if let Node::SourceUnitPart(pt::SourceUnitPart::PragmaDirective(_, ident, value)) = n {
            if ident.name == "solidity" {
                found.push(&value.string);
            }
        }
    }
    if found.is_empty() {
        return Version::Absent;
    }
    if found.len() > 1 {
        return Version::Unclear;
    }
    let stripped = without_comments(found[0]);
    let t = stripped.trim();
    let t = t.trim_start_matches(|c: char| c == '^' || c == '~' || c == '=' || c == '>' || c == '<' || c == 'v' || c.is_whitespace());
    match pinned_version(t) {
        Some((a, b, c)) if a <= i32::MAX as u64 && b <= i32::MAX as u64 && c <= i32::MAX as u64 => Version::One(a, b, c),
        _ => Version::Unclear,
    }
}

fn uses_safemath(nodes: &[Node]) -> bool {
    let names = |u: &pt::Using| match &u.list {
        pt::UsingList::Library(path) => path.identifiers.iter().any(|i| i.name == "SafeMath"),
        _ => false,
    };
    nodes.iter().any(|n| match n {
        Node::SourceUnitPart(pt::SourceUnitPart::Using(u)) => names(u),
        Node::ContractPart(pt::ContractPart::Using(u)) => names(u),
        _ => false,
    })
}

fn safe_math_sites(nodes: &[Node]) -> BTreeSet<usize> {
    let mut s = BTreeSet::new();
    if !uses_safemath(nodes) {
        return s;
    }
    for e in exprs(nodes) {
        if let E::FunctionCall(_, callee, _) = e {
            if let E::MemberAccess(loc, _, id) = &**callee {
                if ["add", "sub", "mul", "div"].contains(&id.name.as_str()) {
                    s.insert(st(loc));
                }
            }
        }
    }
    s
}

/// require calls whose last argument is a string literal: (start of the literal, byte length of the first
/// piece, byte length of the whole concatenation)
fn require_strings(nodes: &[Node]) -> Vec<(usize, usize, usize)> {
    let mut v = vec![];
    for e in exprs(nodes) {
        if let E::FunctionCall(_, callee, args) = e {
            if is_ident(callee, "require") {
                if let Some(E::StringLiteral(pieces)) = args.last() {
                    if let Some(first) = pieces.first() {
                        let total: usize = pieces.iter().map(|p| p.string.len()).sum();
                        v.push((st(&first.loc), first.string.len(), total));
                    }
                }
            }
        }
    }
    v
}

fn gated(version: Version, on: impl Fn((u64, u64, u64)) -> bool, sites_must: BTreeSet<usize>, sites_may: BTreeSet<usize>, x: &mut Expect) {
    match version {
        Version::Absent => {}
        Version::Unclear => {
            for s in sites_may {
                x.may(s);
            }
        }
        Version::One(a, b, c) => {
            if on((a, b, c)) {
                for s in sites_may {
                    x.may(s);
                }
                for s in sites_must {
                    x.both(s);
                }
            }
        }
    }
}

// ---------------------------------------------------------------------------------------------
pub fn expected(det: Det, su: &pt::SourceUnit) -> Expect {
    let nodes = nodes_of_su(su);
    let mut x = Expect::default();
    match det {
        Det::AddressBalance => address_balance(&nodes, &mut x),
        Det::AddressZero => address_zero(&nodes, &mut x),
        Det::BoolEqualsBool => bool_equals_bool(&nodes, &mut x),
        Det::AssignUpdateArrayValue => assign_update_array_value(&nodes, &mut x),
        Det::CacheArrayLength => cache_array_length(&nodes, &mut x),
        Det::IncrementDecrement => increment_decrement(&nodes, &mut x),
        Det::MultipleRequire => multiple_require(&nodes, &mut x),
        Det::OptimalComparison => optimal_comparison(&nodes, &mut x),
        Det::ShiftMath => shift_math(&nodes, &mut x),
        Det::SolidityKeccak256 => solidity_keccak256(&nodes, &mut x),
        Det::SolidityMath => solidity_math(&nodes, &mut x),
        Det::PayableFunction => payable_function(&nodes, &mut x),
        Det::PrivateConstant => private_constant(&nodes, &mut x),
        Det::PrivateVarsLeadingUnderscore => private_vars_leading_underscore(&nodes, &mut x),
        Det::PrivateFuncLeadingUnderscore => private_func_leading_underscore(&nodes, &mut x),
        Det::ConstructorOrder => constructor_order(&nodes, &mut x),
        Det::UnsafeErc20Operation => unsafe_erc20_operation(&nodes, &mut x),
        Det::DivideBeforeMultiply => divide_before_multiply(&nodes, &mut x),
        Det::FloatingPragma => floating_pragma(&nodes, &mut x),
        Det::UnprotectedSelfdestruct => unprotected_selfdestruct(&nodes, &mut x),
        Det::ConstantVariables => constant_variables(&nodes, &mut x),
        Det::ImmutableVariables => immutable_variables(&nodes, &mut x),
        Det::MemoryToCalldata => memory_to_calldata(&nodes, &mut x),
        Det::Sstore => sstore(&nodes, &mut x),
        Det::SafeMathPre080 => {
            let s = safe_math_sites(&nodes);
            gated(version_of(&nodes), |v| v < (0, 8, 0), s.clone(), s, &mut x)
        }
        Det::SafeMathPost080 => {
            let s = safe_math_sites(&nodes);
            gated(version_of(&nodes), |v| v >= (0, 8, 0), s.clone(), s, &mut x)
        }
        Det::StringErrors => {
            let s: BTreeSet<usize> = require_strings(&nodes).iter().map(|t| t.0).collect();
            gated(version_of(&nodes), |v| v >= (0, 8, 4), s.clone(), s, &mut x)
        }
        Det::ShortRevertString => {
            let rs = require_strings(&nodes);
            // must: the (first piece of the) literal alone is >= 32 bytes; may: the whole concatenation is
            let must: BTreeSet<usize> = rs.iter().filter(|t| t.1 >= 32).map(|t| t.0).collect();
            let may: BTreeSet<usize> = rs.iter().filter(|t| t.2 >= 32).map(|t| t.0).collect();
            gated(version_of(&nodes), |v| v < (0, 8, 4), must, may, &mut x)
        }
        // C10 is not specified here: no expectation (totality / composition only)
        Det::PackStorageVariables | Det::PackStructVariables => {}
    }
    x
}

/// does section 8 specify this detector here (pack_* are C10's business)
pub fn specified(det: Det) -> bool {
    !matches!(det, Det::PackStorageVariables | Det::PackStructVariables)
}

// ---------------------------------------------------------------------------------------------
// description of what starts at an offset (used to name the class of an unexpected / missed report)
// ---------------------------------------------------------------------------------------------
fn type_kind(ty: &E) -> &'static str {
    match ty {
        E::Type(_, pt::Type::Mapping(..)) => "mapping",
        E::Type(_, pt::Type::Function { .. }) => "function-type",
        E::Type(_, pt::Type::String) => "string",
        E::Type(_, pt::Type::DynamicBytes) => "bytes",
        E::Type(..) => "elementary",
        E::ArraySubscript(..) => "array",
        E::Variable(_) | E::MemberAccess(..) => "user-defined",
        _ => "other-type",
    }
}
fn vis_name(v: &pt::Visibility) -> &'static str {
    match v {
        pt::Visibility::External(_) => "external",
        pt::Visibility::Public(_) => "public",
        pt::Visibility::Internal(_) => "internal",
        pt::Visibility::Private(_) => "private",
    }
}
fn describe_var(v: &pt::VariableDefinition, scope: &str, det: Option<Det>) -> String {
    let vis = v
        .attrs
        .iter()
        .filter_map(|a| if let pt::VariableAttribute::Visibility(v) = a { Some(vis_name(v)) } else { None })
        .next()
        .unwrap_or("default-visibility");
    let m = if var_has_constant(v) {
        "constant"
    } else if var_has_immutable(v) {
        "immutable"
    } else {
        "mutable"
    };
    let u = if v.name.name.starts_with('_') { "underscore" } else { "no-underscore" };
    // only the attributes the detector's pattern talks about (keeps one defect under few keys)
    match det {
        Some(Det::PrivateConstant) => format!("{}-variable({},{},{})", scope, type_kind(&v.ty), vis, m),
        Some(Det::PrivateVarsLeadingUnderscore) => format!("{}-variable({},{},{},{})", scope, type_kind(&v.ty), vis, m, u),
        Some(Det::ConstantVariables) | Some(Det::ImmutableVariables) | Some(Det::Sstore) => format!("{}-variable({},{})", scope, type_kind(&v.ty), m),
        _ => format!("{}-variable({},{},{},{})", scope, type_kind(&v.ty), vis, m, u),
    }
}
fn describe_fn(f: &pt::FunctionDefinition, scope: &str) -> String {
    let vis = f
        .attributes
        .iter()
        .filter_map(|a| if let pt::FunctionAttribute::Visibility(v) = a { Some(vis_name(v)) } else { None })
        .next()
        .unwrap_or("default-visibility");
    let pay = if fn_payable(f) { "payable" } else { "non-payable" };
    let body = if f.body.is_some() { "with-body" } else { "no-body" };
    format!("{}-{}({},{},{})", scope, f.ty, vis, pay, body)
}

pub fn describe_offset(su: &pt::SourceUnit, off: usize, det: Option<Det>) -> String {
    let nodes = nodes_of_su(su);
    for n in &nodes {
        match n {
            Node::ContractPart(pt::ContractPart::VariableDefinition(v)) if st(&v.ty.loc()) == off => return describe_var(v, "state", det),
            Node::SourceUnitPart(pt::SourceUnitPart::VariableDefinition(v)) if st(&v.ty.loc()) == off => return describe_var(v, "file", det),
            Node::ContractPart(pt::ContractPart::FunctionDefinition(f)) => {
                if st(&f.loc) == off {
                    return describe_fn(f, "member");
                }
                if let Some(id) = &f.name {
                    if st(&id.loc) == off {
                        return format!("name-of-{}", describe_fn(f, "member"));
                    }
                }
                for (_, p) in &f.params {
                    if let Some(pt::Parameter { storage: Some(s), .. }) = p {
                        if st(&s.loc()) == off {
                            return format!("{}-parameter-of-{}", s, describe_fn(f, "member"));
                        }
                    }
                }
            }
            Node::SourceUnitPart(pt::SourceUnitPart::FunctionDefinition(f)) => {
                if st(&f.loc) == off {
                    return describe_fn(f, "free");
                }
                if let Some(id) = &f.name {
                    if st(&id.loc) == off {
                        return format!("name-of-{}", describe_fn(f, "free"));
                    }
                }
                for (_, p) in &f.params {
                    if let Some(pt::Parameter { storage: Some(s), .. }) = p {
                        if st(&s.loc()) == off {
                            return format!("{}-parameter-of-{}", s, describe_fn(f, "free"));
                        }
                    }
                }
            }
            Node::SourceUnitPart(pt::SourceUnitPart::PragmaDirective(l, id, _)) if st(l) == off => return format!("pragma-{}", id.name),
            _ => {}
        }
    }
    // outermost expression / statement starting there
    for n in &nodes {
        if let Node::Expression(e) = n {
            if st(&e.loc()) == off {
                return crate::c01::node_kind_name(n);
            }
        }
    }
    for n in &nodes {
        if let Node::Statement(s) = n {
            if st(&s.loc()) == off {
                return crate::c01::node_kind_name(n);
            }
        }
    }
    "nothing-starts-here".to_string()
}

/// state variable (contract member) whose type expression starts at `off`
pub fn state_variable_at(su: &pt::SourceUnit, off: usize) -> Option<String> {
    let nodes = nodes_of_su(su);
    let cs = contracts(&nodes);
    member_variables(&cs).into_iter().find(|v| st(&v.ty.loc()) == off).map(|v| v.name.name.clone())
}

/// is `name` the target of a plain assignment inside some constructor body
pub fn assigned_in_constructor_body(su: &pt::SourceUnit, name: &str) -> bool {
    let nodes = nodes_of_su(su);
    let cs = contracts(&nodes);
    for (_, f) in member_functions(&cs) {
        if f.ty == pt::FunctionTy::Constructor {
            if let Some(b) = &f.body {
                for e in exprs(&nodes_of_stmt(b)) {
                    if let E::Assign(_, l, _) = e {
                        if is_ident(l, name) {
                            return true;
                        }
                    }
                }
            }
        }
    }
    false
}

/// (smallest end, largest end) over the located constructs that start exactly at `off`: expressions,
/// contract members (a function definition extends to the end of its body), top-level items, function names,
/// data-location keywords
pub fn extents_at(su: &pt::SourceUnit, off: usize) -> Option<(usize, usize)> {
    let nodes = nodes_of_su(su);
    let mut ends: Vec<usize> = vec![];
    let mut add = |l: &pt::Loc, extra_end: Option<usize>| {
        if st(l) == off {
            let e = en(l);
            ends.push(match extra_end {
                Some(x) if x != usize::MAX && x > e => x,
                _ => e,
            });
        }
    };
    let fn_parts = |f: &pt::FunctionDefinition, add: &mut dyn FnMut(&pt::Loc, Option<usize>)| {
        add(&f.loc, f.body.as_ref().map(|b| en(&b.loc())));
        if let Some(id) = &f.name {
            add(&id.loc, None);
        }
        for (_, p) in &f.params {
            if let Some(pt::Parameter { storage: Some(sl), .. }) = p {
                add(&sl.loc(), None);
            }
        }
    };
    for n in &nodes {
        match n {
            Node::Expression(e) => match e {
                E::StringLiteral(pieces) => {
                    if let (Some(a), Some(b)) = (pieces.first(), pieces.last()) {
                        add(&a.loc, Some(en(&b.loc)));
                    }
                }
                e => add(&e.loc(), None),
            },
            Node::ContractPart(p) => match p {
                pt::ContractPart::FunctionDefinition(f) => fn_parts(f, &mut add),
                p => add(p.loc(), None),
            },
            Node::SourceUnitPart(p) => match p {
                pt::SourceUnitPart::FunctionDefinition(f) => fn_parts(f, &mut add),
                p => add(p.loc(), None),
            },
            _ => {}
        }
    }
    let lo = ends.iter().cloned().filter(|e| *e != usize::MAX).min()?;
    let hi = ends.iter().cloned().filter(|e| *e != usize::MAX).max()?;
    Some((lo, hi))
}

/// declared mutability ("constant" / "immutable") of the state variable that a C08 report at `off` is about:
/// the variable whose type starts at `off`, or the target of the plain assignment that starts at `off`
pub fn declared_mutability_at(su: &pt::SourceUnit, off: usize) -> Option<&'static str> {
    let nodes = nodes_of_su(su);
    let cs = contracts(&nodes);
    let vars = member_variables(&cs);
    let of = |v: &pt::VariableDefinition| {
        if var_has_constant(v) {
            Some("constant")
        } else if var_has_immutable(v) {
            Some("immutable")
        } else {
            None
        }
    };
    if let Some(v) = vars.iter().find(|v| st(&v.ty.loc()) == off) {
        return of(v);
    }
    for e in exprs(&nodes) {
        if let E::Assign(loc, l, _) = e {
            if st(loc) == off {
                if let E::Variable(id) = &**l {
                    if let Some(v) = vars.iter().find(|v| v.name.name == id.name) {
                        return of(v);
                    }
                }
            }
        }
    }
    None
}
