//! Result record every check prints (one JSON object on stdout); `vx` turns it into evidence,
//! known-finding lines and VIOLATION lines.
use crate::json::J;
use std::collections::BTreeSet;

pub struct Violation {
    /// stable identity of the failing input class (matched against /verif/known_findings.json)
    pub key: String,
    pub what: String,
    /// argv for `vxn replay ...` (big payloads are passed as files by vx)
    pub replay: Vec<String>,
    pub expected: String,
    pub actual: String,
}

pub struct CheckResult {
    pub check: String,
    pub evaluations: u64,
    pub nontrivial: BTreeSet<String>,
    pub rule: String,
    pub bound: String,
    pub exhaustive: bool,
    pub samples: Vec<J>,
    pub violations: Vec<Violation>,
    pub assumptions: Vec<String>,
    pub extra: Vec<(String, J)>,
}

impl CheckResult {
    pub fn new(check: &str) -> Self {
        CheckResult {
            check: check.to_string(),
            evaluations: 0,
            nontrivial: BTreeSet::new(),
            rule: String::new(),
            bound: String::new(),
            exhaustive: false,
            samples: vec![],
            violations: vec![],
            assumptions: vec![],
            extra: vec![],
        }
    }
    pub fn sample(&mut self, j: J) {
        if self.samples.len() < 6 {
            self.samples.push(j);
        }
    }
    pub fn violate(&mut self, key: &str, what: &str, replay: Vec<String>, expected: String, actual: String) {
        // keep the first (smallest, generators go small-to-large) witness per key
        if self.violations.iter().any(|v| v.key == key) {
            return;
        }
        self.violations.push(Violation { key: key.to_string(), what: what.to_string(), replay, expected, actual });
    }
    pub fn to_json(&self) -> J {
        let mut kv = vec![
            ("check".to_string(), J::s(self.check.clone())),
            ("evaluations".to_string(), J::Num(self.evaluations as i64)),
            ("distinct_nontrivial".to_string(), J::Num(self.nontrivial.len() as i64)),
            ("rule".to_string(), J::s(self.rule.clone())),
            ("bound".to_string(), J::s(self.bound.clone())),
            ("exhaustive".to_string(), J::Bool(self.exhaustive)),
            ("samples".to_string(), J::Arr(self.samples.clone())),
            (
                "violations".to_string(),
                J::Arr(
                    self.violations
                        .iter()
                        .map(|v| {
                            J::obj(vec![
                                ("key", J::s(v.key.clone())),
                                ("what", J::s(v.what.clone())),
                                ("replay", J::arr_s(v.replay.clone())),
                                ("expected", J::s(v.expected.clone())),
                                ("actual", J::s(v.actual.clone())),
                            ])
                        })
                        .collect(),
                ),
            ),
            ("assumptions".to_string(), J::arr_s(self.assumptions.clone())),
        ];
        for (k, v) in &self.extra {
            kv.push((k.clone(), v.clone()));
        }
        J::Obj(kv)
    }
}

/// xorshift PRNG seeded from VERIF_SEED (no external crates)
pub struct Rng(pub u64);
impl Rng {
    pub fn new(seed: u64) -> Self {
        Rng(seed.wrapping_mul(0x9E3779B97F4A7C15) ^ 0xD1B54A32D192ED03 | 1)
    }
    pub fn next(&mut self) -> u64 {
        let mut x = self.0;
        x ^= x << 13;
        x ^= x >> 7;
        x ^= x << 17;
        self.0 = x;
        x
    }
    pub fn below(&mut self, n: usize) -> usize {
        (self.next() % (n as u64)) as usize
    }
    pub fn pick<'a, T>(&mut self, v: &'a [T]) -> &'a T {
        &v[self.below(v.len())]
    }
    pub fn shuffle<T>(&mut self, v: &mut Vec<T>) {
        for i in (1..v.len()).rev() {
            let j = self.below(i + 1);
            v.swap(i, j);
        }
    }
}
