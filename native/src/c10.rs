//! C10 (bounded counterexample engine / stand-in): the slot model against the real
//! utils::get_type_size, utils::storage_slots_used and the two pack_* detectors.
use crate::json::J;
use crate::report::{CheckResult, Rng};
use solang_parser::pt;
use solstat::analyzer::optimizations::pack_storage_variables::pack_storage_variables_optimization;
use solstat::analyzer::optimizations::pack_struct_variables::pack_struct_variables_optimization;
use solstat::analyzer::utils;

/// independent executable statement of Solidity's layout rule (DESIGN §8 C10)
pub fn model_slots(v: &[u16]) -> u32 {
    let mut slots: u32 = 0;
    let mut used: u32 = 0; // bits used in the open slot; 0 = no open slot
    for &s in v {
        let s = s as u32;
        if used == 0 {
            slots += 1;
            used = s;
        } else if used + s <= 256 {
            used += s;
        } else {
            slots += 1;
            used = s;
        }
    }
    slots
}

fn type_src_and_size() -> Vec<(String, u16)> {
    let mut v: Vec<(String, u16)> = vec![
        ("bool".into(), 8),
        ("address".into(), 160),
        ("address payable".into(), 160),
        ("string".into(), 256),
        ("bytes".into(), 256),
        ("uint".into(), 256),
        ("int".into(), 256),
        ("uint[]".into(), 256),
        ("uint8[4]".into(), 256),
        ("mapping(uint => uint)".into(), 256),
        ("Foo".into(), 256),
        ("function(uint) external returns (uint)".into(), 256),
    ];
    for n in (8..=256).step_by(8) {
        v.push((format!("uint{}", n), n as u16));
        v.push((format!("int{}", n), n as u16));
    }
    for n in 1..=32 {
        v.push((format!("bytes{}", n), (n * 8) as u16));
    }
    v
}

fn permutations_min(v: &[u16]) -> u32 {
    // minimum slot count over all orderings (Heap's algorithm), for len <= 7
    let mut a = v.to_vec();
    let n = a.len();
    let mut best = model_slots(&a);
    let mut c = vec![0usize; n];
    let mut i = 0;
    while i < n {
        if c[i] < i {
            if i % 2 == 0 {
                a.swap(0, i);
            } else {
                a.swap(c[i], i);
            }
            best = best.min(model_slots(&a));
            c[i] += 1;
            i = 0;
        } else {
            c[i] = 0;
            i += 1;
        }
    }
    best
}

/// One file with several definitions; each is judged on its own members only.
/// defs: (is_struct, members). Structs are emitted both at file level and nested in a contract.
fn check_defs(r: &mut CheckResult, defs: &[(bool, Vec<(String, u16)>)], tag: &str) {
    let mut src = String::from("pragma solidity 0.8.10;\n");
    let mut starts: Vec<(usize, bool, Vec<u16>)> = vec![]; // (offset of the definition keyword, is_struct, sizes)
    for (k, (is_struct, members)) in defs.iter().enumerate() {
        // in every fourth definition that is a contract, every second member is declared `immutable` (it occupies its place in the
        // declared order like any other member as far as the detector's slot model goes)
        let imm = !*is_struct && k % 4 == 2;
        let decls: Vec<String> = members.iter().enumerate().map(|(i, (t, _))| if imm && i % 2 == 1 { format!("    {} immutable m{};", t, i) } else { format!("    {} m{};", t, i) }).collect();
        let sizes: Vec<u16> = members.iter().map(|m| m.1).collect();
        if *is_struct {
            if k % 2 == 0 {
                starts.push((src.len(), true, sizes));
                src.push_str(&format!("struct S{} {{\n{}\n}}\n", k, decls.join("\n")));
            } else {
                src.push_str(&format!("contract H{} {{\n", k));
                starts.push((src.len(), true, sizes));
                src.push_str(&format!("struct S{} {{\n{}\n}}\n}}\n", k, decls.join("\n")));
            }
        } else {
            let kw = ["contract", "abstract contract", "library", "interface"][if members.is_empty() { k % 4 } else { k % 2 }];
            starts.push((src.len(), false, sizes));
            // every third contract: other members (function, event, modifier, struct) BETWEEN the state variables --
            // the layout is determined by the variables alone, wherever they stand among the members
            let body = if !members.is_empty() && k % 3 == 1 {
                let mut b: Vec<String> = vec![];
                for (i, d) in decls.iter().enumerate() {
                    b.push(d.clone());
                    b.push(match i % 4 {
                        0 => format!("    function f{}_{}() public {{}}", k, i),
                        1 => format!("    event E{}_{}(uint a);", k, i),
                        2 => format!("    modifier md{}_{}() {{ _; }}", k, i),
                        _ => format!("    struct T{}_{} {{ uint8 q; }}", k, i),
                    });
                }
                b.join("\n")
            } else {
                decls.join("\n")
            };
            src.push_str(&format!("{} C{} {{\n{}\n}}\n", kw, k, body));
        }
    }
    let su = match solang_parser::parse(&src, 0) {
        Ok((su, _)) => su,
        Err(_) => {
            r.violate("harness:c10-program-does-not-parse", &src, vec![], String::new(), String::new());
            return;
        }
    };
    for which in ["pack_storage_variables", "pack_struct_variables"] {
        let is_struct_det = which == "pack_struct_variables";
        let su2 = su.clone();
        let res = std::panic::catch_unwind(move || {
            let locs = if is_struct_det { pack_struct_variables_optimization(su2) } else { pack_storage_variables_optimization(su2) };
            locs.into_iter().map(|l| l.start()).collect::<std::collections::BTreeSet<usize>>()
        });
        r.evaluations += 1;
        let replay = vec!["c10-case".to_string(), format!("@src:{}", src), which.to_string()];
        let reported = match res {
            Err(_) => {
                r.violate(&format!("c10:{}:panic", which), "detector panicked", replay, "no panic".into(), "panic".into());
                continue;
            }
            Ok(s) => s,
        };
        let mut expected_any = false;
        for (off, is_struct, sizes) in &starts {
            if *is_struct != is_struct_det {
                if reported.contains(off) {
                    r.violate(&format!("c10:{}:reports-a-definition-of-the-wrong-kind", which), "", replay.clone(), "not reported".into(), "reported".into());
                }
                continue;
            }
            let declared = model_slots(sizes);
            let mut asc = sizes.clone();
            asc.sort();
            let mut desc = asc.clone();
            desc.reverse();
            let best = if sizes.len() <= 7 { permutations_min(sizes) } else { model_slots(&asc).min(model_slots(&desc)) };
            let rep = reported.contains(off);
            let multi = if defs.len() > 1 { "@multi-definition-file" } else { "" };
            if rep && best >= declared {
                r.violate(&format!("c10:{}:reported-but-no-reordering-saves-a-slot{}", which, multi), &format!("{}: members of sizes {:?} occupy {} slots as declared and at least {} in any order, yet the definition is reported", which, sizes, declared, best),
                    replay.clone(), "not reported".into(), "reported".into());
            }
            if !rep && model_slots(&asc) < declared && model_slots(&desc) < declared {
                r.violate(&format!("c10:{}:sorting-saves-a-slot-but-not-reported{}", which, multi), &format!("{}: sizes {:?}: declared {} slots, ascending {} / descending {}", which, sizes, declared, model_slots(&asc), model_slots(&desc)),
                    replay.clone(), "reported".into(), "not reported".into());
            }
            if best < declared || rep {
                expected_any = true;
                r.nontrivial.insert(format!("{}:{}:{:?}", which, tag, sizes));
            }
        }
        let known: std::collections::BTreeSet<usize> = starts.iter().map(|s| s.0).collect();
        if reported.iter().any(|o| !known.contains(o)) {
            r.violate(&format!("c10:{}:reports-an-unknown-location", which), "a reported location is not the start of a contract/struct definition", replay.clone(), format!("{:?}", known), format!("{:?}", reported));
        }
        if expected_any && r.samples.len() < 3 {
            r.sample(J::obj(vec![("detector", J::s(which)), ("definitions", J::s(format!("{:?}", starts.iter().map(|s| (s.1, s.2.clone())).collect::<Vec<_>>())))]));
        }
    }
}

fn check_program(r: &mut CheckResult, members: &[(String, u16)], as_struct: bool, tag: &str) {
    check_defs(r, &[(as_struct, members.to_vec())], tag);
}

pub fn run(tier: &str, seed: u64) -> CheckResult {
    let mut r = CheckResult::new("c10");
    let mut rng = Rng::new(seed);
    // (1) get_type_size over every elementary type spelling
    let types = type_src_and_size();
    for (t, want) in &types {
        let src = format!("pragma solidity 0.8.10;\ncontract C {{ {} v; }}\n", t);
        if let Ok((su, _)) = solang_parser::parse(&src, 0) {
            for part in su.0 {
                if let pt::SourceUnitPart::ContractDefinition(cd) = part {
                    for p in cd.parts {
                        if let pt::ContractPart::VariableDefinition(vd) = p {
                            let got = utils::get_type_size(vd.ty.clone());
                            r.evaluations += 1;
                            r.nontrivial.insert(format!("size:{}", t));
                            if got != *want {
                                r.violate(&format!("c10:get_type_size:{}", t.split(|c: char| !c.is_alphanumeric()).next().unwrap_or("?").trim_end_matches(char::is_numeric)),
                                    &format!("size of `{}`", t), vec!["c10-size".into(), t.clone(), want.to_string()], want.to_string(), got.to_string());
                            }
                        }
                    }
                }
            }
        } else {
            r.violate("harness:c10-type-does-not-parse", t, vec![], String::new(), String::new());
        }
    }
    // (2) storage_slots_used: exhaustive over all sequences of byte-granular sizes up to length L
    let l = if tier == "thorough" { 6 } else { 5 };
    let sizes: Vec<u16> = (1..=32).map(|k| k * 8).collect();
    let mut idx = vec![0usize; 0];
    let mut count = 0u64;
    for len in 0..=l {
        idx.clear();
        idx.resize(len, 0);
        loop {
            let v: Vec<u16> = idx.iter().map(|&i| sizes[i]).collect();
            let want = model_slots(&v);
            let got = utils::storage_slots_used(v.clone());
            count += 1;
            if got != want {
                let cls = if v.iter().map(|x| *x as u32).sum::<u32>() % 256 == 0 { "at-256-boundary" } else { "general" };
                r.violate(&format!("c10:storage_slots_used:{}", cls), &format!("sizes {:?}", v), vec!["c10-slots".into(), v.iter().map(|x| x.to_string()).collect::<Vec<_>>().join(",")], want.to_string(), got.to_string());
            }
            // next
            let mut k = len;
            loop {
                if k == 0 {
                    break;
                }
                k -= 1;
                idx[k] += 1;
                if idx[k] < sizes.len() {
                    break;
                }
                idx[k] = 0;
                if k == 0 {
                    k = usize::MAX;
                    break;
                }
            }
            if len == 0 || k == usize::MAX {
                break;
            }
        }
    }
    r.evaluations += count;
    r.nontrivial.insert(format!("slots-exhaustive-len<={}:{}", l, count));
    // sampled beyond
    let nrand = if tier == "thorough" { 200_000 } else { 20_000 };
    for _ in 0..nrand {
        let len = 6 + rng.below(20);
        let v: Vec<u16> = (0..len).map(|_| *rng.pick(&sizes)).collect();
        r.evaluations += 1;
        if utils::storage_slots_used(v.clone()) != model_slots(&v) {
            r.violate("c10:storage_slots_used:general", &format!("sizes {:?}", v), vec!["c10-slots".into(), v.iter().map(|x| x.to_string()).collect::<Vec<_>>().join(",")], model_slots(&v).to_string(), utils::storage_slots_used(v.clone()).to_string());
        }
    }
    // (3) the detectors on generated contracts / structs
    let elem: Vec<(String, u16)> = types.iter().filter(|(t, _)| !t.contains("Foo") && !t.contains("function")).cloned().collect();
    let nprog = if tier == "thorough" { 6000 } else { 600 };
    for i in 0..nprog {
        let len = rng.below(7);
        let mut members = vec![];
        for _ in 0..len {
            // bias towards sizes that make boundaries interesting
            let m = match rng.below(6) {
                0 => ("bool".to_string(), 8u16),
                1 => ("address".to_string(), 160),
                2 => ("uint128".to_string(), 128),
                3 => ("uint256".to_string(), 256),
                _ => rng.pick(&elem).clone(),
            };
            members.push(m);
        }
        check_program(&mut r, &members, i % 2 == 0, "rand");
    }
    for _ in 0..nprog / 2 {
        let ndefs = 2 + rng.below(3);
        let mut defs = vec![];
        for _ in 0..ndefs {
            let len = rng.below(5);
            let mut members = vec![];
            for _ in 0..len {
                let m = match rng.below(5) {
                    0 => ("bool".to_string(), 8u16),
                    1 => ("address".to_string(), 160),
                    2 => ("uint128".to_string(), 128),
                    _ => rng.pick(&elem).clone(),
                };
                members.push(m);
            }
            defs.push((rng.below(2) == 0, members));
        }
        check_defs(&mut r, &defs, "multi");
    }
    for fixed in [
        vec![("uint8", 8u16), ("uint256", 256), ("uint8", 8)],
        vec![("uint128", 128), ("uint128", 128)],
        vec![("bool", 8), ("address payable", 160), ("bool", 8), ("address", 160)],
        vec![("address", 160), ("address", 160), ("address", 160)],
        vec![("uint136", 136), ("uint136", 136), ("uint136", 136), ("uint136", 136)],
        vec![("uint248", 248), ("uint8", 8), ("uint8", 8)],
        vec![("uint8", 8), ("uint248", 248), ("uint8", 8), ("uint248", 248)],
    ] {
        let m: Vec<(String, u16)> = fixed.iter().map(|(a, b)| (a.to_string(), *b)).collect();
        check_program(&mut r, &m, false, "fixed");
        check_program(&mut r, &m, true, "fixed");
    }
    r.exhaustive = false;
    r.rule = "storage_slots_used: every sequence of the 32 byte-granular sizes up to the stated length (exhaustive) + seeded longer ones; get_type_size: every elementary type spelling; detectors: generated contracts/structs with 0..6 members, minimum over all permutations as oracle; distinct_nontrivial counts type spellings + member lists where some reordering saves a slot or a report was made".into();
    r.bound = format!("slot counter exhaustive for length <= {} over 32 sizes ({} sequences); {} random sequences of length 6..25; {} generated programs", l, count, nrand, nprog);
    r.assumptions.push("bounded: the slot counter part is exhaustive only up to the stated length".into());
    r
}

pub fn dispatch(cmd: &str, rest: &[String], tier: &str, seed: u64) -> Option<i32> {
    match cmd {
        "c10" => {
            println!("{}", run(tier, seed).to_json().render());
            Some(0)
        }
        "c10-slots" => {
            let v: Vec<u16> = rest[0].split(',').filter(|s| !s.is_empty()).map(|s| s.parse().unwrap()).collect();
            let got = utils::storage_slots_used(v.clone());
            let want = model_slots(&v);
            println!("sizes {:?}: storage_slots_used = {}, layout rule = {}", v, got, want);
            Some(if got == want { 0 } else { 1 })
        }
        "c10-size" => {
            let src = format!("pragma solidity 0.8.10;\ncontract C {{ {} v; }}\n", rest[0]);
            let want: u16 = rest[1].parse().unwrap();
            let su = solang_parser::parse(&src, 0).unwrap().0;
            let mut got = 0;
            for part in su.0 {
                if let pt::SourceUnitPart::ContractDefinition(cd) = part {
                    for p in cd.parts {
                        if let pt::ContractPart::VariableDefinition(vd) = p {
                            got = utils::get_type_size(vd.ty.clone());
                        }
                    }
                }
            }
            println!("get_type_size({}) = {}, expected {}", rest[0], got, want);
            Some(if got == want { 0 } else { 1 })
        }
        "c10-case" => {
            // the replay source carries the definitions; re-derive (kind, sizes) from the text and re-judge
            let src = crate::arg_or_file(&rest[0]);
            let table = type_src_and_size();
            let mut defs: Vec<(bool, Vec<(String, u16)>)> = vec![];
            let mut cur: Option<(bool, Vec<(String, u16)>)> = None;
            for line in src.lines() {
                let l = line.trim();
                if l.starts_with("struct S") {
                    cur = Some((true, vec![]));
                } else if (l.starts_with("contract C") || l.starts_with("abstract contract C") || l.starts_with("library C") || l.starts_with("interface C")) && l.ends_with('{') {
                    cur = Some((false, vec![]));
                } else if l == "}" {
                    if let Some(d) = cur.take() {
                        defs.push(d);
                    }
                } else if let Some(pos) = l.rfind(" m") {
                    if l.ends_with(';') {
                        let t = l[..pos].to_string();
                        if let (Some(c), Some((_, sz))) = (cur.as_mut(), table.iter().find(|(n, _)| *n == t)) {
                            c.1.push((t, *sz));
                        }
                    }
                }
            }
            let mut r = CheckResult::new("c10");
            check_defs(&mut r, &defs, "replay");
            println!("definitions re-derived from the source: {:?}", defs.iter().map(|d| (d.0, d.1.iter().map(|m| m.1).collect::<Vec<_>>())).collect::<Vec<_>>());
            for v in &r.violations {
                println!("violates: {} ({})", v.key, v.what);
            }
            Some(if r.violations.is_empty() { 0 } else { 1 })
        }
        _ => None,
    }
}
