//! C11, C12, C13: executable contracts of generate_*_report / generate_report (bounded, never proof).
//!
//! The real public functions are called on generated findings maps and their output is READ BACK:
//! the text is cut at the `### Lines` markers, the `- file:line` entries are read up to the blank
//! line, the text in front of every list is matched against the constant section texts (taken
//! directly from the `report_sections::*::<module>::report_section_content` functions, i.e. through
//! a table that is independent of the 30-arm `get_*_report_section` mapping under test).
//!
//!   C11  entries (multiset, per pattern) == findings; section of p occurs iff p has >= 1 line;
//!        nothing else is in front of a list than the section of the pattern it belongs to.
//!   C12  printed total == number of entries listed; severity heading iff finding of that severity;
//!        every vulnerability under its own heading; solstat_report.md == concatenation of exactly
//!        the parts of the categories that have findings.
//!   C13  output is byte-identical for every fresh map instance, insertion order of the patterns,
//!        order of the (file, lines) elements, map capacity and process; order is the canonical one.
//!
//! Replay: `vxn c11-case|c12-case|c13-case @src:<case>`; the case format is line based:
//!     whole                      (optional, first line: run generate_report on the three parts)
//!     cat vuln|opt|qa            (starts the findings map of one category)
//!     p <PatternName>            (insert this pattern next; its Vec follows)
//!     f <l1,l2,..>|<file name>   (one (file, line set) element; the name is the rest of the line)
use crate::json::J;
use crate::report::{CheckResult, Rng};
use solstat::analyzer::optimizations::Optimization as O;
use solstat::analyzer::qa::QualityAssurance as Q;
use solstat::analyzer::vulnerabilities::Vulnerability as V;
use solstat::report::report_sections::{optimizations as so, qa as sq, vulnerabilities as sv};
use solstat::report::{generation, optimization_report as orep, qa_report as qrep, vulnerability_report as vrep};
use std::collections::{BTreeMap, BTreeSet, HashMap};
use std::hash::Hash;
use std::panic::{catch_unwind, AssertUnwindSafe};

// ------------------------------------------------------------------ the patterns (specification tables)

const OPTS: [(O, fn() -> String); 23] = [
    (O::AddressBalance, so::address_balance::report_section_content),
    (O::AddressZero, so::address_zero::report_section_content),
    (O::AssignUpdateArrayValue, so::assign_update_array_value::report_section_content),
    (O::CacheArrayLength, so::cache_array_length::report_section_content),
    (O::ConstantVariables, so::constant_variable::report_section_content),
    (O::BoolEqualsBool, so::bool_equals_bool::report_section_content),
    (O::ImmutableVarialbes, so::immutable_variable::report_section_content),
    (O::IncrementDecrement, so::increment_decrement::report_section_content),
    (O::MemoryToCalldata, so::memory_to_calldata::report_section_content),
    (O::MultipleRequire, so::multiple_require::report_section_content),
    (O::PackStorageVariables, so::pack_storage_variables::report_section_content),
    (O::PackStructVariables, so::pack_struct_variables::report_section_content),
    (O::PayableFunction, so::payable_function::report_section_content),
    (O::PrivateConstant, so::private_constant::report_section_content),
    (O::SafeMathPre080, so::safe_math_pre_080::report_section_content),
    (O::SafeMathPost080, so::safe_math_post_080::report_section_content),
    (O::ShiftMath, so::shift_math::report_section_content),
    (O::SolidityKeccak256, so::solidity_keccak256::report_section_content),
    (O::SolidityMath, so::solidity_math::report_section_content),
    (O::Sstore, so::sstore::report_section_content),
    (O::StringErrors, so::string_errors::report_section_content),
    (O::OptimalComparison, so::optimal_comparison::report_section_content),
    (O::ShortRevertString, so::short_revert_string::report_section_content),
];

/// severity per the property text: selfdestruct high, divide-before-multiply medium, ERC20 and pragma low
const VULNS: [(V, fn() -> String, usize); 4] = [
    (V::FloatingPragma, sv::floating_pragma::report_section_content, 2),
    (V::UnsafeERC20Operation, sv::unsafe_erc20_operation::report_section_content, 2),
    (V::UnprotectedSelfdestruct, sv::unprotected_selfdestruct::report_section_content, 0),
    (V::DivideBeforeMultiply, sv::divide_before_multiply::report_section_content, 1),
];

const QAS: [(Q, fn() -> String); 3] = [
    (Q::ConstructorOrder, sq::constructor_order::report_section_content),
    (Q::PrivateVarsLeadingUnderscore, sq::private_vars_leading_underscore::report_section_content),
    (Q::PrivateFuncLeadingUnderscore, sq::private_func_leading_underscore::report_section_content),
];

const SEV: [&str; 3] = ["high", "medium", "low"];
const HEADINGS: [&str; 3] = ["## High Risk", "## Medium Risk", "## Low Risk"];
const MARKER: &str = "### Lines";

#[derive(Clone, Copy, PartialEq, Eq, Debug, PartialOrd, Ord)]
enum Cat {
    Vuln = 0,
    Opt = 1,
    Qa = 2,
}
const CATS: [Cat; 3] = [Cat::Vuln, Cat::Opt, Cat::Qa];
impl Cat {
    fn tag(self) -> &'static str {
        ["vuln", "opt", "qa"][self as usize]
    }
    fn long(self) -> &'static str {
        ["vulnerabilities", "optimizations", "qa"][self as usize]
    }
}

struct Pat {
    name: String,
    /// section text taken directly from the report_sections module of this pattern (the specification)
    direct: String,
    /// what get_*_report_section(pattern) returned (Err: it panicked)
    mapped: Result<String, String>,
}

struct Spec {
    pats: [Vec<Pat>; 3],
    /// (text before the total, text after the total) of the overview, None for QA
    ov: [Option<(String, String)>; 3],
    qa_overview: String,
}

impl Spec {
    fn new() -> Spec {
        let mut v = vec![];
        for (p, f, _) in VULNS.iter() {
            let p = *p;
            v.push(Pat { name: format!("{:?}", p), direct: f(), mapped: guard(move || vrep::get_vulnerability_report_section(p).0) });
        }
        let mut o = vec![];
        for (p, f) in OPTS.iter() {
            let p = *p;
            o.push(Pat { name: format!("{:?}", p), direct: f(), mapped: guard(move || orep::get_optimization_report_section(p)) });
        }
        let mut q = vec![];
        for (p, f) in QAS.iter() {
            let p = *p;
            q.push(Pat { name: format!("{:?}", p), direct: f(), mapped: guard(move || qrep::get_qa_report_section(p)) });
        }
        const SENT: usize = 987654321;
        let split = |t: String| -> Option<(String, String)> { t.split_once("987654321").map(|(a, b)| (a.to_string(), b.to_string())) };
        Spec {
            pats: [v, o, q],
            ov: [split(sv::overview::report_section_content(SENT)), split(so::overview::report_section_content(SENT)), None],
            qa_overview: sq::overview::report_section_content(),
        }
    }
    fn n(&self, c: Cat) -> usize {
        self.pats[c as usize].len()
    }
    fn name(&self, c: Cat, i: usize) -> &str {
        &self.pats[c as usize][i].name
    }
    fn overview(&self, c: Cat, total: usize) -> String {
        match c {
            Cat::Vuln => sv::overview::report_section_content(total),
            Cat::Opt => so::overview::report_section_content(total),
            Cat::Qa => self.qa_overview.clone() + "\n",
        }
    }

    /// Soundness conditions of the read-back parser and of the section lookup. A failure is a
    /// violation of C11 ("reading the entries back reproduces the findings", "each entry follows the
    /// section of its own pattern") that does not depend on the findings at all.
    fn static_checks(&self) -> Vec<Viol> {
        let mut out = vec![];
        let mut all: Vec<(Cat, usize)> = vec![];
        for c in CATS {
            for i in 0..self.n(c) {
                all.push((c, i));
            }
        }
        for &(c, i) in &all {
            let p = &self.pats[c as usize][i];
            match &p.mapped {
                Err(e) => out.push(Viol::new(format!("c11:section-lookup-panics:{}", p.name), format!("get_{}_report_section({}) panicked: {}", c.tag(), p.name, e), "the section text", e.clone())),
                Ok(m) if *m != p.direct => out.push(Viol::new(
                    format!("c11:wrong-section-text:{}", p.name),
                    format!("get_*_report_section({}) does not return the text of that pattern's own report_sections module", p.name),
                    head(&p.direct, 120),
                    head(m, 120),
                )),
                _ => {}
            }
            for l in p.direct.split('\n') {
                if l == MARKER || parse_entry(l).is_some() || HEADINGS.contains(&l) {
                    out.push(Viol::new(
                        format!("c11:section-text-contains-list-syntax:{}", p.name),
                        format!("the constant section text of {} contains the line {:?}; a reader of the report takes it for a list marker, an entry or a severity heading", p.name, l),
                        "no line '### Lines', '- x:N' or '## .. Risk' inside a section text",
                        l.to_string(),
                    ));
                }
            }
            if p.direct.trim_matches('\n').is_empty() {
                out.push(Viol::new(format!("c11:empty-section-text:{}", p.name), format!("the section text of {} is empty", p.name), "a non-empty text", ""));
            }
        }
        // identification is by suffix: no section may be a suffix of another one (in particular: distinct)
        for &(c, i) in &all {
            for &(d, j) in &all {
                if (c, i) != (d, j) {
                    let a = self.pats[c as usize][i].direct.trim_matches('\n');
                    let b = self.pats[d as usize][j].direct.trim_matches('\n');
                    if !a.is_empty() && b.ends_with(a) && (a.len() < b.len() || (c, i) < (d, j)) {
                        out.push(Viol::new(
                            format!("c11:ambiguous-section-text:{}", self.name(c, i)),
                            format!("the section text of {} is {} the one of {}: a list cannot be attributed to its pattern", self.name(c, i), if a.len() == b.len() { "identical to" } else { "a suffix of" }, self.name(d, j)),
                            "pairwise distinguishable section texts",
                            head(a, 80),
                        ));
                    }
                }
            }
        }
        for c in [Cat::Vuln, Cat::Opt] {
            if self.ov[c as usize].is_none() {
                out.push(Viol::new(format!("c12:total-not-printed:{}", c.long()), format!("the {} overview does not contain the total it is given", c.long()), "the decimal total inside the overview", head(&self.overview(c, 987654321), 100)));
            }
            for l in self.overview(c, 7).split('\n') {
                if l == MARKER || parse_entry(l).is_some() || HEADINGS.contains(&l) {
                    out.push(Viol::new(format!("c11:section-text-contains-list-syntax:{}-overview", c.long()), format!("the {} overview contains the line {:?}", c.long(), l), "no list syntax inside the overview", l.to_string()));
                }
            }
        }
        out
    }

    /// the pattern whose section text ends `pre` (longest match, at a line start); returns it and the rest in front
    fn identify<'a>(&self, only: Option<Cat>, pre: &'a str) -> (Option<(Cat, usize)>, &'a str) {
        let p = pre.trim_end_matches('\n');
        let mut best: Option<(Cat, usize, usize)> = None;
        for c in CATS {
            if only.map_or(false, |o| o != c) {
                continue;
            }
            for (i, pat) in self.pats[c as usize].iter().enumerate() {
                let s = pat.direct.trim_matches('\n');
                if !s.is_empty() && p.ends_with(s) {
                    let at = p.len() - s.len();
                    if (at == 0 || p.as_bytes()[at - 1] == b'\n') && best.map_or(true, |b| s.len() > b.2) {
                        best = Some((c, i, s.len()));
                    }
                }
            }
        }
        match best {
            Some((c, i, l)) => (Some((c, i)), &p[..p.len() - l]),
            None => (None, pre),
        }
    }
}

// ------------------------------------------------------------------ cases

/// (file name, line set as ascending distinct list)
type Files = Vec<(String, Vec<i32>)>;
/// one findings map, in insertion order: (pattern index, its Vec)
type Part = Vec<(usize, Files)>;

#[derive(Clone)]
struct Case {
    whole: bool,
    parts: Vec<(Cat, Part)>,
}

impl Case {
    fn one(c: Cat, p: Part) -> Case {
        Case { whole: false, parts: vec![(c, p)] }
    }
    fn part(&self, c: Cat) -> Part {
        self.parts.iter().find(|(d, _)| *d == c).map(|(_, p)| p.clone()).unwrap_or_default()
    }
    fn ser(&self, spec: &Spec) -> String {
        let mut o = String::new();
        if self.whole {
            o.push_str("whole\n");
        }
        for (c, part) in &self.parts {
            o.push_str(&format!("cat {}\n", c.tag()));
            for (i, files) in part {
                o.push_str(&format!("p {}\n", spec.name(*c, *i)));
                for (n, ls) in files {
                    let csv: Vec<String> = ls.iter().map(|l| l.to_string()).collect();
                    o.push_str(&format!("f {}|{}\n", csv.join(","), n));
                }
            }
        }
        o
    }
    fn de(text: &str, spec: &Spec) -> Result<Case, String> {
        let mut case = Case { whole: false, parts: vec![] };
        for l in text.split('\n') {
            if l == "whole" {
                case.whole = true;
            } else if let Some(t) = l.strip_prefix("cat ") {
                let c = CATS.iter().find(|c| c.tag() == t).ok_or(format!("unknown category {:?}", t))?;
                case.parts.push((*c, vec![]));
            } else if let Some(t) = l.strip_prefix("p ") {
                let (c, part) = case.parts.last_mut().ok_or("p before cat")?;
                let i = (0..spec.n(*c)).find(|i| spec.name(*c, *i) == t).ok_or(format!("unknown pattern {:?}", t))?;
                part.push((i, vec![]));
            } else if let Some(t) = l.strip_prefix("f ") {
                let (ls, name) = t.split_once('|').ok_or("f line without '|'")?;
                let mut set = BTreeSet::new();
                for x in ls.split(',').filter(|x| !x.is_empty()) {
                    set.insert(x.parse::<i32>().map_err(|e| format!("bad line number {:?}: {}", x, e))?);
                }
                let (_, part) = case.parts.last_mut().ok_or("f before cat")?;
                let (_, files) = part.last_mut().ok_or("f before p")?;
                files.push((name.to_string(), set.into_iter().collect()));
            } else if !l.is_empty() {
                return Err(format!("unparsable case line {:?}", l));
            }
        }
        Ok(case)
    }
    /// cheap identity of the case (same information as `ser`)
    fn fingerprint(&self) -> String {
        let mut h = 0xcbf29ce484222325u64;
        let mut eat = |x: u64| {
            for b in x.to_le_bytes() {
                h ^= b as u64;
                h = h.wrapping_mul(0x100000001b3);
            }
        };
        eat(self.whole as u64);
        for (c, part) in &self.parts {
            eat(0xC0 + *c as u64);
            for (i, files) in part {
                eat(0xA000 + *i as u64);
                for (n, ls) in files {
                    eat(0xF00000 + n.len() as u64);
                    for b in n.bytes() {
                        eat(b as u64);
                    }
                    for l in ls {
                        eat(*l as u32 as u64 | 1 << 40);
                    }
                }
            }
        }
        format!("{:016x}", h)
    }
    fn entries(&self) -> usize {
        self.parts.iter().map(|(_, p)| p.iter().map(|(_, f)| nlines(f)).sum::<usize>()).sum()
    }
}

fn nlines(f: &Files) -> usize {
    f.iter().map(|(_, l)| l.len()).sum()
}

fn fnv(s: &str) -> u64 {
    let mut h = 0xcbf29ce484222325u64;
    for b in s.bytes() {
        h ^= b as u64;
        h = h.wrapping_mul(0x100000001b3);
    }
    h
}

fn head(s: &str, n: usize) -> String {
    if s.chars().count() <= n {
        s.to_string()
    } else {
        let t: String = s.chars().take(n).collect();
        format!("{}.. ({} bytes)", t, s.len())
    }
}

struct Viol {
    key: String,
    what: String,
    expected: String,
    actual: String,
}
impl Viol {
    fn new<A: Into<String>, B: Into<String>, C: Into<String>, D: Into<String>>(key: A, what: B, expected: C, actual: D) -> Viol {
        Viol { key: key.into(), what: what.into(), expected: expected.into(), actual: actual.into() }
    }
}

// ------------------------------------------------------------------ calling the real code

fn guard<T>(f: impl FnOnce() -> T) -> Result<T, String> {
    catch_unwind(AssertUnwindSafe(f)).map_err(|e| {
        if let Some(s) = e.downcast_ref::<&str>() {
            s.to_string()
        } else if let Some(s) = e.downcast_ref::<String>() {
            s.clone()
        } else {
            "panic".to_string()
        }
    })
}

fn build<K: Eq + Hash>(part: &Part, cap: usize, key: impl Fn(usize) -> K) -> HashMap<K, Vec<(String, BTreeSet<i32>)>> {
    // every call makes a FRESH map: std's RandomState gives every instance its own hash keys
    let mut m = if cap > 0 { HashMap::with_capacity(cap) } else { HashMap::new() };
    for (i, files) in part {
        m.insert(key(*i), files.iter().map(|(n, l)| (n.clone(), l.iter().cloned().collect::<BTreeSet<i32>>())).collect());
    }
    m
}

/// the real generate_<category>_report on a fresh map filled in the order of `part`
fn render(c: Cat, part: &Part, cap: usize) -> Result<String, String> {
    match c {
        Cat::Vuln => {
            let m = build(part, cap, |i| VULNS[i].0);
            guard(move || vrep::generate_vulnerability_report(m))
        }
        Cat::Opt => {
            let m = build(part, cap, |i| OPTS[i].0);
            guard(move || orep::generate_optimization_report(m))
        }
        Cat::Qa => {
            let m = build(part, cap, |i| QAS[i].0);
            guard(move || qrep::generate_qa_report(m))
        }
    }
}

static SCRATCH_N: std::sync::atomic::AtomicUsize = std::sync::atomic::AtomicUsize::new(0);

/// the real generate_report, run in a scratch directory; returns the content of solstat_report.md
fn render_whole(case: &Case) -> Result<String, String> {
    let n = SCRATCH_N.fetch_add(1, std::sync::atomic::Ordering::SeqCst);
    let dir = std::env::temp_dir().join(format!("vxn-{}-rep{}", std::process::id(), n));
    std::fs::create_dir_all(&dir).map_err(|e| format!("harness: cannot create scratch dir: {}", e))?;
    let old = std::env::current_dir().map_err(|e| format!("harness: no cwd: {}", e))?;
    std::env::set_current_dir(&dir).map_err(|e| format!("harness: cannot enter scratch dir: {}", e))?;
    let v = build(&case.part(Cat::Vuln), 0, |i| VULNS[i].0);
    let o = build(&case.part(Cat::Opt), 0, |i| OPTS[i].0);
    let q = build(&case.part(Cat::Qa), 0, |i| QAS[i].0);
    let r = guard(move || generation::generate_report(v, o, q));
    let text = std::fs::read_to_string(dir.join("solstat_report.md"));
    let _ = std::env::set_current_dir(&old);
    let _ = std::fs::remove_dir_all(&dir);
    r?;
    text.map_err(|e| format!("solstat_report.md was not written: {}", e))
}

// ------------------------------------------------------------------ reading a report back

fn parse_entry(l: &str) -> Option<(String, i32)> {
    let t = l.strip_prefix("- ")?;
    let (f, n) = t.rsplit_once(':')?;
    let v: i32 = n.parse().ok()?;
    if v.to_string() != n {
        return None;
    }
    Some((f.to_string(), v))
}

/// (text in front of the marker, lines of the list, list closed by a blank line), and the text after the last list
fn raw_blocks(text: &str) -> (Vec<(String, Vec<String>, bool)>, String) {
    let mut out = vec![];
    let mut pre_start = 0;
    let mut pos = 0;
    let mut cur: Option<(String, Vec<String>)> = None;
    for line in text.split_inclusive('\n') {
        let start = pos;
        pos += line.len();
        let body = line.strip_suffix('\n').unwrap_or(line);
        match cur.take() {
            None => {
                if body == MARKER {
                    cur = Some((text[pre_start..start].to_string(), vec![]));
                }
            }
            Some((pre, mut ls)) => {
                if body.is_empty() {
                    out.push((pre, ls, true));
                    pre_start = pos;
                } else {
                    ls.push(body.to_string());
                    cur = Some((pre, ls));
                }
            }
        }
    }
    if let Some((pre, ls)) = cur {
        out.push((pre, ls, false));
        pre_start = text.len();
    }
    (out, text[pre_start..].to_string())
}

#[derive(Clone, Debug, PartialEq)]
enum Ev {
    /// overview found; Some(total) where the category prints one
    Overview(Option<i64>),
    Heading(usize),
    Block { pat: Option<usize>, entries: Vec<(String, i32)>, malformed: Vec<String>, closed: bool },
    Junk(String),
}

fn leftovers(spec: &Spec, c: Cat, rem: &str, first: bool, evs: &mut Vec<Ev>) {
    let mut rest = rem;
    if first {
        match &spec.ov[c as usize] {
            None => {
                if let Some(r) = rest.strip_prefix(spec.qa_overview.as_str()) {
                    evs.push(Ev::Overview(None));
                    rest = r;
                }
            }
            Some((a, b)) => {
                if let Some(r) = rest.strip_prefix(a.as_str()) {
                    let digits = r.bytes().take_while(|b| b.is_ascii_digit()).count();
                    if let (Ok(n), Some(r2)) = (r[..digits].parse::<i64>(), r[digits..].strip_prefix(b.trim_end_matches('\n'))) {
                        evs.push(Ev::Overview(Some(n)));
                        rest = r2;
                    }
                }
            }
        }
    }
    let mut junk = String::new();
    for l in rest.split('\n') {
        let h = HEADINGS.iter().position(|h| *h == l);
        if l.is_empty() || (h.is_some() && c == Cat::Vuln) {
            if !junk.is_empty() {
                evs.push(Ev::Junk(std::mem::take(&mut junk)));
            }
            if let Some(h) = h {
                evs.push(Ev::Heading(h));
            }
        } else {
            if !junk.is_empty() {
                junk.push('\n');
            }
            junk.push_str(l);
        }
    }
    if !junk.is_empty() {
        evs.push(Ev::Junk(junk));
    }
}

/// read the output of generate_<c>_report back
fn read_back(spec: &Spec, c: Cat, text: &str) -> Vec<Ev> {
    let (blocks, tail) = raw_blocks(text);
    let mut evs = vec![];
    let mut first = true;
    for (pre, ls, closed) in blocks {
        let (pat, rem) = spec.identify(Some(c), &pre);
        leftovers(spec, c, rem, first, &mut evs);
        first = false;
        let mut entries = vec![];
        let mut malformed = vec![];
        for l in ls {
            match parse_entry(&l) {
                Some(e) => entries.push(e),
                None => malformed.push(l),
            }
        }
        evs.push(Ev::Block { pat: pat.map(|p| p.1), entries, malformed, closed });
    }
    leftovers(spec, c, &tail, first, &mut evs);
    evs
}

/// sequence of (pattern, entry sequence) of a category report
fn block_seq(evs: &[Ev]) -> Vec<(Option<usize>, Vec<(String, i32)>)> {
    evs.iter().filter_map(|e| if let Ev::Block { pat, entries, .. } = e { Some((*pat, entries.clone())) } else { None }).collect()
}

/// lists of the whole report file, attributed over all 30 section texts
fn whole_blocks(spec: &Spec, text: &str) -> Vec<(Option<(Cat, usize)>, Vec<(String, i32)>, Vec<String>)> {
    let (blocks, _) = raw_blocks(text);
    blocks
        .into_iter()
        .map(|(pre, ls, _)| {
            let (pat, _) = spec.identify(None, &pre);
            let mut entries = vec![];
            let mut malformed = vec![];
            for l in ls {
                match parse_entry(&l) {
                    Some(e) => entries.push(e),
                    None => malformed.push(l),
                }
            }
            (pat, entries, malformed)
        })
        .collect()
}

fn expected_entries(files: &Files) -> Vec<(String, i32)> {
    let mut v = vec![];
    for (n, ls) in files {
        for l in ls {
            v.push((n.clone(), *l));
        }
    }
    v
}

fn multiset(v: &[(String, i32)]) -> BTreeMap<(String, i32), i64> {
    let mut m = BTreeMap::new();
    for e in v {
        *m.entry(e.clone()).or_insert(0) += 1;
    }
    m
}

const NAME_CLASSES: [&str; 5] = ["empty-name", "name-like-report-syntax", "name-with-colon", "non-ascii-name", "name-with-special-characters"];

fn name_class(n: &str) -> Option<&'static str> {
    if n.is_empty() {
        Some("empty-name")
    } else if n.contains(':') {
        Some("name-with-colon")
    } else if n.starts_with("- ") || n.starts_with('#') {
        Some("name-like-report-syntax")
    } else if !n.is_ascii() {
        Some("non-ascii-name")
    } else if !n.bytes().all(|b| b.is_ascii_alphanumeric() || b == b'.' || b == b'_' || b == b'-' || b == b'/') {
        Some("name-with-special-characters")
    } else {
        None
    }
}

fn show_entries(v: &[(String, i32)]) -> String {
    let s: Vec<String> = v.iter().take(6).map(|(f, l)| format!("{}:{}", f, l)).collect();
    format!("[{}{}]", s.join(", "), if v.len() > 6 { ", .." } else { "" })
}

/// compare the entries read back for one pattern with its findings
fn entries_violation(prefix: &str, cat: Cat, pname: &str, want: &[(String, i32)], got: &[(String, i32)]) -> Option<Viol> {
    let (w, g) = (multiset(want), multiset(got));
    if w == g {
        return None;
    }
    let mut missing = vec![];
    let mut extra = vec![];
    for (e, n) in &w {
        if g.get(e).copied().unwrap_or(0) < *n {
            missing.push(e.clone());
        }
    }
    for (e, n) in &g {
        if w.get(e).copied().unwrap_or(0) < *n {
            extra.push(e.clone());
        }
    }
    let cls = missing.iter().chain(extra.iter()).filter_map(|(f, _)| name_class(f)).next();
    let kind = if extra.is_empty() { "entries-missing" } else if missing.is_empty() { "entries-unexpected" } else { "entries-mismatch" };
    Some(Viol::new(
        format!("{}:{}:{}{}", prefix, kind, cat.long(), cls.map(|c| format!(":{}", c)).unwrap_or_default()),
        format!("the list of {} does not contain exactly its findings: missing {}, unexpected {}", pname, show_entries(&missing), show_entries(&extra)),
        show_entries(want),
        show_entries(got),
    ))
}

// ------------------------------------------------------------------ C11

fn check_c11(spec: &Spec, case: &Case, evals: &mut u64) -> Vec<Viol> {
    let mut out = vec![];
    if case.whole {
        *evals += 1;
        let text = match render_whole(case) {
            Ok(t) => t,
            Err(e) => return vec![Viol::new("c11:panic:generate_report", format!("generate_report panicked: {}", e), "a report", e)],
        };
        let blocks = whole_blocks(spec, &text);
        for c in CATS {
            let part = case.part(c);
            for i in 0..spec.n(c) {
                let want: Vec<(String, i32)> = part.iter().filter(|(j, _)| *j == i).flat_map(|(_, f)| expected_entries(f)).collect();
                let got: Vec<(String, i32)> = blocks.iter().filter(|(p, _, _)| *p == Some((c, i))).flat_map(|(_, e, _)| e.clone()).collect();
                if let Some(v) = entries_violation("c11:report-file", c, spec.name(c, i), &want, &got) {
                    out.push(v);
                }
            }
        }
        for (p, e, m) in &blocks {
            if p.is_none() {
                out.push(Viol::new("c11:report-file:list-without-known-section", "a '### Lines' list in solstat_report.md is not preceded by the section text of any pattern", "section text of a pattern", show_entries(e)));
            }
            if !m.is_empty() {
                out.push(Viol::new("c11:report-file:malformed-entry", "a list in solstat_report.md contains a line that is not '- file:line'", "- file:line", m[0].clone()));
            }
        }
        return out;
    }
    for (c, part) in &case.parts {
        let c = *c;
        *evals += 1;
        let text = match render(c, part, 0) {
            Ok(t) => t,
            Err(e) => {
                out.push(Viol::new(format!("c11:panic:{}", c.long()), format!("generate_{}_report panicked: {}", c.tag(), e), "a report", e));
                continue;
            }
        };
        let evs = read_back(spec, c, &text);
        let mut specific = false;
        for ev in &evs {
            match ev {
                Ev::Junk(j) => {
                    specific = true;
                    out.push(Viol::new(format!("c11:unexpected-text:{}", c.long()), "the report contains text that is neither the overview, a heading, the section of a reported pattern nor a list", "only overview, headings, sections and lists", head(j, 200)));
                }
                Ev::Block { pat, entries, malformed, closed } => {
                    if pat.is_none() {
                        specific = true;
                        out.push(Viol::new(format!("c11:list-without-known-section:{}", c.long()), "the text preceding a '### Lines' list is not the section text of any pattern of the category", "section text of the pattern that produced the list", show_entries(entries)));
                    }
                    if !malformed.is_empty() {
                        specific = true;
                        out.push(Viol::new(format!("c11:malformed-entry:{}", c.long()), "a list contains a line that is not '- file:line'", "- file:line", malformed[0].clone()));
                    }
                    if !closed {
                        specific = true;
                        out.push(Viol::new(format!("c11:list-not-terminated:{}", c.long()), "the last list is not terminated by a blank line", "blank line after the entries", "end of text"));
                    }
                }
                _ => {}
            }
        }
        let seq = block_seq(&evs);
        for i in 0..spec.n(c) {
            let mine: Vec<&Files> = part.iter().filter(|(j, _)| *j == i).map(|(_, f)| f).collect();
            let want: Vec<(String, i32)> = mine.iter().flat_map(|f| expected_entries(f)).collect();
            let has_files = mine.iter().any(|f| !f.is_empty());
            let blocks: Vec<&Vec<(String, i32)>> = seq.iter().filter(|(p, _)| *p == Some(i)).map(|(_, e)| e).collect();
            let got: Vec<(String, i32)> = blocks.iter().flat_map(|e| e.iter().cloned()).collect();
            let pname = spec.name(c, i);
            if want.is_empty() && !blocks.is_empty() && got.is_empty() {
                specific = true;
                if has_files {
                    out.push(Viol::new(format!("c11:section-for-files-without-lines:{}", c.long()), format!("the section of {} is printed (with an empty list) although none of its files has a line", pname), "no section for a pattern without findings", format!("section of {} followed by an empty list", pname)));
                } else {
                    out.push(Viol::new(format!("c11:section-without-finding:{}", c.long()), format!("the section of {} is printed although the pattern has no finding", pname), "no section for a pattern without findings", format!("section of {}", pname)));
                }
            } else if !want.is_empty() && blocks.is_empty() {
                specific = true;
                out.push(Viol::new(format!("c11:section-missing:{}", c.long()), format!("{} has {} finding(s) but its section does not occur in the report", pname, want.len()), format!("section of {} followed by {}", pname, show_entries(&want)), "no such section"));
            } else {
                if blocks.len() > 1 {
                    specific = true;
                    out.push(Viol::new(format!("c11:section-repeated:{}", c.long()), format!("the section of {} occurs {} times", pname, blocks.len()), "one section per pattern", format!("{} sections", blocks.len())));
                }
                if let Some(v) = entries_violation("c11", c, pname, &want, &got) {
                    specific = true;
                    out.push(v);
                }
            }
        }
        // (d) the map read back equals the findings map (patterns with >= 1 line -> multiset of entries)
        let mut want_map: BTreeMap<usize, BTreeMap<(String, i32), i64>> = BTreeMap::new();
        for (i, f) in part {
            if nlines(f) > 0 {
                want_map.entry(*i).or_default().extend(multiset(&expected_entries(f)));
            }
        }
        let mut got_map: BTreeMap<usize, BTreeMap<(String, i32), i64>> = BTreeMap::new();
        let mut unknown = false;
        for (p, e) in &seq {
            match p {
                Some(i) if !e.is_empty() => {
                    for (k, n) in multiset(e) {
                        *got_map.entry(*i).or_default().entry(k).or_insert(0) += n;
                    }
                }
                None => unknown = true,
                _ => {}
            }
        }
        if (want_map != got_map || unknown) && !specific {
            out.push(Viol::new(format!("c11:readback-differs:{}", c.long()), "reading the entries back out of the report does not reproduce the findings", format!("{:?}", want_map), format!("{:?}", got_map)));
        }
    }
    out
}

// ------------------------------------------------------------------ C12

/// 0 no pattern of the severity (or only empty Vecs), 1 files but no lines, 2 at least one line
fn sev_level(part: &Part, s: usize) -> usize {
    let mut lvl = 0;
    for (i, f) in part {
        if VULNS[*i].2 == s {
            lvl = lvl.max(if nlines(f) > 0 { 2 } else if !f.is_empty() { 1 } else { 0 });
        }
    }
    lvl
}

fn check_c12(spec: &Spec, case: &Case, evals: &mut u64) -> Vec<Viol> {
    let mut out = vec![];
    if case.whole {
        *evals += 1;
        let text = match render_whole(case) {
            Ok(t) => t,
            Err(e) => return vec![Viol::new("c12:panic:generate_report", format!("generate_report panicked: {}", e), "a report", e)],
        };
        // the parts as the category functions render them (deterministic here: the generator gives
        // every category at most one pattern with files, see gen_whole)
        let mut parts = vec![];
        for c in CATS {
            match render(c, &case.part(c), 0) {
                Ok(t) => parts.push(t + "\n\n"),
                Err(e) => return vec![Viol::new(format!("c12:panic:{}", c.long()), format!("generate_{}_report panicked: {}", c.tag(), e), "a report", e)],
            }
        }
        let has: Vec<bool> = CATS.iter().map(|c| case.part(*c).iter().any(|(_, f)| nlines(f) > 0)).collect();
        let compose = |mask: usize| -> String {
            let mut s = String::new();
            for k in 0..3 {
                if mask & (1 << k) != 0 {
                    s.push_str(&parts[k]);
                }
            }
            s
        };
        let want_mask = (0..3).filter(|k| has[*k]).fold(0, |m, k| m | (1 << k));
        if text != compose(want_mask) {
            match (0..8).find(|m| compose(*m) == text) {
                Some(m) => {
                    for k in 0..3 {
                        let c = CATS[k];
                        let present = m & (1 << k) != 0;
                        if present && !has[k] {
                            let shape = if case.part(c).iter().any(|(_, f)| !f.is_empty()) { "files-without-lines" } else { "patterns-without-files" };
                            out.push(Viol::new(
                                format!("c12:category-part-without-findings:{}:{}", c.long(), shape),
                                format!("solstat_report.md contains the {} part although that category has no finding (its map holds only {})", c.long(), shape.replace('-', " ")),
                                format!("no {} part", c.long()),
                                head(&parts[k], 160),
                            ));
                        } else if !present && has[k] {
                            out.push(Viol::new(format!("c12:category-part-missing:{}", c.long()), format!("solstat_report.md lacks the {} part although that category has findings", c.long()), head(&parts[k], 160), "absent"));
                        }
                    }
                }
                None => out.push(Viol::new("c12:report-file-not-composed-of-category-parts", "solstat_report.md is not the concatenation (vulnerabilities, optimizations, qa; each followed by a blank line) of the category reports", head(&compose(want_mask), 200), head(&text, 200))),
            }
        }
        return out;
    }
    for (c, part) in &case.parts {
        let c = *c;
        *evals += 1;
        let text = match render(c, part, 0) {
            Ok(t) => t,
            Err(e) => {
                out.push(Viol::new(format!("c12:panic:{}", c.long()), format!("generate_{}_report panicked: {}", c.tag(), e), "a report", e));
                continue;
            }
        };
        let evs = read_back(spec, c, &text);
        let listed: usize = evs.iter().map(|e| if let Ev::Block { entries, malformed, .. } = e { entries.len() + malformed.len() } else { 0 }).sum();
        if c != Cat::Qa {
            let totals: Vec<i64> = evs.iter().filter_map(|e| if let Ev::Overview(Some(n)) = e { Some(*n) } else { None }).collect();
            match totals.first() {
                None => out.push(Viol::new(format!("c12:overview-missing:{}", c.long()), "the report does not start with the overview carrying the total", head(&spec.overview(c, listed), 80), head(&text, 80))),
                Some(n) if *n != listed as i64 => {
                    let cls = if (*n as usize) < listed { "total-smaller-than-listed-entries" } else { "total-larger-than-listed-entries" };
                    out.push(Viol::new(format!("c12:{}:{}", cls, c.long()), format!("the overview announces {} but {} entries are listed", n, listed), format!("total {}", listed), format!("total {}", n)));
                }
                _ => {}
            }
        }
        if c == Cat::Vuln {
            let mut cur: Option<usize> = None;
            let mut count = [0usize; 3];
            let mut misplaced: Vec<usize> = vec![];
            for ev in &evs {
                match ev {
                    Ev::Heading(h) => {
                        count[*h] += 1;
                        cur = Some(*h);
                    }
                    Ev::Block { pat: Some(p), .. } => {
                        let want = VULNS[*p].2;
                        if cur != Some(want) {
                            misplaced.push(want);
                            misplaced.extend(cur);
                            out.push(Viol::new(
                                format!("c12:{}-not-under-{}-heading", spec.name(c, *p), SEV[want]),
                                format!("{} must be listed under '{}' but is listed {}", spec.name(c, *p), HEADINGS[want], cur.map(|h| format!("under '{}'", HEADINGS[h])).unwrap_or("before any severity heading".into())),
                                HEADINGS[want].to_string(),
                                cur.map(|h| HEADINGS[h].to_string()).unwrap_or("none".into()),
                            ));
                        }
                    }
                    _ => {}
                }
            }
            for s in 0..3 {
                // a misplaced pattern already explains a surplus/missing heading of the two severities involved
                if misplaced.contains(&s) {
                    continue;
                }
                let lvl = sev_level(part, s);
                if count[s] > 0 && lvl == 0 {
                    out.push(Viol::new(format!("c12:{}-heading-without-{}-finding", SEV[s], SEV[s]), format!("'{}' is printed although no {}-severity pattern has findings", HEADINGS[s], SEV[s]), format!("no '{}' heading", HEADINGS[s]), format!("'{}' printed", HEADINGS[s])));
                } else if count[s] > 0 && lvl == 1 && !evs.iter().any(|e| matches!(e, Ev::Block { pat: Some(p), .. } if VULNS[*p].2 == s)) {
                    out.push(Viol::new(format!("c12:{}-heading-without-{}-finding", SEV[s], SEV[s]), format!("'{}' is printed, without any section under it, although no {}-severity pattern has findings", HEADINGS[s], SEV[s]), format!("no '{}' heading", HEADINGS[s]), format!("'{}' printed", HEADINGS[s])));
                } else if count[s] > 0 && lvl == 1 {
                    out.push(Viol::new("c12:severity-heading-for-files-without-lines", format!("'{}' is printed although the {}-severity patterns have only files with empty line sets (no finding)", HEADINGS[s], SEV[s]), format!("no '{}' heading", HEADINGS[s]), format!("'{}' printed", HEADINGS[s])));
                } else if count[s] == 0 && lvl == 2 {
                    out.push(Viol::new(format!("c12:{}-heading-missing", SEV[s]), format!("a {}-severity finding exists but '{}' is not printed", SEV[s], HEADINGS[s]), format!("'{}' printed", HEADINGS[s]), "absent"));
                }
                if count[s] > 1 {
                    out.push(Viol::new(format!("c12:{}-heading-repeated", SEV[s]), format!("'{}' is printed {} times", HEADINGS[s], count[s]), "once", format!("{} times", count[s])));
                }
            }
        }
    }
    out
}

// ------------------------------------------------------------------ C13

/// canonical order of the files of one pattern: ascending (name, line set), the order of `Vec::sort`
fn sorted_files(f: &Files) -> Files {
    let mut g = f.clone();
    g.sort();
    g
}

/// Order in which the category renders its patterns, learned from renderings of the map that holds
/// every pattern once; None if that order is not even stable between fresh maps.
fn learn_order(spec: &Spec, c: Cat) -> Option<Vec<usize>> {
    let full: Part = (0..spec.n(c)).map(|i| (i, vec![("a.sol".to_string(), vec![1])])).collect();
    let mut seen: Option<Vec<usize>> = None;
    for k in 0..4 {
        let mut p = full.clone();
        if k % 2 == 1 {
            p.reverse();
        }
        let text = render(c, &p, 0).ok()?;
        let order: Vec<usize> = block_seq(&read_back(spec, c, &text)).into_iter().filter_map(|(p, _)| p).collect();
        let mut sorted = order.clone();
        sorted.sort();
        sorted.dedup();
        if sorted.len() != spec.n(c) || order.len() != spec.n(c) {
            return None;
        }
        match &seen {
            None => seen = Some(order),
            Some(o) if *o != order => return None,
            _ => {}
        }
    }
    seen
}

fn file_names_dedup(e: &[(String, i32)]) -> Vec<String> {
    let mut v: Vec<String> = vec![];
    for (f, _) in e {
        if v.last() != Some(f) {
            v.push(f.clone());
        }
    }
    v
}

/// why do two renderings of the same findings differ
fn classify_diff(spec: &Spec, c: Cat, a: &[(Option<usize>, Vec<(String, i32)>)], b: &[(Option<usize>, Vec<(String, i32)>)], how: &str, out: &mut Vec<Viol>) {
    let pa: Vec<Option<usize>> = a.iter().map(|x| x.0).collect();
    let pb: Vec<Option<usize>> = b.iter().map(|x| x.0).collect();
    let names = |v: &Vec<Option<usize>>| v.iter().map(|p| p.map(|i| spec.name(c, i).to_string()).unwrap_or("?".into())).collect::<Vec<_>>().join(", ");
    let mut found = false;
    if pa != pb {
        found = true;
        out.push(Viol::new(
            format!("c13:pattern-order-depends-on-hashmap:{}", c.long()),
            format!("the same findings rendered from {} give the sections in a different order (iteration order of the hash map)", how),
            format!("[{}]", names(&pa)),
            format!("[{}]", names(&pb)),
        ));
    }
    for (p, ea) in a {
        if let Some((_, eb)) = b.iter().find(|(q, _)| q == p) {
            if ea != eb {
                found = true;
                let pname = p.map(|i| spec.name(c, i).to_string()).unwrap_or("?".into());
                let mut sa = ea.clone();
                let mut sb = eb.clone();
                sa.sort();
                sb.sort();
                if sa != sb {
                    out.push(Viol::new(format!("c13:entries-differ-between-renderings:{}", c.long()), format!("the same findings rendered from {} list different entries for {}", how, pname), show_entries(ea), show_entries(eb)));
                } else if file_names_dedup(ea) == file_names_dedup(eb) {
                    out.push(Viol::new(
                        format!("c13:order-of-same-named-files-depends-on-insertion:{}", c.long()),
                        format!("two files with the same name: the order of their entries under {} follows the order of the (file, lines) elements ({})", pname, how),
                        show_entries(ea),
                        show_entries(eb),
                    ));
                } else {
                    out.push(Viol::new(
                        format!("c13:file-order-depends-on-insertion:{}", c.long()),
                        format!("the order of the entries under {} follows the order in which the files were inserted/discovered ({})", pname, how),
                        show_entries(ea),
                        show_entries(eb),
                    ));
                }
                break;
            }
        }
    }
    if !found {
        out.push(Viol::new(format!("c13:text-differs:{}", c.long()), format!("the same findings rendered from {} give different text although sections and entries are in the same order", how), "byte-identical text", "different text"));
    }
}

fn shuffled_part(part: &Part, rng: &mut Rng, pats: bool, files: bool, reverse: bool) -> Part {
    let mut p = part.clone();
    if pats {
        if reverse {
            p.reverse();
        } else {
            rng.shuffle(&mut p);
        }
    }
    if files {
        for (_, f) in p.iter_mut() {
            if reverse {
                f.reverse();
            } else {
                rng.shuffle(f);
            }
        }
    }
    p
}

fn render_in_child(c: Cat, part: &Part, spec: &Spec) -> Option<Result<String, String>> {
    let exe = std::env::current_exe().ok()?;
    let payload = Case::one(c, part.clone()).ser(spec);
    let o = std::process::Command::new(exe).arg("rep-render").arg(format!("@src:{}", payload)).output().ok()?;
    if o.status.success() {
        Some(String::from_utf8(o.stdout).map_err(|_| "child printed invalid UTF-8".to_string()))
    } else {
        Some(Err(String::from_utf8_lossy(&o.stderr).to_string()))
    }
}

struct Effort {
    fresh: usize,
    perms: usize,
    children: usize,
}

fn check_c13(spec: &Spec, case: &Case, eff: &Effort, orders: &[Option<Vec<usize>>; 3], evals: &mut u64, notes: &mut BTreeSet<String>) -> Vec<Viol> {
    let mut out = vec![];
    let mut rng = Rng::new(fnv(&case.ser(spec)));
    if case.whole {
        let base = match render_whole(case) {
            Ok(t) => t,
            Err(e) => return vec![Viol::new("c13:panic:generate_report", format!("generate_report panicked: {}", e), "a report", e)],
        };
        *evals += 1;
        let seq_of = |text: &str, c: Cat| -> Vec<(Option<usize>, Vec<(String, i32)>)> { whole_blocks(spec, text).into_iter().filter(|(p, _, _)| p.map_or(true, |(d, _)| d == c)).map(|(p, e, _)| (p.map(|x| x.1), e)).collect() };
        for k in 0..(eff.fresh + 2 * eff.perms) {
            let mut v = case.clone();
            let how = if k < eff.fresh {
                "another fresh set of maps filled in the same order"
            } else if k < eff.fresh + eff.perms {
                for (_, p) in v.parts.iter_mut() {
                    *p = shuffled_part(p, &mut rng, true, false, k == eff.fresh);
                }
                "maps filled in a different pattern order"
            } else {
                for (_, p) in v.parts.iter_mut() {
                    *p = shuffled_part(p, &mut rng, false, true, k == eff.fresh + eff.perms);
                }
                "maps whose (file, lines) vectors are in a different order"
            };
            *evals += 1;
            match render_whole(&v) {
                Err(e) => out.push(Viol::new("c13:panic:generate_report", format!("generate_report panicked: {}", e), "a report", e)),
                Ok(t) if t != base => {
                    let before = out.len();
                    for c in CATS {
                        let (a, b) = (seq_of(&base, c), seq_of(&t, c));
                        if a != b {
                            classify_diff(spec, c, &a, &b, how, &mut out);
                        }
                    }
                    if out.len() == before {
                        out.push(Viol::new("c13:report-file-differs", format!("solstat_report.md differs between two renderings of the same findings ({})", how), "byte-identical files", "different files"));
                    }
                }
                _ => {}
            }
        }
        dedup(&mut out);
        return out;
    }
    for (c, part) in &case.parts {
        let c = *c;
        *evals += 1;
        let base = match render(c, part, 0) {
            Ok(t) => t,
            Err(e) => {
                out.push(Viol::new(format!("c13:panic:{}", c.long()), format!("generate_{}_report panicked: {}", c.tag(), e), "a report", e));
                continue;
            }
        };
        let base_seq = block_seq(&read_back(spec, c, &base));
        let mut variants: Vec<(&str, Part, usize)> = vec![];
        for _ in 0..eff.fresh {
            variants.push(("another fresh map filled in the same order", part.clone(), 0));
        }
        variants.push(("a fresh map created with capacity 64", part.clone(), 64));
        variants.push(("a fresh map created with capacity 1024", part.clone(), 1024));
        for k in 0..eff.perms {
            variants.push(("a map filled in a different pattern order", shuffled_part(part, &mut rng, true, false, k == 0), 0));
        }
        for k in 0..eff.perms {
            variants.push(("a map whose (file, lines) vectors are in a different order", shuffled_part(part, &mut rng, false, true, k == 0), 0));
        }
        variants.push(("a map filled in a different pattern order with differently ordered (file, lines) vectors", shuffled_part(part, &mut rng, true, true, false), 256));
        let mut stable = true;
        for (how, p, cap) in &variants {
            *evals += 1;
            match render(c, p, *cap) {
                Err(e) => out.push(Viol::new(format!("c13:panic:{}", c.long()), format!("generate_{}_report panicked: {}", c.tag(), e), "a report", e)),
                Ok(t) if t != base => {
                    stable = false;
                    classify_diff(spec, c, &base_seq, &block_seq(&read_back(spec, c, &t)), how, &mut out);
                }
                _ => {}
            }
        }
        for _ in 0..eff.children {
            *evals += 1;
            match render_in_child(c, part, spec) {
                None => {
                    notes.insert("could not start a child process: rendering in another process (other hash seed) was not compared".to_string());
                }
                Some(Err(e)) => out.push(Viol::new(format!("c13:panic:{}", c.long()), format!("rendering in a child process failed: {}", head(&e, 300)), "a report", head(&e, 300))),
                Some(Ok(t)) if t != base => {
                    stable = false;
                    classify_diff(spec, c, &base_seq, &block_seq(&read_back(spec, c, &t)), "another process", &mut out);
                }
                _ => {}
            }
        }
        // canonical rendering: patterns in the category's fixed order, files ascending by (name, line set)
        if stable {
            if let Some(order) = &orders[c as usize] {
                let mut want: Vec<(Option<usize>, Vec<(String, i32)>)> = vec![];
                for i in order {
                    let mut files: Files = part.iter().filter(|(j, _)| j == i).flat_map(|(_, f)| f.clone()).collect();
                    files = sorted_files(&files);
                    let e = expected_entries(&files);
                    if !e.is_empty() {
                        want.push((Some(*i), e));
                    }
                }
                let got: Vec<(Option<usize>, Vec<(String, i32)>)> = base_seq.iter().filter(|(_, e)| !e.is_empty()).cloned().collect();
                let norm = |v: &Vec<(Option<usize>, Vec<(String, i32)>)>| {
                    let mut w: Vec<(Option<usize>, Vec<(String, i32)>)> = v.iter().map(|(p, e)| { let mut e = e.clone(); e.sort(); (*p, e) }).collect();
                    w.sort();
                    w
                };
                // wrong or missing entries are C11's matter: only the ORDER is compared here
                if want != got && norm(&want) == norm(&got) {
                    let wp: Vec<Option<usize>> = want.iter().map(|x| x.0).collect();
                    let gp: Vec<Option<usize>> = got.iter().map(|x| x.0).collect();
                    let show = |v: &Vec<(Option<usize>, Vec<(String, i32)>)>| v.iter().map(|(p, e)| format!("{} {}", p.map(|i| spec.name(c, i).to_string()).unwrap_or("?".into()), show_entries(e))).collect::<Vec<_>>().join("; ");
                    let key = if wp != gp { "c13:pattern-order-not-canonical" } else { "c13:file-order-not-canonical" };
                    out.push(Viol::new(
                        format!("{}:{}", key, c.long()),
                        "the rendering is stable but is not render(sorted view of the findings): patterns in the category's fixed order (the one of the report holding every pattern), files ascending by (name, line set)",
                        show(&want),
                        show(&got),
                    ));
                }
            }
        }
    }
    dedup(&mut out);
    out
}

fn dedup(v: &mut Vec<Viol>) {
    let mut seen = BTreeSet::new();
    v.retain(|x| seen.insert(x.key.clone()));
}

// ------------------------------------------------------------------ generators

const PLAIN: [&str; 6] = ["a.sol", "b.sol", "Token.sol", "Vault.sol", "lib_math.sol", "c.sol"];
const TRICKY: [&str; 14] = [
    "my contract.sol",
    "a:b.sol",
    "x.sol:12",
    "- y.sol:3",
    "\u{fc}n\u{ef}c\u{f6}d\u{e9}.sol",
    "\u{5408}\u{7ea6}.sol",
    "",
    "### Lines",
    "## Low Risk",
    " lead.sol",
    "trail.sol ",
    ":",
    "a.sol:-1",
    "\u{1f600}.sol",
];

struct Gen {
    rng: Rng,
}

impl Gen {
    /// level 0 plain, 1 plain+tricky pool, 2 also random strings
    fn name(&mut self, level: usize) -> String {
        let r = self.rng.below(10);
        if level == 0 || r < 4 {
            self.rng.pick(&PLAIN).to_string()
        } else if level == 1 || r < 7 {
            self.rng.pick(&TRICKY).to_string()
        } else {
            let alphabet: Vec<char> = "abcXYZ019 ._-:#/|\\'\"`*()[]{}<>,;!?=+~@$%^&\u{e9}\u{df}\u{3b1}\u{416}\u{4e2d}\u{1f525}\t".chars().collect();
            let n = self.rng.below(40);
            (0..n).map(|_| *self.rng.pick(&alphabet)).collect()
        }
    }
    fn lines(&mut self, max: usize, level: usize) -> Vec<i32> {
        let n = self.rng.below(max + 1);
        let mut s = BTreeSet::new();
        for _ in 0..n {
            let r = self.rng.below(20);
            let v = if level < 2 || r < 16 {
                1 + self.rng.below(if level == 0 { 60 } else { 5000 }) as i32
            } else {
                *self.rng.pick(&[0, i32::MAX, -1, i32::MIN, 1000000])
            };
            s.insert(v);
        }
        s.into_iter().collect()
    }
    fn files(&mut self, maxfiles: usize, maxlines: usize, level: usize) -> Files {
        let n = self.rng.below(maxfiles + 1);
        let mut v: Files = vec![];
        for _ in 0..n {
            // now and then the same name again (same-named files of different directories)
            let name = if !v.is_empty() && level > 0 && self.rng.below(6) == 0 { v[self.rng.below(v.len())].0.clone() } else { self.name(level) };
            let ls = self.lines(maxlines, level);
            v.push((name, ls));
        }
        v
    }
    fn subset(&mut self, n: usize, k: usize) -> Vec<usize> {
        let mut all: Vec<usize> = (0..n).collect();
        self.rng.shuffle(&mut all);
        all.truncate(k);
        all
    }
    fn part(&mut self, spec: &Spec, c: Cat, maxpats: usize, maxfiles: usize, maxlines: usize, level: usize) -> Part {
        let n = spec.n(c);
        let k = self.rng.below(maxpats.min(n) + 1);
        self.subset(n, k).into_iter().map(|i| (i, self.files(maxfiles, maxlines, level))).collect()
    }
}

/// shapes of one pattern's Vec: 0, 1 or 2 files with 0..=3 lines each (21 shapes)
fn shapes() -> Vec<Vec<usize>> {
    let mut v: Vec<Vec<usize>> = vec![vec![]];
    for a in 0..4 {
        v.push(vec![a]);
    }
    for a in 0..4 {
        for b in 0..4 {
            v.push(vec![a, b]);
        }
    }
    v
}

fn files_of_shape(shape: &[usize], salt: usize) -> Files {
    shape.iter().enumerate().map(|(j, n)| (["a.sol", "b.sol"][j].to_string(), (0..*n).map(|k| (10 * (j + 1) + 3 * k + salt) as i32).collect())).collect()
}

/// every single pattern of every category with every shape, and the empty maps
fn gen_singles(spec: &Spec) -> Vec<Case> {
    let mut v = vec![];
    for c in CATS {
        v.push(Case::one(c, vec![]));
        for sh in shapes() {
            for i in 0..spec.n(c) {
                v.push(Case::one(c, vec![(i, files_of_shape(&sh, i))]));
            }
        }
        // several files with the same (base) name, as produced by equally named files in different directories:
        // identical line sets, overlapping line sets, and a differently named file in between
        for i in 0..spec.n(c) {
            let f = |name: &str, ls: &[i32]| -> (String, Vec<i32>) { (name.to_string(), ls.to_vec()) };
            v.push(Case::one(c, vec![(i, vec![f("Token.sol", &[4, 17]), f("Token.sol", &[4, 17])])]));
            v.push(Case::one(c, vec![(i, vec![f("Token.sol", &[4]), f("Token.sol", &[4]), f("Token.sol", &[4])])]));
            v.push(Case::one(c, vec![(i, vec![f("a.sol", &[4, 17]), f("b.sol", &[17, 20]), f("a.sol", &[4, 17])])]));
            v.push(Case::one(c, vec![(i, vec![f("a.sol", &[4, 17]), f("a.sol", &[17, 20])])]));
            // names that normalisation / "natural" or case-insensitive ordering would conflate
            v.push(Case::one(c, vec![(i, vec![f("./a.sol", &[4]), f("a.sol", &[5])])]));
            v.push(Case::one(c, vec![(i, vec![f("a.sol", &[5]), f("./a.sol", &[4]), f("../a.sol", &[6]), f(".a.sol", &[7])])]));
            v.push(Case::one(c, vec![(i, vec![f("V1.sol", &[7]), f("V01.sol", &[7])])]));
            v.push(Case::one(c, vec![(i, vec![f("V01.sol", &[7]), f("V1.sol", &[7]), f("V001.sol", &[7])])]));
            v.push(Case::one(c, vec![(i, vec![f("Token.sol", &[4]), f("token.sol", &[4])])]));
            v.push(Case::one(c, vec![(i, vec![f("token.sol", &[4]), f("Token.sol", &[4]), f("TOKEN.sol", &[4])])]));
        }
    }
    v
}

/// all subsets of the four vulnerability patterns x all shape assignments
fn gen_vuln_exhaustive() -> Vec<Case> {
    let sh = shapes();
    let mut v = vec![];
    for mask in 0..16usize {
        let members: Vec<usize> = (0..4).filter(|i| mask & (1 << i) != 0).collect();
        let mut idx = vec![0usize; members.len()];
        loop {
            v.push(Case::one(Cat::Vuln, members.iter().enumerate().map(|(k, i)| (*i, files_of_shape(&sh[idx[k]], *i))).collect()));
            let mut k = 0;
            while k < idx.len() {
                idx[k] += 1;
                if idx[k] < sh.len() {
                    break;
                }
                idx[k] = 0;
                k += 1;
            }
            if k == idx.len() {
                break;
            }
        }
    }
    // small to large
    v.sort_by_key(|c| (c.parts[0].1.len(), c.entries()));
    v
}

/// the k-th of n seeded random maps; sizes and name/line-number exoticness grow with k
fn gen_random(spec: &Spec, g: &mut Gen, k: usize, n: usize, thorough: bool, cats: &[Cat]) -> Case {
    let c = cats[k % cats.len()];
    let stage = 3 * k / n.max(1);
    let (mp, mf, ml, lvl) = match (thorough, stage) {
        (false, 0) => (2, 2, 2, 0),
        (false, 1) => (3, 3, 3, 1),
        (false, _) => (6, 3, 4, 2),
        (true, 0) => (3, 3, 3, 1),
        (true, 1) => (8, 5, 6, 2),
        (true, _) => (23, 8, 12, 2),
    };
    Case::one(c, g.part(spec, c, mp, mf, ml, lvl))
}

/// whole-report cases: per category one of {no map entry, pattern -> [], pattern -> files without
/// lines, pattern -> findings}; at most one pattern per category has files, so that the expected
/// composition does not depend on C13
fn gen_whole(spec: &Spec, g: &mut Gen, extra: usize, level: usize) -> Vec<Case> {
    let mut v = vec![];
    let state = |g: &mut Gen, c: Cat, s: usize, level: usize| -> Part {
        // the 64 base combinations (level 0) use the first pattern, so that the witnesses do not depend on the seed
        let i = if level == 0 { 0 } else { g.rng.below(spec.n(c)) };
        let j = (i + 1) % spec.n(c);
        match s {
            0 => vec![],
            1 => vec![(i, vec![])],
            2 => vec![(i, vec![(if level == 0 { "a.sol".to_string() } else { g.name(level) }, vec![])]), (j, vec![])],
            _ if level == 0 => vec![(j, vec![]), (i, files_of_shape(&[2, 1], 0))],
            _ => {
                let mut f = g.files(3, 3, level);
                f.push((g.name(level), vec![1 + g.rng.below(90) as i32]));
                vec![(j, vec![]), (i, f)]
            }
        }
    };
    for code in 0..64 {
        let s = [code % 4, (code / 4) % 4, code / 16];
        v.push(Case { whole: true, parts: CATS.iter().map(|c| (*c, state(g, *c, s[*c as usize], 0))).collect() });
    }
    for _ in 0..extra {
        v.push(Case { whole: true, parts: CATS.iter().map(|c| { let s = g.rng.below(4); (*c, state(g, *c, s, level)) }).collect() });
    }
    v
}

// ------------------------------------------------------------------ the checks

fn record(r: &mut CheckResult, spec: &Spec, cmd: &str, case: &Case, viols: Vec<Viol>) {
    for v in viols {
        r.violate(&v.key, &v.what, vec![format!("{}-case", cmd), format!("@src:{}", case.ser(spec))], v.expected, v.actual);
    }
}

fn sample_of(spec: &Spec, case: &Case) -> J {
    J::obj(vec![("case", J::s(case.ser(spec))), ("entries", J::Num(case.entries() as i64)), ("whole_report", J::Bool(case.whole))])
}

fn quiet_panics() {
    std::panic::set_hook(Box::new(|_| {}));
}

fn run_c11(tier: &str, seed: u64) -> CheckResult {
    let thorough = tier == "thorough";
    let spec = Spec::new();
    let mut r = CheckResult::new("c11");
    let mut g = Gen { rng: Rng::new(seed) };
    for v in spec.static_checks() {
        if v.key.starts_with("c11:") {
            r.violate(&v.key, &v.what, vec!["c11-case".into()], v.expected, v.actual);
        }
    }
    r.evaluations += 30;
    let n_rand = if thorough { 120000 } else { 900 };
    let singles = gen_singles(&spec);
    let n_single = singles.len();
    let wholes = gen_whole(&spec, &mut Gen { rng: Rng::new(seed ^ 0x5eed) }, if thorough { 3000 } else { 40 }, 2);
    let total = n_single + n_rand + wholes.len();
    let step = |r: &mut CheckResult, case: &Case, sample: bool| {
        let mut ev = 0;
        let viols = check_c11(&spec, case, &mut ev);
        r.evaluations += ev;
        if case.entries() > 0 {
            r.nontrivial.insert(case.fingerprint());
        }
        if sample {
            r.sample(sample_of(&spec, case));
        }
        record(r, &spec, "c11", case, viols);
    };
    for (k, case) in singles.iter().enumerate() {
        step(&mut r, case, k == n_single / 2);
    }
    for k in 0..n_rand {
        let case = gen_random(&spec, &mut g, k, n_rand, thorough, &CATS);
        step(&mut r, &case, k == 5 || k == n_rand / 2 || k == n_rand - 1);
    }
    for (k, case) in wholes.iter().enumerate() {
        step(&mut r, case, k == wholes.len() - 1);
    }
    // one defect, one key: a mismatch that shows on plain file names already is not a matter of the
    // name class, and what shows in a category report already is not a matter of generate_report
    let keys: BTreeSet<String> = r.violations.iter().map(|v| v.key.clone()).collect();
    r.violations.retain(|v| {
        let mut k = v.key.clone();
        let mut subsumed = false;
        if let Some((base, last)) = k.clone().rsplit_once(':') {
            if NAME_CLASSES.contains(&last) {
                subsumed |= keys.contains(base);
                k = base.to_string();
            }
        }
        if let Some(t) = k.strip_prefix("c11:report-file:") {
            subsumed |= keys.contains(&format!("c11:{}", t)) || NAME_CLASSES.iter().any(|n| keys.contains(&format!("c11:{}:{}", t, n)));
        }
        !subsumed
    });
    r.rule = "a case is one findings map handed to the real generate_{vulnerability,optimization,qa}_report (or three maps handed to generate_report, read from solstat_report.md) and read back; non-trivial = at least one (file, line) finding; distinct by serialized case".into();
    r.bound = format!(
        "{} cases: every single pattern (30) x every shape (0,1,2 files x 0..3 lines) and the empty maps exhaustively; {} seeded random maps (up to {} patterns, {} files per pattern, {} lines per file; names with spaces, ':', unicode, report-like syntax, repeated names; line numbers incl. 0, negative, i32::MAX in the last third); {} whole-report cases",
        total,
        n_rand,
        if thorough { 23 } else { 6 },
        if thorough { 8 } else { 3 },
        if thorough { 12 } else { 4 },
        wholes.len()
    );
    r.assumptions.push("the section text of a pattern is the text returned by the report_section_content function of the report_sections module named after it (table in rep.rs); get_*_report_section is compared against that table".into());
    r.assumptions.push("blank lines around a section text are not significant; file names contain no line break".into());
    r
}

fn run_c12(tier: &str, seed: u64) -> CheckResult {
    let thorough = tier == "thorough";
    let spec = Spec::new();
    let mut r = CheckResult::new("c12");
    let mut g = Gen { rng: Rng::new(seed) };
    for v in spec.static_checks() {
        if v.key.starts_with("c12:") {
            r.violate(&v.key, &v.what, vec!["c12-case".into()], v.expected, v.actual);
        }
    }
    let n_rand = if thorough { 100000 } else { 600 };
    let mut fixed = gen_vuln_exhaustive();
    let n_ex = fixed.len();
    fixed.extend(gen_singles(&spec).into_iter().filter(|c| c.parts[0].0 != Cat::Qa));
    let wholes = gen_whole(&spec, &mut Gen { rng: Rng::new(seed ^ 0x5eed) }, if thorough { 4000 } else { 64 }, 1);
    let total = fixed.len() + n_rand + wholes.len();
    let step = |r: &mut CheckResult, case: &Case, sample: bool| {
        let mut ev = 0;
        let viols = check_c12(&spec, case, &mut ev);
        r.evaluations += ev;
        if case.entries() > 0 {
            r.nontrivial.insert(case.fingerprint());
        }
        if sample {
            r.sample(sample_of(&spec, case));
        }
        record(r, &spec, "c12", case, viols);
    };
    for (k, case) in fixed.iter().enumerate() {
        step(&mut r, case, k == n_ex / 3 || k == n_ex - 1);
    }
    for k in 0..n_rand {
        let case = gen_random(&spec, &mut g, k, n_rand, thorough, &[Cat::Opt, Cat::Vuln, Cat::Opt]);
        step(&mut r, &case, k == n_rand - 1);
    }
    for (k, case) in wholes.iter().enumerate() {
        step(&mut r, case, k == wholes.len() - 1);
    }
    r.rule = "a case is one findings map rendered by the real generate_vulnerability_report / generate_optimization_report (total, severity headings) or three maps rendered by generate_report (category parts); non-trivial = at least one (file, line) finding; distinct by serialized case".into();
    r.bound = format!(
        "{} cases: all 16 subsets of the 4 vulnerability patterns x per-pattern shapes ({} shapes of 0,1,2 files x 0..3 lines{}) = {} maps enumerated completely; every single optimisation/vulnerability pattern x 21 shapes; {} seeded random maps; {} whole-report cases (4 states per category: absent, pattern without files, files without lines, findings: all 64 combinations, plus seeded ones)",
        total,
        shapes().len(),
        "",
        n_ex,
        n_rand,
        wholes.len()
    );
    r.extra.push(("vulnerability_subsets_enumerated".into(), J::Num(16)));
    r.extra.push(("vulnerability_subset_cases".into(), J::Num(n_ex as i64)));
    r.assumptions.push("severity of a pattern is taken from the property text (selfdestruct high, divide-before-multiply medium, ERC20 and pragma low)".into());
    r.assumptions.push("whole-report cases give every category at most one pattern with files, so that the expected composition is independent of C13".into());
    r
}

fn run_c13(tier: &str, seed: u64) -> CheckResult {
    let thorough = tier == "thorough";
    let spec = Spec::new();
    let mut r = CheckResult::new("c13");
    let mut g = Gen { rng: Rng::new(seed) };
    let orders = [learn_order(&spec, Cat::Vuln), learn_order(&spec, Cat::Opt), learn_order(&spec, Cat::Qa)];
    let mut cases: Vec<Case> = vec![];
    // smallest witnesses first: two patterns with one file each; one pattern with two files
    for c in CATS {
        for i in 0..spec.n(c) {
            let j = (i + 1) % spec.n(c);
            cases.push(Case::one(c, vec![(i, vec![("a.sol".into(), vec![3])]), (j, vec![("a.sol".into(), vec![5])])]));
            cases.push(Case::one(c, vec![(i, vec![("b.sol".into(), vec![7]), ("a.sol".into(), vec![2, 9])])]));
            cases.push(Case::one(c, vec![(i, vec![("a.sol".into(), vec![7]), ("a.sol".into(), vec![2, 9])])]));
            // names that compare equal under a "natural" (digit runs as numbers) or case-insensitive key, same line sets
            cases.push(Case::one(c, vec![(i, vec![("V1.sol".into(), vec![7]), ("V01.sol".into(), vec![7]), ("V001.sol".into(), vec![7])])]));
            cases.push(Case::one(c, vec![(i, vec![("Token.sol".into(), vec![4]), ("token.sol".into(), vec![4]), ("TOKEN.sol".into(), vec![4])])]));
            cases.push(Case::one(c, vec![(i, vec![("./a.sol".into(), vec![4]), ("a.sol".into(), vec![4]), (".//a.sol".into(), vec![4])])]));
        }
        cases.push(Case::one(c, (0..spec.n(c)).map(|i| (i, vec![("b.sol".to_string(), vec![1]), ("a.sol".to_string(), vec![2])])).collect()));
    }
    let n_fixed = cases.len();
    let n_rand = if thorough { 60000 } else { 450 };
    let n_whole = if thorough { 400 } else { 12 };
    let total = n_fixed + n_rand + n_whole;
    let child_every = if thorough { 400 } else { 60 };
    let mut notes = BTreeSet::new();
    let mut step = |r: &mut CheckResult, k: usize, case: &Case, sample: bool| {
        let eff = Effort { fresh: if thorough { 8 } else { 5 }, perms: if thorough { 4 } else { 3 }, children: if !case.whole && (k < 3 || k % child_every == 0) { 2 } else { 0 } };
        let mut ev = 0;
        let viols = check_c13(&spec, case, &eff, &orders, &mut ev, &mut notes);
        r.evaluations += ev;
        let freedom = case.parts.iter().any(|(_, p)| p.iter().filter(|(_, f)| nlines(f) > 0).count() >= 2 || p.iter().any(|(_, f)| f.iter().filter(|(_, l)| !l.is_empty()).count() >= 2));
        if freedom {
            r.nontrivial.insert(case.fingerprint());
        }
        if sample {
            r.sample(sample_of(&spec, case));
        }
        record(r, &spec, "c13", case, viols);
    };
    for (k, case) in cases.iter().enumerate() {
        step(&mut r, k, case, k == 0 || k == n_fixed - 1);
    }
    for k in 0..n_rand {
        let case = gen_random(&spec, &mut g, k, n_rand, thorough, &CATS);
        step(&mut r, n_fixed + k, &case, k == n_rand / 2);
    }
    for k in 0..n_whole {
        let case = Case { whole: true, parts: CATS.iter().map(|c| (*c, g.part(&spec, *c, 4, 3, 2, 1))).collect() };
        step(&mut r, n_fixed + n_rand + k, &case, k == n_whole - 1);
    }
    drop(step);
    // no sorting at all shows on same-named files too: report the special class only on its own
    for c in CATS {
        if r.violations.iter().any(|v| v.key == format!("c13:file-order-depends-on-insertion:{}", c.long())) {
            r.violations.retain(|v| v.key != format!("c13:order-of-same-named-files-depends-on-insertion:{}", c.long()));
        }
    }
    r.rule = "a case is one findings SET; an evaluation is one rendering of it by the real code (fresh map instance = fresh hash keys; same / permuted pattern insertion order; permuted (file, lines) vectors; other capacities; some in a child process) compared byte for byte with the first rendering, then with the canonical order; non-trivial = the set leaves an ordering freedom (>= 2 patterns with findings or a pattern with >= 2 files with findings)".into();
    r.bound = format!(
        "{} findings sets ({} fixed small ones per pattern, {} seeded random maps of up to {} patterns x {} files, {} whole-report cases through solstat_report.md); per set {} fresh instances + {} pattern permutations + {} file permutations + 3 capacity/mixed variants; every {}th set also rendered twice in a child process",
        total,
        n_fixed,
        n_rand,
        if thorough { 23 } else { 6 },
        if thorough { 8 } else { 3 },
        n_whole,
        if thorough { 8 } else { 5 },
        if thorough { 4 } else { 3 },
        if thorough { 4 } else { 3 },
        child_every
    );
    r.extra.push((
        "learned_pattern_order".into(),
        J::Arr(CATS.iter().map(|c| match &orders[*c as usize] { Some(o) => J::arr_s(o.iter().map(|i| spec.name(*c, *i).to_string())), None => J::s("not stable between fresh maps") }).collect()),
    ));
    r.assumptions.push("canonical rendering = patterns in the order of the report that holds every pattern (learned per run, only if stable), files ascending by (name, line set); only compared when all renderings of the set are byte-identical".into());
    r.assumptions.push("per-process randomness is exercised through std's per-instance RandomState keys and a few child processes; the solstat binary itself is not re-run here".into());
    for n in notes {
        r.assumptions.push(n);
    }
    r
}

fn replay(cmd: &str, payload: &str) -> i32 {
    let spec = Spec::new();
    let case = match Case::de(payload, &spec) {
        Ok(c) => c,
        Err(e) => {
            eprintln!("cannot parse case: {}", e);
            return 2;
        }
    };
    let mut ev = 0;
    let viols = match cmd {
        "c11-case" => {
            let mut v: Vec<Viol> = spec.static_checks().into_iter().filter(|v| v.key.starts_with("c11:")).collect();
            v.extend(check_c11(&spec, &case, &mut ev));
            v
        }
        "c12-case" => check_c12(&spec, &case, &mut ev),
        _ => {
            let orders = [learn_order(&spec, Cat::Vuln), learn_order(&spec, Cat::Opt), learn_order(&spec, Cat::Qa)];
            let mut notes = BTreeSet::new();
            // many fresh instances: a two-pattern map keeps its order in half of the instances
            check_c13(&spec, &case, &Effort { fresh: 48, perms: 12, children: if case.whole { 0 } else { 2 } }, &orders, &mut ev, &mut notes)
        }
    };
    if viols.is_empty() {
        println!("contract holds on this case ({} evaluations)", ev);
        0
    } else {
        for v in &viols {
            println!("VIOLATION {}: {}\n  expected: {}\n  actual:   {}", v.key, v.what, v.expected, v.actual);
        }
        1
    }
}

/// Returns Some(exit code) when `cmd` belongs to this module.
pub fn dispatch(cmd: &str, rest: &[String], tier: &str, seed: u64) -> Option<i32> {
    match cmd {
        "c11" | "c12" | "c13" => {
            quiet_panics();
            let r = match cmd {
                "c11" => run_c11(tier, seed),
                "c12" => run_c12(tier, seed),
                _ => run_c13(tier, seed),
            };
            println!("{}", r.to_json().render());
            Some(0)
        }
        "c11-case" | "c12-case" | "c13-case" => {
            quiet_panics();
            if rest.is_empty() {
                // static part only (violations that do not depend on a findings map)
                let spec = Spec::new();
                let v: Vec<Viol> = spec.static_checks().into_iter().filter(|v| v.key.starts_with(&cmd[..3])).collect();
                for x in &v {
                    println!("VIOLATION {}: {}", x.key, x.what);
                }
                return Some(if v.is_empty() { 0 } else { 1 });
            }
            Some(replay(cmd, &crate::arg_or_file(&rest[0])))
        }
        "rep-render" => {
            // helper of C13: render one category part in this (new) process and print the text
            quiet_panics();
            let spec = Spec::new();
            let case = match Case::de(&crate::arg_or_file(rest.first().map(|s| s.as_str()).unwrap_or("")), &spec) {
                Ok(c) => c,
                Err(e) => {
                    eprintln!("cannot parse case: {}", e);
                    return Some(2);
                }
            };
            for (c, part) in &case.parts {
                match render(*c, part, 0) {
                    Ok(t) => print!("{}", t),
                    Err(e) => {
                        eprintln!("panic: {}", e);
                        return Some(3);
                    }
                }
            }
            Some(0)
        }
        _ => None,
    }
}
