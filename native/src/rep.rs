//! C11, C12, C13: executable contracts of generate_*_report
use crate::report::CheckResult;

/// Returns Some(exit code) when `cmd` belongs to this module.
pub fn dispatch(cmd: &str, rest: &[String], tier: &str, seed: u64) -> Option<i32> {
    let _ = (rest, tier, seed);
    match cmd {
        "c11" => {
            println!("{}", todo("c11").to_json().render());
            Some(0)
        }
        "c12" => {
            println!("{}", todo("c12").to_json().render());
            Some(0)
        }
        "c13" => {
            println!("{}", todo("c13").to_json().render());
            Some(0)
        }
        _ => None,
    }
}

#[allow(dead_code)]
fn todo(name: &str) -> CheckResult {
    let mut r = CheckResult::new(name);
    r.violate("harness:not-implemented", "check not implemented yet", vec![name.to_string()], String::new(), String::new());
    r
}
