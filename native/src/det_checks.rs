//! The checks c04, c05, c06, c07, c08, c09, c19 (see det.rs for the contract and the conventions).
use super::corpus::{self, Case, Kind};
use super::oracle;
use super::{check_contract, fmt_offsets, install_panic_hook, run_real, run_real_locs, Det, Run};
use crate::json::J;
use crate::report::{CheckResult, Rng};
use solang_parser::pt;
use std::collections::{BTreeMap, BTreeSet};

const NONTRIVIAL_RULE: &str = "one id per distinct (detector, payload class, position class) such that the oracle's `may` set of the program is non-empty, or the payload is a near-miss for that detector and the program parsed (a near-miss placed successfully)";

fn replay_argv(prop: &str, det: &str, src: &str) -> Vec<String> {
    vec!["det-case".to_string(), prop.to_string(), det.to_string(), format!("@src:{}", src)]
}

fn in_span(c: &Case, off: usize) -> bool {
    match c.span {
        Some((a, b)) => off >= a && off < b,
        None => true,
    }
}

/// class label of a failure at `off` for detector `d` in case `c`
fn label(c: &Case, d: Det, su: &pt::SourceUnit, off: usize) -> String {
    if c.focus == Some(d) && in_span(c, off) {
        c.class.clone()
    } else {
        oracle::describe_offset(su, off, Some(d))
    }
}

fn is_base_pos(pos: &str) -> bool {
    matches!(pos, "stmt-expr" | "stmt:body" | "contract" | "file" | "top" | "function-body" | "public-function")
}

/// Key of a position-sensitive failure class. A form that already fails in the BASE position of its family
/// (plain expression statement, plain function body, plain contract) is a position-independent defect: its
/// key carries no position. Otherwise the key names the position class; nested placements are attributed to
/// the component position that is known to fail on its own, else to "nested".
fn positioned_key(c: &Case, prefix: &str, base_failed: &mut BTreeSet<String>, seen: &mut BTreeSet<String>) -> String {
    if c.focus.is_none() && c.class.starts_with("sink") {
        // kitchen-sink files: many forms at once, the file names the class
        return format!("{}@{}", prefix, c.class);
    }
    if base_failed.contains(prefix) {
        return prefix.to_string();
    }
    if c.nested.is_empty() {
        if is_base_pos(&c.pos) {
            base_failed.insert(prefix.to_string());
            return prefix.to_string();
        }
        seen.insert(format!("{}@{}", prefix, c.pos));
        return format!("{}@{}", prefix, c.pos);
    }
    for comp in &c.nested {
        if seen.contains(&format!("{}@{}", prefix, comp)) {
            return format!("{}@{}", prefix, comp);
        }
    }
    format!("{}@nested", prefix)
}

fn counts_json(m: &BTreeMap<&'static str, i64>) -> J {
    J::Obj(m.iter().map(|(k, v)| (k.to_string(), J::Num(*v))).collect())
}

/// C05, C06, C07, C08: must ⊆ reported ⊆ may for every (program, detector of the property)
pub fn run_contract_check(prop: &str, tier: &str, seed: u64) -> CheckResult {
    install_panic_hook();
    let mut r = CheckResult::new(prop);
    let mut rng = Rng::new(seed);
    let cases = corpus::corpus_for(prop, tier, &mut rng);
    let dets = Det::of_prop(prop);
    let mut parse_fail: Vec<String> = vec![];
    let mut must_nonempty: BTreeMap<&'static str, i64> = dets.iter().map(|d| (d.name(), 0)).collect();
    let mut may_only: BTreeMap<&'static str, i64> = dets.iter().map(|d| (d.name(), 0)).collect();
    let mut inconclusive: BTreeSet<String> = BTreeSet::new();
    let mut unspecified: BTreeMap<String, i64> = BTreeMap::new();
    // "<prop>:<det>:<label>-<direction>@<pos>" of single-level failures (to attribute nested ones)
    let mut seen: BTreeSet<String> = BTreeSet::new();
    let mut base_failed: BTreeSet<String> = BTreeSet::new();
    let mut tail_stems: BTreeSet<String> = BTreeSet::new();
    let mut programs = 0usize;
    for c in &cases {
        let su = match solang_parser::parse(&c.src, 0) {
            Ok((su, _)) => su,
            Err(_) => {
                if parse_fail.len() < 40 {
                    parse_fail.push(format!("{}@{}", c.class, c.pos));
                }
                continue;
            }
        };
        programs += 1;
        for d in &dets {
            let v = check_contract(*d, &su);
            r.evaluations += 1;
            if let Some((class, _)) = &v.panic {
                inconclusive.insert(format!("c04:panic:{}:{}", d.name(), class));
                continue;
            }
            if !v.expect.may.is_empty() || (c.kind == Kind::Near && c.focus == Some(*d)) {
                r.nontrivial.insert(format!("{}|{}|{}|{}", d.name(), c.class, c.pos, c.variant));
            }
            if !v.expect.must.is_empty() {
                *must_nonempty.get_mut(d.name()).unwrap() += 1;
            } else if !v.expect.may.is_empty() {
                *may_only.get_mut(d.name()).unwrap() += 1;
            }
            // reports that are allowed but not required (forms section 8 leaves unspecified)
            for off in v.reported.difference(&v.expect.must) {
                if v.expect.may.contains(off) {
                    let what = if c.focus == Some(*d) && in_span(c, *off) { c.class.clone() } else { oracle::describe_offset(&su, *off, Some(*d)) };
                    *unspecified.entry(format!("{}:{}", d.name(), what)).or_insert(0) += 1;
                }
            }
            if c.focus == Some(*d) && r.samples.len() < 6 && !v.expect.must.is_empty() && c.nested.is_empty() && r.samples.len() as u64 * 997 < r.evaluations {
                r.sample(J::obj(vec![
                    ("detector", J::s(d.name())),
                    ("class", J::s(c.class.clone())),
                    ("position", J::s(c.pos.clone())),
                    ("must", J::s(fmt_offsets(&c.src, &v.expect.must))),
                    ("reported", J::s(fmt_offsets(&c.src, &v.reported))),
                    ("source", J::s(c.src.clone())),
                ]));
            }
            if c.class == "same-name" && c.focus == Some(*d) {
                // one protected and one unprotected function share a name: the key names direction and shape
                for (offs, what, dir) in [(&v.missed, "same-name-unprotected", "missed"), (&v.unexpected, "same-name-protected", "reported")] {
                    if let Some(off) = offs.first() {
                        r.violate(
                            &format!("{}:{}:{}-{}@{}", prop, d.name(), what, dir, c.pos),
                            &format!("{}: of two functions with the same name ({}: {}) the {} one is {}", d.name(), c.pos, c.variant, if dir == "missed" { "unprotected" } else { "protected" }, dir),
                            replay_argv(prop, d.name(), &c.src),
                            format!("reported == must = {}", fmt_offsets(&c.src, &v.expect.must)),
                            format!("reported = {} (offset {}, line {})", fmt_offsets(&c.src, &v.reported), off, super::line_of(&c.src, *off)),
                        );
                    }
                }
                continue;
            }
            for off in &v.missed {
                let lab = label(c, *d, &su, *off);
                if !c.key_tail.is_empty() && lab == c.class {
                    // enumerated family: the first (smallest) failing member names the key
                    let stem = format!("{}:{}:{}-missed", prop, d.name(), lab);
                    if tail_stems.insert(stem.clone()) {
                        r.violate(
                            &format!("{}:{}", stem, c.key_tail),
                            &format!("{} does not report a canonical instance ({}, smallest failing member {} = {})", d.name(), lab, c.key_tail, c.variant),
                            replay_argv(prop, d.name(), &c.src),
                            format!("reported ⊇ must = {}", fmt_offsets(&c.src, &v.expect.must)),
                            format!("reported = {}", fmt_offsets(&c.src, &v.reported)),
                        );
                    }
                    continue;
                }
                let prefix = format!("{}:{}:{}-missed", prop, d.name(), lab);
                let key = if c.pos == "random" {
                    // seeded compositions: one key per (detector, direction); single-factor templates name the precise class
                    format!("{}:{}:random-composition-missed", prop, d.name())
                } else {
                    positioned_key(c, &prefix, &mut base_failed, &mut seen)
                };
                r.violate(
                    &key,
                    &format!("{} does not report a canonical instance ({}, placed in position class {})", d.name(), lab, c.pos),
                    replay_argv(prop, d.name(), &c.src),
                    format!("reported ⊇ must = {}", fmt_offsets(&c.src, &v.expect.must)),
                    format!("reported = {} (missing offset {}, line {})", fmt_offsets(&c.src, &v.reported), off, super::line_of(&c.src, *off)),
                );
            }
            for off in &v.unexpected {
                let mut lab = label(c, *d, &su, *off);
                if !c.key_tail.is_empty() && lab == c.class {
                    let stem = format!("{}:{}:{}-reported", prop, d.name(), lab);
                    if tail_stems.insert(stem.clone()) {
                        r.violate(
                            &format!("{}:{}", stem, c.key_tail),
                            &format!("{} reports a construct outside its matching forms ({}, smallest failing member {} = {})", d.name(), lab, c.key_tail, c.variant),
                            replay_argv(prop, d.name(), &c.src),
                            format!("reported ⊆ may = {}", fmt_offsets(&c.src, &v.expect.may)),
                            format!("reported = {}", fmt_offsets(&c.src, &v.reported)),
                        );
                    }
                    continue;
                }
                let mut with_pos = false;
                let mut plain = false;
                if prop == "c08" && (*d == Det::ConstantVariables || *d == Det::ImmutableVariables || *d == Det::Sstore) {
                    if let Some(m) = oracle::declared_mutability_at(&su, *off) {
                        // a variable declared constant / immutable handled as if it were mutable
                        let key = if c.pos == "attribute-order" {
                            format!("{}:{}:declared-{}-treated-as-mutable@attribute-order", prop, d.name(), m)
                        } else {
                            format!("{}:{}:declared-{}-treated-as-mutable", prop, d.name(), m)
                        };
                        r.violate(
                            &key,
                            &format!("{} treats a variable declared {} as mutable (case {} / {} {})", d.name(), m, c.class, c.pos, c.variant),
                            replay_argv(prop, d.name(), &c.src),
                            format!("reported ⊆ may = {}", fmt_offsets(&c.src, &v.expect.may)),
                            format!("reported = {} (unexpected offset {}, line {}: {})", fmt_offsets(&c.src, &v.reported), off, super::line_of(&c.src, *off), oracle::describe_offset(&su, *off, Some(*d))),
                        );
                        continue;
                    }
                }
                if prop == "c08" && (*d == Det::ConstantVariables || *d == Det::ImmutableVariables) {
                    // a suggested variable that the file writes: name the write form and where the write is
                    if let Some(name) = oracle::state_variable_at(&su, *off) {
                        let writes = oracle::writes_in(&oracle::nodes_of_su(&su));
                        if *d == Det::ImmutableVariables && !oracle::assigned_in_constructor_body(&su, &name) {
                            lab = "variable-not-assigned-in-a-constructor-suggested".to_string();
                            plain = true;
                        } else if let Some(forms) = writes.get(&name) {
                            lab = format!("written-variable-suggested@{}", forms.iter().find(|f| **f != "assign" || *d == Det::ConstantVariables).unwrap_or(&forms[0]));
                            with_pos = true;
                        }
                    }
                }
                let key = if with_pos {
                    positioned_key(c, &format!("{}:{}:{}", prop, d.name(), lab), &mut base_failed, &mut seen)
                } else if plain {
                    format!("{}:{}:{}", prop, d.name(), lab)
                } else if c.pos == "random" {
                    format!("{}:{}:random-composition-reported", prop, d.name())
                } else {
                    format!("{}:{}:{}-reported", prop, d.name(), lab)
                };
                r.violate(
                    &key,
                    &format!("{} reports a construct outside its matching forms ({}, case {} in position class {})", d.name(), lab, c.class, c.pos),
                    replay_argv(prop, d.name(), &c.src),
                    format!("reported ⊆ may = {}", fmt_offsets(&c.src, &v.expect.may)),
                    format!("reported = {} (unexpected offset {}, line {}: {})", fmt_offsets(&c.src, &v.reported), off, super::line_of(&c.src, *off), oracle::describe_offset(&su, *off, Some(*d))),
                );
            }
        }
    }
    r.rule = NONTRIVIAL_RULE.to_string();
    r.bound = format!(
        "{} generated programs ({} parsed) x {} detectors; payloads (canonical / matching / near-miss forms of DESIGN.md section 8) in every position template of gen.rs, seeded two-level nestings, declaration-level templates and matrices; tier {}",
        cases.len(),
        programs,
        dets.len(),
        tier
    );
    r.exhaustive = false;
    r.extra.push(("programs".into(), J::Num(programs as i64)));
    r.extra.push(("programs_with_nonempty_must".into(), counts_json(&must_nonempty)));
    r.extra.push(("programs_with_may_only".into(), counts_json(&may_only)));
    r.extra.push(("parse_failures".into(), J::arr_s(parse_fail)));
    r.extra.push(("inconclusive_because_of_panic".into(), J::arr_s(inconclusive.into_iter())));
    r.extra.push(("reported_but_only_in_may".into(), J::Obj(unspecified.into_iter().map(|(k, v)| (k, J::Num(v))).collect())));
    r.assumptions.push("bounded: only the generated corpus; the oracle is a hand transcription of DESIGN.md section 8 over oracle_gen::all_nodes".into());
    r.assumptions.push("start offsets are compared (the reported line is the line of the start offset, C02)".into());
    r.assumptions.push("state-variable names are unique per file and never shadowed in the corpus".into());
    r
}

pub fn run_expr_level(prop: &str, tier: &str, seed: u64) -> CheckResult {
    run_contract_check(prop, tier, seed)
}
pub fn run_decl_level(prop: &str, tier: &str, seed: u64) -> CheckResult {
    run_contract_check(prop, tier, seed)
}

// ---------------------------------------------------------------------------------------------
// C04
// ---------------------------------------------------------------------------------------------
pub fn run_c04(tier: &str, seed: u64) -> CheckResult {
    install_panic_hook();
    let mut r = CheckResult::new("c04");
    let mut cases: Vec<Case> = corpus::corpus_c04_extra();
    // the other corpora always in their quick size (the shapes matter here, not the number of nestings)
    let sub_tier = if tier == "thorough" { "thorough" } else { "quick" };
    for p in ["c06", "c07", "c08", "c19", "c05"] {
        let mut rng = Rng::new(seed);
        let mut cs = corpus::corpus_for(p, if p == "c19" || p == "c06" { sub_tier } else { "quick" }, &mut rng);
        for c in cs.iter_mut() {
            c.class = format!("{}:{}", p, c.class);
        }
        cases.extend(cs);
    }
    // version matrix boundary files
    for (bn, body) in corpus::c09_bodies() {
        for v in corpus::boundary_versions() {
            for (on, op) in corpus::OPERATORS {
                let src = corpus::c09_file(Some(v), op, "both", &body);
                cases.push(Case { src, focus: None, class: format!("c09:{}:{}", bn, on), kind: Kind::Mixed, pos: format!("{}.{}.{}", v.0, v.1, v.2), span: None, nested: vec![], variant: String::new(), key_tail: String::new() });
            }
        }
    }
    let dets = Det::all();
    let mut parse_fail = vec![];
    let mut programs = 0;
    let mut per_det_reports: BTreeMap<&'static str, i64> = dets.iter().map(|d| (d.name(), 0)).collect();
    for c in &cases {
        let su = match solang_parser::parse(&c.src, 0) {
            Ok((su, _)) => su,
            Err(_) => {
                if parse_fail.len() < 60 {
                    parse_fail.push(format!("{}@{}", c.class, c.pos));
                }
                continue;
            }
        };
        programs += 1;
        r.nontrivial.insert(format!("{}@{}", c.class, c.pos));
        for d in &dets {
            r.evaluations += 1;
            match run_real(*d, &su) {
                Run::Ok(locs) => {
                    if !locs.is_empty() {
                        *per_det_reports.get_mut(d.name()).unwrap() += 1;
                    }
                }
                Run::Panic(class, msg) => {
                    r.violate(
                        &format!("c04:panic:{}:{}", d.name(), class),
                        &format!("{} panics on a file the parser accepts ({} @ {})", d.name(), c.class, c.pos),
                        replay_argv("c04", d.name(), &c.src),
                        "the detector returns a (possibly empty) set of locations".into(),
                        format!("panic: {}", msg),
                    );
                }
            }
        }
        if r.samples.len() < 4 && c.class.starts_with("literal") && c.src.len() < 900 {
            r.sample(J::obj(vec![("class", J::s(c.class.clone())), ("source", J::s(c.src.clone()))]));
        }
    }
    r.rule = "one id per distinct (case class, position class) program that parsed; every such program is run through all 30 detectors under catch_unwind".into();
    r.bound = format!(
        "{} programs ({} parsed) x 30 detectors: shapes named by C04 (no pragma, experimental-only, unreadable versions, free functions, literals up to 2^300 with separators and exponents -80..80, hex literals, zero-argument calls, up to 300 functions / contracts / members, nesting depth 60, empty and comment-only files) plus the corpora of c05-c08, c19 and the version boundary matrix; overflow checks as compiled ({})",
        cases.len(),
        programs,
        if cfg!(debug_assertions) { "debug assertions on" } else { "profile decides" }
    );
    r.extra.push(("programs".into(), J::Num(programs)));
    r.extra.push(("programs_with_findings_per_detector".into(), counts_json(&per_det_reports)));
    r.extra.push(("parse_failures".into(), J::arr_s(parse_fail)));
    r.extra.push(("overflow_checks_in_this_build".into(), J::Bool(overflow_checks_enabled())));
    r.assumptions.push("bounded: only the generated corpus; stack exhaustion beyond nesting depth 60 is not exercised".into());
    r
}

#[allow(arithmetic_overflow)]
fn overflow_checks_enabled() -> bool {
    let x: u8 = std::hint::black_box(255);
    std::panic::catch_unwind(move || x + std::hint::black_box(1)).is_err()
}

// ---------------------------------------------------------------------------------------------
// C09
// ---------------------------------------------------------------------------------------------
const C09_DETS: [Det; 4] = [Det::SafeMathPre080, Det::SafeMathPost080, Det::StringErrors, Det::ShortRevertString];

fn vstr(v: (u32, u32, u32)) -> String {
    format!("{}.{}.{}", v.0, v.1, v.2)
}

pub fn replay_never_both(su: &pt::SourceUnit, src: &str) -> (bool, String) {
    match (run_real(Det::SafeMathPre080, su), run_real(Det::SafeMathPost080, su)) {
        (Run::Ok(a), Run::Ok(b)) => {
            let both = !a.is_empty() && !b.is_empty();
            (!both, format!("safe_math_pre_080 reported {}, safe_math_post_080 reported {}", fmt_offsets(src, &a), fmt_offsets(src, &b)))
        }
        _ => (true, "a detector panicked: inconclusive (C04 violation)".into()),
    }
}

pub fn run_c09(tier: &str, seed: u64) -> CheckResult {
    install_panic_hook();
    let mut r = CheckResult::new("c09");
    let mut rng = Rng::new(seed);
    let bodies = corpus::c09_bodies();
    let all = corpus::all_versions();
    let thorough = tier == "thorough";
    // versions for which the operator x placement product is run
    let mut product: BTreeSet<(u32, u32, u32)> = corpus::boundary_versions().into_iter().collect();
    if thorough {
        product.extend(all.iter().cloned());
    } else {
        for _ in 0..40 {
            product.insert(*rng.pick(&all));
        }
    }
    let mut inconclusive: BTreeSet<String> = BTreeSet::new();
    let mut must_nonempty: BTreeMap<&'static str, i64> = C09_DETS.iter().map(|d| (d.name(), 0)).collect();
    let mut programs = 0i64;
    let mut key_stems: BTreeSet<String> = BTreeSet::new();
    // flags[(body, det)] = sequence over versions (ascending) of "reported something" for the plain spelling
    let mut flags: BTreeMap<(usize, &'static str), Vec<((u32, u32, u32), bool)>> = BTreeMap::new();

    // one program; returns per detector whether the contract held
    let mut run_one = |r: &mut CheckResult, src: &str, what: &str, keyf: &dyn Fn(&str, &str) -> String, flags_slot: Option<(usize, (u32, u32, u32))>, flags: &mut BTreeMap<(usize, &'static str), Vec<((u32, u32, u32), bool)>>| -> BTreeMap<&'static str, bool> {
        let mut ok: BTreeMap<&'static str, bool> = BTreeMap::new();
        let su = match solang_parser::parse(src, 0) {
            Ok((su, _)) => su,
            Err(_) => return ok,
        };
        programs += 1;
        for d in C09_DETS.iter() {
            let v = check_contract(*d, &su);
            r.evaluations += 1;
            if let Some((class, _)) = &v.panic {
                inconclusive.insert(format!("c04:panic:{}:{}", d.name(), class));
                continue;
            }
            if !v.expect.may.is_empty() {
                r.nontrivial.insert(format!("{}|{}", d.name(), what));
            }
            if !v.expect.must.is_empty() {
                *must_nonempty.get_mut(d.name()).unwrap() += 1;
            }
            if let Some((b, ver)) = flags_slot {
                flags.entry((b, d.name())).or_default().push((ver, !v.reported.is_empty()));
            }
            ok.insert(d.name(), v.holds());
            if !v.holds() {
                let full_key = keyf(d.name(), if !v.missed.is_empty() { "missed" } else { "reported" });
                // one key per (detector, class): versions ascend, the first failing version names it
                let stem = full_key.rsplitn(2, ':').last().unwrap_or(&full_key).to_string();
                let versioned = full_key.matches(':').count() >= 3;
                if versioned && !key_stems.insert(stem) {
                    continue;
                }
                let side = if !v.missed.is_empty() { "misses sites it has to report" } else { "reports sites it must not report" };
                r.violate(
                    &full_key,
                    &format!("{} {} for {}", d.name(), side, what),
                    replay_argv("c09", d.name(), src),
                    format!("must {} ⊆ reported ⊆ may {}", fmt_offsets(src, &v.expect.must), fmt_offsets(src, &v.expect.may)),
                    format!("reported {}", fmt_offsets(src, &v.reported)),
                );
            }
        }
        // never both
        if let (Run::Ok(a), Run::Ok(b)) = (run_real(Det::SafeMathPre080, &su), run_real(Det::SafeMathPost080, &su)) {
            r.evaluations += 1;
            let full_key = keyf("safe_math", "both").replace(":wrong-side:", ":both-report:");
            let stem = full_key.rsplitn(2, ':').last().unwrap_or(&full_key).to_string();
            if !a.is_empty() && !b.is_empty() && (full_key.matches(':').count() < 3 || key_stems.insert(stem)) {
                r.violate(
                    &full_key,
                    &format!("safe_math_pre_080 and safe_math_post_080 both report for {}", what),
                    replay_argv("c09", "safe_math", src),
                    "never both".into(),
                    format!("pre: {}, post: {}", fmt_offsets(src, &a), fmt_offsets(src, &b)),
                );
            }
        }
        ok
    };

    // files without `pragma solidity`: nothing is reported
    for (bi, (bn, body)) in bodies.iter().enumerate() {
        for placement in corpus::PLACEMENTS {
            let src = corpus::c09_file(None, "", placement, body);
            let what = format!("no 'pragma solidity' (other pragmas: {}), body {}", placement, bn);
            run_one(&mut r, &src, &what, &|d, _| format!("c09:{}:reports-without-solidity-pragma", d), None, &mut flags);
        }
        let _ = bi;
    }
    // versions ascending: the first failing version names the key
    for v in &all {
        for (bi, (bn, body)) in bodies.iter().enumerate() {
            // the first body is run for every version, the others on the product set only
            if bi > 0 && !product.contains(v) {
                continue;
            }
            let src = corpus::c09_file(Some(*v), "", "none", body);
            let what = format!("pragma solidity {} (body {})", vstr(*v), bn);
            let base = run_one(&mut r, &src, &what, &|d, _| format!("c09:{}:wrong-side:{}", d, vstr(*v)), Some((bi, *v)), &mut flags);
            if r.samples.len() < 3 && *v == (0, 8, 4) {
                r.sample(J::obj(vec![("version", J::s(vstr(*v))), ("body", J::s(*bn)), ("source", J::s(src.clone()))]));
            }
            if !product.contains(v) {
                continue;
            }
            for (on, op) in corpus::OPERATORS {
                for placement in corpus::PLACEMENTS {
                    if op.is_empty() && *placement == "none" {
                        continue;
                    }
                    let src = corpus::c09_file(Some(*v), op, placement, body);
                    let what = format!("pragma solidity {}{} with other pragmas {} (body {})", op, vstr(*v), placement, bn);
                    let base = base.clone();
                    let keyf = move |d: &str, _: &str| {
                        if base.get(d) == Some(&false) {
                            format!("c09:{}:wrong-side:{}", d, vstr(*v))
                        } else if *placement != "none" {
                            format!("c09:{}:other-pragma-{}:{}", d, placement, vstr(*v))
                        } else {
                            format!("c09:{}:operator-{}:{}", d, on, vstr(*v))
                        }
                    };
                    run_one(&mut r, &src, &what, &keyf, None, &mut flags);
                }
            }
        }
    }
    // monotonicity in v of "reports something" (plain spelling): at most one flip, direction fixed per detector
    for ((bi, dname), seq) in &flags {
        let mut flips: Vec<((u32, u32, u32), bool)> = vec![];
        for w in seq.windows(2) {
            if w[0].1 != w[1].1 {
                flips.push((w[1].0, w[1].1));
            }
        }
        r.evaluations += 1;
        let rising = *dname == "safe_math_post_080" || *dname == "string_errors";
        let bad = flips.len() > 1 || flips.iter().any(|f| f.1 != rising);
        if bad {
            // the first flip that goes the wrong way, or the second flip
            let at = flips.iter().find(|f| f.1 != rising).or(flips.get(1)).unwrap().0;
            let (_, body) = &bodies[*bi];
            let src = corpus::c09_file(Some(at), "", "none", body);
            r.violate(
                &format!("c09:{}:non-monotone:{}", dname, vstr(at)),
                &format!("{} is not monotone in the version: verdict flips at {:?}", dname, flips.iter().map(|f| vstr(f.0)).collect::<Vec<_>>()),
                replay_argv("c09", dname, &src),
                "the verdict changes at most once as the version grows".into(),
                format!("flips at {:?}", flips.iter().map(|f| (vstr(f.0), f.1)).collect::<Vec<_>>()),
            );
        }
    }
    r.rule = "one id per distinct (detector, pragma form = version x operator x placement x body) whose oracle `may` set is non-empty".into();
    r.bound = format!(
        "every version triple 0.0.0..0.12.40 and 1.0.0..1.2.40 ({} triples) with the plain spelling on the first body; operator spellings {{none,^,~,=,>=,>}} x placements of unrelated pragmas {{none,before,after,both}} x 3 bodies on {} versions ({}); files without 'pragma solidity'; never-both on every file; monotonicity over the plain sequence",
        all.len(),
        product.len(),
        if thorough { "all" } else { "boundaries 0.7.0..0.8.14, 0.9.0, 0.10.2, 1.0.0, 1.2.40 and a seeded sample" }
    );
    r.exhaustive = thorough;
    r.extra.push(("programs".into(), J::Num(programs)));
    r.extra.push(("programs_with_nonempty_must".into(), counts_json(&must_nonempty)));
    r.extra.push(("inconclusive_because_of_panic".into(), J::arr_s(inconclusive.into_iter())));
    r.assumptions.push("exhaustive only over the stated finite domain of pragma forms and the three fixed bodies".into());
    r.assumptions.push("byte-length threshold checked with 31/32/33-byte ASCII strings and 31/32-byte strings of 16 characters".into());
    r
}

// ---------------------------------------------------------------------------------------------
// C19
// ---------------------------------------------------------------------------------------------
fn is_pragma(p: &pt::SourceUnitPart) -> bool {
    matches!(p, pt::SourceUnitPart::PragmaDirective(..))
}

/// (start, end, is_pragma) of each top-level item; an item extends to the start of the next one
fn item_regions(su: &pt::SourceUnit, src: &str) -> Vec<(usize, usize, bool)> {
    let mut starts: Vec<(usize, bool)> = su.0.iter().map(|p| (oracle::st(p.loc()), is_pragma(p))).collect();
    starts.sort();
    let mut out = vec![];
    for (i, (s, p)) in starts.iter().enumerate() {
        let e = if i + 1 < starts.len() { starts[i + 1].0 } else { src.len() };
        out.push((*s, e, *p));
    }
    out
}

fn blank(src: &str, regions: &[(usize, usize)]) -> String {
    let mut b = src.as_bytes().to_vec();
    for (s, e) in regions {
        for x in b[*s..*e].iter_mut() {
            if *x != b'\n' && *x != b'\r' {
                *x = b' ';
            }
        }
    }
    String::from_utf8(b).expect("blanking keeps the text valid")
}

pub enum Composition {
    Holds(BTreeSet<usize>),
    Differs { whole: BTreeSet<usize>, parts: BTreeSet<usize> },
    Inconclusive(String),
    NotApplicable,
}

/// whole-file report vs union of the reports with every other non-pragma item blanked
pub fn composition(d: Det, src: &str) -> Composition {
    let su = match solang_parser::parse(src, 0) {
        Ok((su, _)) => su,
        Err(_) => return Composition::NotApplicable,
    };
    let regions = item_regions(&su, src);
    let items: Vec<usize> = (0..regions.len()).filter(|i| !regions[*i].2).collect();
    if items.len() < 2 {
        return Composition::NotApplicable;
    }
    let whole = match run_real(d, &su) {
        Run::Ok(s) => s,
        Run::Panic(c, _) => return Composition::Inconclusive(format!("c04:panic:{}:{}", d.name(), c)),
    };
    let mut parts = BTreeSet::new();
    for keep in &items {
        let others: Vec<(usize, usize)> = items.iter().filter(|i| *i != keep).map(|i| (regions[*i].0, regions[*i].1)).collect();
        let alone = blank(src, &others);
        let su_i = match solang_parser::parse(&alone, 0) {
            Ok((su, _)) => su,
            Err(_) => return Composition::NotApplicable,
        };
        match run_real(d, &su_i) {
            Run::Ok(s) => parts.extend(s),
            Run::Panic(c, _) => return Composition::Inconclusive(format!("c04:panic:{}:{}", d.name(), c)),
        }
    }
    if whole == parts {
        Composition::Holds(whole)
    } else {
        Composition::Differs { whole, parts }
    }
}

pub fn replay_c19(d: Det, src: &str) -> (bool, String) {
    match composition(d, src) {
        Composition::Holds(w) => (true, format!("{}: whole file and union over items agree: {}", d.name(), fmt_offsets(src, &w))),
        Composition::Differs { whole, parts } => (false, format!("{}: whole file reports {}, union over the items analysed alone reports {}", d.name(), fmt_offsets(src, &whole), fmt_offsets(src, &parts))),
        Composition::Inconclusive(k) => (true, format!("inconclusive: {}", k)),
        Composition::NotApplicable => (true, "fewer than two non-pragma items, or a blanked variant does not parse".into()),
    }
}

pub fn run_c19(tier: &str, seed: u64) -> CheckResult {
    install_panic_hook();
    let mut r = CheckResult::new("c19");
    let mut rng = Rng::new(seed);
    let cases = corpus::corpus_c19(tier, &mut rng);
    let dets: Vec<Det> = Det::all().into_iter().filter(|d| *d != Det::SafeMathPre080 && *d != Det::SafeMathPost080).collect();
    let mut inconclusive: BTreeSet<String> = BTreeSet::new();
    let mut nonempty: BTreeMap<&'static str, i64> = dets.iter().map(|d| (d.name(), 0)).collect();
    let mut applicable = 0i64;
    for c in &cases {
        let mut counted = false;
        for d in &dets {
            match composition(*d, &c.src) {
                Composition::NotApplicable => break,
                Composition::Inconclusive(k) => {
                    r.evaluations += 1;
                    inconclusive.insert(k);
                }
                Composition::Holds(w) => {
                    r.evaluations += 1;
                    if !counted {
                        counted = true;
                        applicable += 1;
                    }
                    if !w.is_empty() {
                        *nonempty.get_mut(d.name()).unwrap() += 1;
                        r.nontrivial.insert(format!("{}|{}", d.name(), c.pos));
                    }
                }
                Composition::Differs { whole, parts } => {
                    r.evaluations += 1;
                    r.nontrivial.insert(format!("{}|{}", d.name(), c.pos));
                    // same-named variables in unrelated contracts are a class of their own (stable key)
                    let key = if c.class == "same-name-variables" { format!("c19:{}:item-interference:{}", d.name(), c.pos) } else { format!("c19:{}:item-interference", d.name()) };
                    r.violate(
                        &key,
                        &format!("{}: the findings of the file are not the union of the findings of its top-level items ({}: {})", d.name(), c.class, c.pos),
                        replay_argv("c19", d.name(), &c.src),
                        format!("whole == union over items = {}", fmt_offsets(&c.src, &parts)),
                        format!("whole = {}", fmt_offsets(&c.src, &whole)),
                    );
                }
            }
        }
        if r.samples.len() < 3 && c.class == "triple" {
            r.sample(J::obj(vec![("shape", J::s(c.pos.clone())), ("source", J::s(c.src.clone()))]));
        }
    }
    r.rule = "one id per distinct (detector, item shape of the program) where the detector reports something on the whole file (or the composition fails)".into();
    r.bound = format!(
        "{} multi-item programs ({} applicable): all ordered pairs of {} item kinds, seeded triples and quadruples, with pinned / caret / no pragma; 28 detectors (all but the two SafeMath ones); every other non-pragma item blanked (line breaks kept)",
        cases.len(),
        applicable,
        corpus::ITEM_POOL.len()
    );
    r.extra.push(("programs_where_detector_reports".into(), counts_json(&nonempty)));
    r.extra.push(("inconclusive_because_of_panic".into(), J::arr_s(inconclusive.into_iter())));
    r.assumptions.push("in the pair / triple / quadruple programs the items never mention each other's state-variable names (names carry the item index); same-named variables in unrelated contracts are the separate class `same-name-variables`".into());
    r
}

// ---------------------------------------------------------------------------------------------
// C02 (location part): the reported location is the FIRST BYTE OF THE CONSTRUCT named under `loc` in section 8
// ---------------------------------------------------------------------------------------------
/// (start, end) of a reported location R and the offset of an expected construct E such that
///   start(R) is not in `may`,  E is in `must` but not reported,  and the spans of R and E are nested:
/// the right construct was found but another node's location was reported.
pub fn wrong_node_locations(d: Det, su: &pt::SourceUnit) -> Vec<(usize, usize, usize)> {
    let reported = match run_real_locs(d, su) {
        Ok(r) => r,
        Err(_) => return vec![],
    };
    if reported.is_empty() {
        return vec![];
    }
    wrong_nodes(d, su, &reported)
}

fn wrong_nodes(d: Det, su: &pt::SourceUnit, reported: &[(usize, usize)]) -> Vec<(usize, usize, usize)> {
    let x = oracle::expected(d, su);
    let starts: BTreeSet<usize> = reported.iter().map(|r| r.0).collect();
    let extra: Vec<&(usize, usize)> = reported.iter().filter(|r| !x.may.contains(&r.0)).collect();
    let missing: Vec<usize> = x.must.iter().filter(|o| !starts.contains(o)).cloned().collect();
    let mut out = vec![];
    if extra.is_empty() || missing.is_empty() {
        return out; // pure miss or pure extra report: C05..C09's business
    }
    for e in &missing {
        let (lo, hi) = match oracle::extents_at(su, *e) {
            Some(x) => x,
            None => continue,
        };
        for r in &extra {
            let r_inside_e = *e <= r.0 && r.1 <= hi;
            let e_inside_r = r.0 <= *e && lo <= r.1;
            if r_inside_e || e_inside_r {
                out.push((r.0, r.1, *e));
            }
        }
    }
    out
}

pub fn run_c02_loc(tier: &str, seed: u64) -> CheckResult {
    install_panic_hook();
    let mut r = CheckResult::new("c02-loc");
    // (cases, detectors run on them)
    let mut groups: Vec<(Vec<Case>, Vec<Det>)> = vec![];
    for p in ["c05", "c06", "c07", "c08"] {
        let mut rng = Rng::new(seed);
        let cases: Vec<Case> = corpus::corpus_for(p, tier, &mut rng).into_iter().filter(|c| c.key_tail.is_empty()).collect();
        groups.push((cases, Det::of_prop(p)));
    }
    // version-gated detectors: the three bodies on both sides of both thresholds
    let mut c09 = vec![];
    for (bn, body) in corpus::c09_bodies() {
        for v in [(0, 7, 6), (0, 8, 0), (0, 8, 3), (0, 8, 4), (0, 8, 10)] {
            c09.push(Case { src: corpus::c09_file(Some(v), "", "both", &body), focus: None, class: format!("c09:{}", bn), kind: Kind::Mixed, pos: vstr(v), span: None, nested: vec![], variant: String::new(), key_tail: String::new() });
        }
    }
    groups.push((c09, C09_DETS.to_vec()));
    // multi-line payloads: with the detectors of the payload's property
    let ml = corpus::corpus_multiline();
    for p in ["c09"] {
        // (the multi-line payloads of c05..c08 are part of those corpora)
        let cases: Vec<Case> = ml.iter().filter(|c| c.focus.map(|d| d.prop()) == Some(p)).cloned().collect();
        groups.push((cases, Det::of_prop(p)));
    }
    let mut programs = 0i64;
    let mut pairs = 0i64;
    let mut multi_line_pairs = 0i64;
    let mut per_det: BTreeMap<&'static str, i64> = Det::all().iter().map(|d| (d.name(), 0)).collect();
    for (cases, dets) in &groups {
        for c in cases {
            let su = match solang_parser::parse(&c.src, 0) {
                Ok((su, _)) => su,
                Err(_) => continue,
            };
            programs += 1;
            for d in dets {
                let reported = match run_real_locs(*d, &su) {
                    Ok(x) => x,
                    Err(_) => continue,
                };
                pairs += 1;
                if reported.is_empty() {
                    continue;
                }
                r.evaluations += 1;
                *per_det.get_mut(d.name()).unwrap() += 1;
                r.nontrivial.insert(format!("{}|{}|{}|{}", d.name(), c.class, c.pos, c.variant));
                if reported.iter().any(|l| super::line_of(&c.src, l.0) != super::line_of(&c.src, l.1.min(c.src.len()))) {
                    multi_line_pairs += 1;
                }
                let w = wrong_nodes(*d, &su, &reported);
                if let Some((rs, re, e)) = w.first() {
                    r.violate(
                        &format!("c02:wrong-node-location:{}", d.name()),
                        &format!("{} finds the construct but reports the location of another node of it (case {} in position class {})", d.name(), c.class, c.pos),
                        replay_argv("c02-loc", d.name(), &c.src),
                        format!("the location of the construct named under `loc` in DESIGN.md section 8: offset {} (line {})", e, super::line_of(&c.src, *e)),
                        format!("reported {}..{} (line {}): {}", rs, re, super::line_of(&c.src, *rs), oracle::describe_offset(&su, *rs, Some(*d))),
                    );
                }
                if r.samples.len() < 4 && c.class.starts_with("multiline") && c.focus == Some(*d) && c.pos == "stmt-expr" && (r.samples.len() as i64) * 400 < r.evaluations as i64 {
                    r.sample(J::obj(vec![("detector", J::s(d.name())), ("class", J::s(c.class.clone())), ("reported", J::s(format!("{:?}", reported))), ("source", J::s(c.src.clone()))]));
                }
            }
        }
    }
    r.rule = "evaluations = (detector, program) pairs on which the real detector reports at least one location; one nontrivial id per distinct (detector, payload class, position class, variant) among them".into();
    r.bound = format!(
        "{} programs / {} (detector, program) pairs: the corpora of c05, c06, c07, c08 (tier {}), the three version-gated bodies at 0.7.6/0.8.0/0.8.3/0.8.4/0.8.10, and {} multi-line canonical payloads (sub-nodes start on other lines than the construct) in every position template plus multi-line declaration files; each corpus with the detectors of its property",
        programs,
        pairs,
        tier,
        corpus::MULTILINE_PAYLOADS.len()
    );
    r.extra.push(("pairs_with_a_report_spanning_several_lines".into(), J::Num(multi_line_pairs)));
    r.extra.push(("pairs_with_reports_per_detector".into(), counts_json(&per_det)));
    r.assumptions.push("violation iff a reported location R has start(R) not in `may`, an expected construct E of `must` is not reported on the same program, and the spans of R and E are nested; plain misses and plain extra reports are left to C05..C09".into());
    r.assumptions.push("bounded: generated corpus only; expected constructs come from the executable transcription of DESIGN.md section 8".into());
    r
}


// ---------------------------------------------------------------------------------------------
// C17 (pragma part): comments INSIDE a pragma statement. The parser keeps them in the text of the pragma value, so this
// is the one place where the analysis sees comment text; the findings must be those of the same file with the comments
// of the pragma statements removed (block comment -> one space, line comment -> nothing up to its line break).
// ---------------------------------------------------------------------------------------------
/// lines (1-based) of the starts of what detector `d` reports on `src`; None if it does not parse / panics
fn lines_of_det(d: Det, src: &str) -> Option<BTreeSet<usize>> {
    let su = solang_parser::parse(src, 0).ok()?.0;
    match run_real(d, &su) {
        Run::Ok(r) => Some(r.iter().map(|o| super::line_of(src, *o)).collect()),
        Run::Panic(_, _) => None,
    }
}

pub fn c17_pragma_pair(d: Det, commented: &str, plain: &str) -> (bool, String) {
    match (lines_of_det(d, commented), lines_of_det(d, plain)) {
        (Some(a), Some(b)) if a == b => (true, format!("{}: both texts give lines {:?}", d.name(), a)),
        (Some(a), Some(b)) => (false, format!("{}: with the comment in the pragma statement lines {:?}, without it lines {:?}", d.name(), a, b)),
        _ => (true, "a text does not parse or the detector panics: not this check's business".into()),
    }
}

pub fn run_c17_pragma(tier: &str, _seed: u64) -> CheckResult {
    install_panic_hook();
    let mut r = CheckResult::new("c17-pragma");
    let dets = Det::all();
    let bodies = corpus::c09_bodies();
    let versions: Vec<(u32, u32, u32)> = if tier == "thorough" { corpus::boundary_versions() } else { vec![(0, 4, 24), (0, 7, 6), (0, 8, 0), (0, 8, 3), (0, 8, 4), (0, 8, 17), (1, 0, 0)] };
    // (name, pragma statement with a comment); the plain twin is computed with the oracle's comment stripper
    let mut forms: Vec<(String, String)> = vec![];
    for (a, b, c) in &versions {
        let v = format!("{}.{}.{}", a, b, c);
        let other = if (*a, *b) >= (0, 8) { "0.4.11" } else { "0.8.19" };
        for op in ["", "^", ">="] {
            forms.push((format!("version-in-trailing-block-comment:{}{}", op, v), format!("pragma solidity {}{} /* was {} */;\n", op, v, other)));
            forms.push((format!("version-in-leading-block-comment:{}{}", op, v), format!("pragma solidity /* not {} */ {}{};\n", other, op, v)));
            forms.push((format!("version-in-line-comment:{}{}", op, v), format!("pragma solidity {}{} // {}\n;\n", op, v, other)));
            forms.push((format!("caret-in-block-comment:{}{}", op, v), format!("pragma solidity {}{} /* ^{} */;\n", op, v, other)));
            forms.push((format!("comment-between-keyword-and-name:{}{}", op, v), format!("pragma /* c */ solidity {}{};\n", op, v)));
            forms.push((format!("multi-line-block-comment:{}{}", op, v), format!("pragma solidity {}{} /* was\n {} ^\n */;\n", op, v, other)));
            forms.push((format!("slashes-inside-block-comment:{}{}", op, v), format!("pragma solidity /* see https://x.y/{} */ {}{} /* was {} // bumped ^ */;\n", other, op, v, other)));
        }
    }
    // white space inside the pragma statement (no comment): explicit (variant, twin) pairs with the same number of line breaks
    let mut ws_pairs: Vec<(String, String, String)> = vec![];
    for (a, b, c) in &versions {
        let v = format!("{}.{}.{}", a, b, c);
        for op in ["", "^", ">="] {
            ws_pairs.push((format!("tab-between-operator-and-version:{}{}", op, v), format!("pragma solidity {}\t{};\n", op, v), format!("pragma solidity {}{};\n", op, v)));
            ws_pairs.push((format!("newline-between-operator-and-version:{}{}", op, v), format!("pragma solidity {}\n{};\n", op, v), format!("pragma solidity\n{}{};\n", op, v)));
            ws_pairs.push((format!("crlf-between-operator-and-version:{}{}", op, v), format!("pragma solidity {}\r\n{};\n", op, v), format!("pragma solidity\n{}{};\n", op, v)));
            ws_pairs.push((format!("spaces-around-version:{}{}", op, v), format!("pragma   solidity   {}   {}   ;\n", op, v), format!("pragma solidity {}{};\n", op, v)));
        }
    }
    for (fname, stmt, plain_stmt) in &ws_pairs {
        for (bname, body) in &bodies {
            let variant = format!("{}{}", stmt, body);
            let plain = format!("{}{}", plain_stmt, body);
            for d in &dets {
                r.evaluations += 1;
                let (ok, msg) = c17_pragma_pair(*d, &variant, &plain);
                if !ok {
                    r.violate(
                        &format!("c17:white-space-in-pragma-changes-findings:{}:{}", d.name(), fname.split(':').next().unwrap_or("")),
                        &format!("{} ({}, body {})", msg.replace("with the comment in the pragma statement", "with the white space in the pragma statement").replace("without it", "with single spaces"), fname, bname),
                        vec!["c17-pragma-case".into(), d.name().to_string(), format!("@src:{}", variant), format!("@src:{}", plain)],
                        "the findings of the same text with the pragma value written with single spaces".into(),
                        msg.clone(),
                    );
                }
            }
        }
    }
    forms.push(("experimental-with-comment".into(), "pragma experimental /* 0.4.11 ^ */ ABIEncoderV2;\npragma solidity 0.8.10;\n".into()));
    for (fname, stmt) in &forms {
        let plain_stmt = oracle::without_comments(stmt);
        for (bname, body) in &bodies {
            let commented = format!("{}{}", stmt, body);
            let plain = format!("{}{}", plain_stmt, body);
            for d in &dets {
                r.evaluations += 1;
                let (ok, msg) = c17_pragma_pair(*d, &commented, &plain);
                if let (Some(a), true) = (lines_of_det(*d, &plain), ok) {
                    if !a.is_empty() {
                        r.nontrivial.insert(format!("{}|{}|{}", d.name(), fname.split(':').next().unwrap_or(""), bname));
                    }
                }
                if !ok {
                    r.violate(
                        &format!("c17:comment-in-pragma-changes-findings:{}:{}", d.name(), fname.split(':').next().unwrap_or("")),
                        &format!("{} ({}, body {})", msg, fname, bname),
                        vec!["c17-pragma-case".into(), d.name().to_string(), format!("@src:{}", commented), format!("@src:{}", plain)],
                        "the findings of the same text without the comment".into(),
                        msg.clone(),
                    );
                }
            }
        }
    }
    r.sample(J::obj(vec![("commented", J::s(format!("{}...", forms[0].1))), ("plain", J::s(oracle::without_comments(&forms[0].1)))]));
    r.rule = "one case = (pragma statement with a comment, body, detector): the detector's lines on the text must equal its lines on the same text with the comments of the pragma statement removed; non-trivial = distinct (detector, comment form, body) where the detector reports something".into();
    r.bound = format!("{} pragma forms (versions x operators {{none, ^, >=}} x 5 comment placements) x {} bodies x {} detectors", forms.len(), bodies.len(), dets.len());
    r.assumptions.push("the parser keeps comments inside the text of a pragma value (solang-parser 0.1.18); everywhere else comments are dropped by the lexer and covered by the layout check c17".into());
    r
}
