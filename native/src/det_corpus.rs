//! Corpora for the detector-level checks. Deterministic in the seed; small cases first.
//!
//! A `Case` is one program plus the bookkeeping needed to name the CLASS of a failure:
//!   focus  detector the payload was written for (None for matrix files: the class is then derived from
//!          the parse tree at the offending offset)
//!   class  name of the payload form ("canonical", "non-power-of-two", "guarded-require-right", ...)
//!   pos    position class = template family the payload was placed in ("catch-simple-body", "expr:pow-r", ...)
//!   span   byte range of the payload inside `src`
use super::Det;
use crate::gen;
use crate::report::Rng;

#[derive(Clone, Copy, PartialEq, Eq, Debug)]
pub enum Kind {
    Canon,
    Match,
    Near,
    /// declaration-level file containing several forms
    Mixed,
}
impl Kind {
    pub fn name(self) -> &'static str {
        match self {
            Kind::Canon => "canonical",
            Kind::Match => "matching",
            Kind::Near => "near-miss",
            Kind::Mixed => "mixed",
        }
    }
}

#[derive(Clone)]
pub struct Case {
    pub src: String,
    pub focus: Option<Det>,
    pub class: String,
    pub kind: Kind,
    pub pos: String,
    pub span: Option<(usize, usize)>,
    /// components of a nested placement (statement position, outer expression position, inner one)
    pub nested: Vec<String>,
    /// individual variant inside a (class, pos) family (shape of a random program); never part of a key
    pub variant: String,
    /// when non-empty: appended to the key as ":<tail>" and only the FIRST failing case of the
    /// (detector, class, direction) is reported (families enumerated in ascending order: smallest k in the key)
    pub key_tail: String,
}

pub struct Payload {
    pub det: Det,
    pub class: &'static str,
    pub kind: Kind,
    pub text: &'static str,
    pub stmt: bool,
}

const fn e(det: Det, class: &'static str, kind: Kind, text: &'static str) -> Payload {
    Payload { det, class, kind, text, stmt: false }
}
const fn s(det: Det, class: &'static str, kind: Kind, text: &'static str) -> Payload {
    Payload { det, class, kind, text, stmt: true }
}

use Kind::{Canon, Match, Near};

pub const POW2_300: &str = "2037035976334486086268445688409378161051468393665936250636140449354381299763336706183397376";

pub const C05_PAYLOADS: &[Payload] = &[
    // address_balance
    e(Det::AddressBalance, "canonical", Canon, "address(this).balance"),
    e(Det::AddressBalance, "other-argument", Match, "address(x).balance"),
    e(Det::AddressBalance, "plain-member", Near, "x.balance"),
    e(Det::AddressBalance, "payable-conversion", Near, "payable(x).balance"),
    e(Det::AddressBalance, "other-member", Near, "address(this).code"),
    // address_zero
    e(Det::AddressZero, "canonical", Canon, "x == address(0)"),
    e(Det::AddressZero, "canonical-ne-left", Canon, "address(0) != x"),
    e(Det::AddressZero, "zero-with-exponent", Match, "x == address(0e1)"),
    e(Det::AddressZero, "plain-comparison", Near, "x == y"),
    e(Det::AddressZero, "address-one", Near, "address(1) == x"),
    e(Det::AddressZero, "address-ten", Near, "address(10) == x"),
    e(Det::AddressZero, "no-comparison", Near, "address(0)"),
    e(Det::AddressZero, "ordering-comparison", Near, "x < address(0)"),
    e(Det::AddressZero, "no-argument", Near, "x == address()"),
    e(Det::AddressZero, "payable-zero", Near, "x == payable(0)"),
    // bool_equals_bool
    e(Det::BoolEqualsBool, "canonical", Canon, "x == true"),
    e(Det::BoolEqualsBool, "canonical-ne-left", Canon, "false != x"),
    e(Det::BoolEqualsBool, "no-literal", Near, "x == y"),
    e(Det::BoolEqualsBool, "negation", Near, "!x"),
    e(Det::BoolEqualsBool, "and-literal", Near, "x && true"),
    e(Det::BoolEqualsBool, "assignment-of-literal", Near, "x = true"),
    // assign_update_array_value
    e(Det::AssignUpdateArrayValue, "canonical", Canon, "arr[1] = arr[1] + x"),
    e(Det::AssignUpdateArrayValue, "canonical-sub", Canon, "arr[1] = arr[1] - x"),
    e(Det::AssignUpdateArrayValue, "canonical-mul", Canon, "arr[1] = arr[1] * x"),
    e(Det::AssignUpdateArrayValue, "canonical-div", Canon, "arr[1] = arr[1] / x"),
    e(Det::AssignUpdateArrayValue, "canonical-mod", Canon, "arr[1] = arr[1] % x"),
    e(Det::AssignUpdateArrayValue, "canonical-shl", Canon, "arr[1] = arr[1] << x"),
    e(Det::AssignUpdateArrayValue, "canonical-shr", Canon, "arr[1] = arr[1] >> x"),
    e(Det::AssignUpdateArrayValue, "canonical-and", Canon, "arr[1] = arr[1] & x"),
    e(Det::AssignUpdateArrayValue, "canonical-or", Canon, "arr[1] = arr[1] | x"),
    e(Det::AssignUpdateArrayValue, "canonical-xor", Canon, "arr[1] = arr[1] ^ x"),
    e(Det::AssignUpdateArrayValue, "canonical-exponent-index", Canon, "arr[1e1] = arr[1e1] + x"),
    e(Det::AssignUpdateArrayValue, "right-operand", Match, "arr[1] = x + arr[1]"),
    e(Det::AssignUpdateArrayValue, "compound-assignment", Near, "arr[1] += x"),
    e(Det::AssignUpdateArrayValue, "other-array", Near, "arr[1] = a0[1] + x"),
    e(Det::AssignUpdateArrayValue, "other-index", Near, "arr[1] = arr[2] + x"),
    e(Det::AssignUpdateArrayValue, "index-differs-in-exponent", Near, "arr[1e1] = arr[1] + x"),
    e(Det::AssignUpdateArrayValue, "different-indices-above-u64", Near, "arr[18446744073709551616] = arr[18446744073709551617] + x"),
    e(Det::AssignUpdateArrayValue, "same-index-above-u64", Canon, "arr[18446744073709551616] = arr[18446744073709551616] + x"),
    e(Det::AssignUpdateArrayValue, "index-digits-and-exponent-concatenate-alike", Near, "arr[1e12] = arr[11e2] + x"),
    e(Det::AssignUpdateArrayValue, "index-digits-and-exponent-concatenate-alike-2", Near, "arr[12e3] = arr[1e23] - x"),
    e(Det::AssignUpdateArrayValue, "index-same-value-other-text", Near, "arr[10] = arr[1e1] + x"),
    e(Det::AssignUpdateArrayValue, "scalar", Near, "x = x + 1"),
    e(Det::AssignUpdateArrayValue, "power", Near, "arr[1] = arr[1] ** x"),
    e(Det::AssignUpdateArrayValue, "identifier-index", Near, "arr[x] = arr[x] + 1"),
    // cache_array_length
    e(Det::CacheArrayLength, "length-member", Canon, "arr.length"),
    e(Det::CacheArrayLength, "length-in-comparison", Canon, "x < arr.length"),
    e(Det::CacheArrayLength, "length-nested-in-call", Canon, "x < h2(arr.length, a0.length)"),
    e(Det::CacheArrayLength, "other-member", Near, "arr.size"),
    s(Det::CacheArrayLength, "for-condition", Canon, "for (uint i = 0; i < arr.length; i++) { x = 1; }"),
    s(Det::CacheArrayLength, "for-without-init", Canon, "for (; x < arr.length; x++) { y = 1; }"),
    s(Det::CacheArrayLength, "for-without-update", Canon, "for (uint i = 0; i < arr.length;) { i++; }"),
    s(Det::CacheArrayLength, "for-condition-only", Canon, "for (; x < arr.length;) { x++; }"),
    s(Det::CacheArrayLength, "for-empty-body", Canon, "for (uint i = 0; i < arr.length; i++) {}"),
    s(Det::CacheArrayLength, "for-init-only", Near, "for (uint i = arr.length; i > 0; i--) { x = 1; }"),
    s(Det::CacheArrayLength, "for-update-only", Near, "for (uint i = 0; i < 3; i += arr.length) { x = 1; }"),
    s(Det::CacheArrayLength, "for-body-only", Near, "for (uint i = 0; i < 3; i++) { x = arr.length; }"),
    s(Det::CacheArrayLength, "while-condition", Near, "while (x < arr.length) { x++; }"),
    s(Det::CacheArrayLength, "nested-for", Canon, "for (uint i = 0; i < arr.length; i++) { for (uint j = 0; j < a0.length; j++) { x = 1; } }"),
    // increment_decrement
    e(Det::IncrementDecrement, "post-increment", Canon, "x++"),
    e(Det::IncrementDecrement, "post-decrement", Canon, "x--"),
    e(Det::IncrementDecrement, "pre-increment", Canon, "++x"),
    e(Det::IncrementDecrement, "pre-decrement", Canon, "--x"),
    e(Det::IncrementDecrement, "compound-assignment", Near, "x += 1"),
    s(Det::IncrementDecrement, "prefix-in-unchecked", Near, "unchecked { ++x; }"),
    s(Det::IncrementDecrement, "prefix-dec-in-unchecked", Near, "unchecked { --x; }"),
    s(Det::IncrementDecrement, "postfix-in-unchecked", Canon, "unchecked { x++; }"),
    s(Det::IncrementDecrement, "prefix-deep-in-unchecked", Near, "unchecked { if (x > 0) { while (y > 0) { y = y - (--x); } } }"),
    s(Det::IncrementDecrement, "prefix-in-for-inside-unchecked", Near, "unchecked { for (uint i = 0; i < 3; ++i) { y = 1; } }"),
    s(Det::IncrementDecrement, "prefix-next-to-unchecked", Canon, "unchecked { y = 1; } ++x;"),
    s(Det::IncrementDecrement, "mixed-in-unchecked", Canon, "unchecked { ++x; y--; }"),
    // multiple_require
    e(Det::MultipleRequire, "canonical", Canon, "require(x > 0 && y > 0)"),
    e(Det::MultipleRequire, "canonical-with-message", Canon, "require(x > 0 && y > 0, \"m\")"),
    e(Det::MultipleRequire, "parenthesised", Match, "require((x > 0 && y > 0))"),
    e(Det::MultipleRequire, "single-condition", Near, "require(x > 0)"),
    e(Det::MultipleRequire, "or-condition", Near, "require(x > 0 || y > 0)"),
    e(Det::MultipleRequire, "assert", Near, "assert(x > 0 && y > 0)"),
    e(Det::MultipleRequire, "and-nested-in-call", Near, "require(h2(x > 0 && y > 0, 1))"),
    e(Det::MultipleRequire, "member-require", Near, "this.require(x > 0 && y > 0)"),
    e(Det::MultipleRequire, "no-argument", Near, "require()"),
    // optimal_comparison
    e(Det::OptimalComparison, "canonical-ge", Canon, "x >= y"),
    e(Det::OptimalComparison, "canonical-le", Canon, "x <= y"),
    e(Det::OptimalComparison, "strict-gt", Near, "x > y"),
    e(Det::OptimalComparison, "strict-lt", Near, "x < y"),
    e(Det::OptimalComparison, "shift-assign", Near, "x >>= y"),
    // shift_math
    e(Det::ShiftMath, "canonical-mul", Canon, "x * 2"),
    e(Det::ShiftMath, "canonical-div", Canon, "x / 4"),
    e(Det::ShiftMath, "canonical-left", Canon, "8 * x"),
    e(Det::ShiftMath, "power-of-two-above-u32", Canon, "x * 4294967296"),
    e(Det::ShiftMath, "power-of-two-2-64", Canon, "x / 18446744073709551616"),
    e(Det::ShiftMath, "power-of-two-2-300", Canon, "x * 2037035976334486086268445688409378161051468393665936250636140449354381299763336706183397376"),
    e(Det::ShiftMath, "separators", Canon, "x * 1_024"),
    e(Det::ShiftMath, "zero-exponent", Canon, "x / 32e0"),
    e(Det::ShiftMath, "negative-exponent", Canon, "x * 20e-1"),
    e(Det::ShiftMath, "non-power-of-two", Near, "x * 3"),
    e(Det::ShiftMath, "non-power-of-two-six", Near, "x / 6"),
    e(Det::ShiftMath, "non-power-of-two-exponent", Near, "x * 2e1"),
    e(Det::ShiftMath, "non-power-of-two-big-exponent", Near, "x / 1e80"),
    e(Det::ShiftMath, "non-power-of-two-above-u32", Near, "x * 4294967297"),
    e(Det::ShiftMath, "non-power-of-two-2-300-plus-1", Near, "x * 2037035976334486086268445688409378161051468393665936250636140449354381299763336706183397377"),
    e(Det::ShiftMath, "zero", Near, "x * 0"),
    e(Det::ShiftMath, "fraction", Near, "x * 2e-1"),
    e(Det::ShiftMath, "no-literal", Near, "x * y"),
    e(Det::ShiftMath, "shift", Near, "x << 2"),
    e(Det::ShiftMath, "compound-assignment", Near, "x *= 2"),
    e(Det::ShiftMath, "hex-literal", Near, "x * 0x10"),
    e(Det::ShiftMath, "unit-suffix", Near, "x * 2 ether"),
    e(Det::ShiftMath, "parenthesised-literal", Near, "x * (2)"),
    // solidity_keccak256
    e(Det::SolidityKeccak256, "canonical", Canon, "keccak256(abi.encode(x))"),
    e(Det::SolidityKeccak256, "canonical-no-argument", Canon, "keccak256()"),
    e(Det::SolidityKeccak256, "member-call", Near, "x.keccak256()"),
    e(Det::SolidityKeccak256, "other-hash", Near, "sha256(abi.encode(x))"),
    e(Det::SolidityKeccak256, "not-a-call", Near, "keccak256"),
    // solidity_math
    e(Det::SolidityMath, "canonical-add", Canon, "x + y"),
    e(Det::SolidityMath, "canonical-sub", Canon, "x - y"),
    e(Det::SolidityMath, "canonical-mul", Canon, "x * y"),
    e(Det::SolidityMath, "canonical-div", Canon, "x / y"),
    e(Det::SolidityMath, "compound-assignment", Near, "x += y"),
    e(Det::SolidityMath, "unary-minus", Near, "-x"),
    e(Det::SolidityMath, "modulo", Near, "x % y"),
    e(Det::SolidityMath, "power", Near, "x ** y"),
];

pub const C07_PAYLOADS: &[Payload] = &[
    e(Det::UnsafeErc20Operation, "canonical-transfer", Canon, "tok.transfer(x, y)"),
    e(Det::UnsafeErc20Operation, "canonical-transferFrom", Canon, "tok.transferFrom(x, y, 1)"),
    e(Det::UnsafeErc20Operation, "canonical-approve", Canon, "tok.approve(x, y)"),
    e(Det::UnsafeErc20Operation, "member-without-call", Canon, "tok.transfer"),
    e(Det::UnsafeErc20Operation, "payable-transfer", Canon, "payable(x).transfer(1)"),
    e(Det::UnsafeErc20Operation, "safe-wrapper", Near, "tok.safeTransfer(x, y)"),
    e(Det::UnsafeErc20Operation, "plain-call", Near, "transfer(x, y)"),
    e(Det::UnsafeErc20Operation, "other-case", Near, "tok.transferfrom(x)"),
    e(Det::DivideBeforeMultiply, "canonical", Canon, "x / y * 2"),
    e(Det::DivideBeforeMultiply, "parenthesised-division", Canon, "(x / y) * 2"),
    e(Det::DivideBeforeMultiply, "double-parenthesised", Canon, "((x / y)) * 2"),
    e(Det::DivideBeforeMultiply, "chain-of-multiplications", Canon, "x / y * 2 * 3"),
    e(Det::DivideBeforeMultiply, "assign-divide", Canon, "x /= y * 2"),
    e(Det::DivideBeforeMultiply, "assign-divide-chain", Canon, "x /= (y * 2) + 1"),
    e(Det::DivideBeforeMultiply, "assign-divide-long-chain", Canon, "x /= y * 2 / 3 % 4 & 5"),
    e(Det::DivideBeforeMultiply, "assign-divide-shift-chain", Canon, "x /= (y * 2 << 1) >> 1 | 1 ^ 1 - 1"),
    e(Det::DivideBeforeMultiply, "multiply-first", Near, "x * y / 2"),
    e(Det::DivideBeforeMultiply, "division-in-right-operand", Near, "x * (y / 2)"),
    e(Det::DivideBeforeMultiply, "division-under-addition", Near, "(x / y + 1) * 2"),
    e(Det::DivideBeforeMultiply, "assign-divide-mul-on-right", Near, "x /= y + 2 * 3"),
    e(Det::DivideBeforeMultiply, "assign-divide-plain", Near, "x /= y"),
    e(Det::DivideBeforeMultiply, "assign-multiply", Near, "x *= y / 2"),
    e(Det::DivideBeforeMultiply, "division-then-addition", Near, "x / y + 2"),
    s(Det::UnprotectedSelfdestruct, "payout-to-sender", Canon, "selfdestruct(payable(msg.sender));"),
    s(Det::UnprotectedSelfdestruct, "unguarded", Canon, "selfdestruct(payable(address(this)));"),
    s(Det::UnprotectedSelfdestruct, "unguarded-suicide", Canon, "suicide(address(0));"),
    s(Det::UnprotectedSelfdestruct, "guarded-require-left", Near, "require(msg.sender == address(1)); selfdestruct(payable(address(this)));"),
    s(Det::UnprotectedSelfdestruct, "guarded-require-right", Near, "require(address(1) == msg.sender); selfdestruct(payable(address(this)));"),
    s(Det::UnprotectedSelfdestruct, "guarded-check-call", Near, "check(msg.sender); selfdestruct(payable(address(this)));"),
];

/// the 15 write forms of section 8 (`@V@` is the written identifier)
pub const WRITE_FORMS: &[(&str, &str)] = &[
    ("assign", "@V@ = 1"),
    ("assign-add", "@V@ += 1"),
    ("assign-sub", "@V@ -= 1"),
    ("assign-mul", "@V@ *= 2"),
    ("assign-div", "@V@ /= 2"),
    ("assign-mod", "@V@ %= 2"),
    ("assign-or", "@V@ |= 1"),
    ("assign-and", "@V@ &= 1"),
    ("assign-xor", "@V@ ^= 1"),
    ("assign-shl", "@V@ <<= 1"),
    ("assign-shr", "@V@ >>= 1"),
    ("pre-inc", "++@V@"),
    ("pre-dec", "--@V@"),
    ("post-inc", "@V@++"),
    ("post-dec", "@V@--"),
];

fn pos_of_tag(tag: &str) -> String {
    tag.split_once('@').map(|x| x.1.to_string()).unwrap_or_else(|| tag.to_string())
}

fn case_from_prog(p: gen::Prog, det: Option<Det>, class: &str, kind: Kind, payload: &str) -> Case {
    let pos = pos_of_tag(&p.tag);
    let span = p.src.find(payload).map(|a| (a, a + payload.len()));
    let nested: Vec<String> = if pos.contains('>') { pos.split('>').map(|x| x.to_string()).collect() } else { vec![] };
    Case { src: p.src, focus: det, class: class.to_string(), kind, pos, span, nested, variant: String::new(), key_tail: String::new() }
}

fn place_payload(p: &Payload, out: &mut Vec<Case>) {
    let progs = if p.stmt { gen::place_stmt_everywhere(p.class, p.text) } else { gen::place_expr_everywhere(p.class, p.text) };
    for g in progs {
        out.push(case_from_prog(g, Some(p.det), p.class, p.kind, p.text));
    }
}

fn place_payload_nested(p: &Payload, rng: &mut Rng, n: usize, out: &mut Vec<Case>) {
    if p.stmt {
        // statement payloads: hole inside hole
        for _ in 0..n {
            let (n1, t1) = rng.pick(gen::STMT_HOLES);
            let (n2, t2) = rng.pick(gen::STMT_HOLES);
            let body = t1.replace("@S@", &t2.replace("@S@", p.text));
            let src = gen::file_with_stmt(&body);
            let span = src.find(p.text).map(|a| (a, a + p.text.len()));
            out.push(Case {
                src,
                focus: Some(p.det),
                class: p.class.to_string(),
                kind: p.kind,
                pos: format!("stmt:{}>stmt:{}", n1, n2),
                span,
                nested: vec![format!("stmt:{}", n1), format!("stmt:{}", n2)],
                variant: String::new(),
                key_tail: String::new(),
            });
        }
    } else {
        for g in gen::place_expr_two_level(p.class, p.text, rng, n) {
            let mut c = case_from_prog(g, Some(p.det), p.class, p.kind, p.text);
            // components named like the single-level position classes
            if c.nested.len() == 3 {
                c.nested = vec![c.nested[0].clone(), format!("expr:{}", c.nested[1]), format!("expr:{}", c.nested[2])];
            }
            out.push(c);
        }
    }
}


pub fn dec_sub_one(s: &str) -> String {
    let mut d: Vec<u8> = s.bytes().rev().map(|b| b - b'0').collect();
    let mut i = 0;
    while i < d.len() {
        if d[i] == 0 {
            d[i] = 9;
            i += 1;
        } else {
            d[i] -= 1;
            break;
        }
    }
    while d.len() > 1 && *d.last().unwrap() == 0 {
        d.pop();
    }
    d.iter().rev().map(|x| (b'0' + *x) as char).collect()
}

fn with_separators(p: &str) -> String {
    let mut sep = String::new();
    for (i, ch) in p.chars().enumerate() {
        if i > 0 && (p.len() - i) % 3 == 0 {
            sep.push('_');
        }
        sep.push(ch);
    }
    sep
}

/// shift_math: the whole family 2^k (k = 0..=300) and its neighbours, in the base statement position,
/// enumerated with k ascending so that the smallest failing k names the key
pub fn shift_math_family() -> Vec<Case> {
    let mut out = vec![];
    let forms: [(&str, &str); 3] = [("mul-right", "x * @L@"), ("mul-left", "@L@ * x"), ("div", "x / @L@")];
    let mut push = |class: &str, kind: Kind, k: u32, form: usize, lit: &str| {
        let (fname, ft) = forms[form % 3];
        let expr = ft.replace("@L@", lit);
        let src = gen::file_with_stmt(&format!("{};", expr));
        let span = src.find(&expr).map(|a| (a, a + expr.len()));
        out.push(Case {
            src,
            focus: Some(Det::ShiftMath),
            class: class.to_string(),
            kind,
            pos: "stmt-expr".to_string(),
            span,
            nested: vec![],
            variant: format!("k={}:{}", k, fname),
            key_tail: k.to_string(),
        });
    };
    let pows: Vec<String> = (0..=300u32).map(pow2_string).collect();
    for k in 0..=300u32 {
        for f in 0..3 {
            push("power-of-two", Canon, k, f, &pows[k as usize]);
        }
    }
    for k in 2..=300u32 {
        for f in 0..3 {
            push("power-of-two-plus-one", Near, k, f, &dec_add_one(&pows[k as usize]));
        }
    }
    for k in 2..=300u32 {
        for f in 0..3 {
            push("power-of-two-minus-one", Near, k, f, &dec_sub_one(&pows[k as usize]));
        }
    }
    for k in 0..=300u32 {
        let p = &pows[k as usize];
        if p.len() > 3 {
            for f in 0..3 {
                push("power-of-two-with-separators", Canon, k, f, &with_separators(p));
            }
        }
    }
    for k in 0..=300u32 {
        for j in 1..=3usize {
            push("power-of-two-scaled-with-negative-exponent", Canon, k, k as usize + j, &format!("{}{}e-{}", pows[k as usize], "0".repeat(j), j));
        }
    }
    for k in 0..=300u32 {
        for j in 1..=3usize {
            push("power-of-two-with-positive-exponent", Near, k, k as usize + j, &format!("{}e{}", pows[k as usize], j));
        }
    }
    for k in 0..=300u32 {
        push("power-of-two-with-leading-zeros", Canon, k, k as usize, &format!("00{}", pows[k as usize]));
    }
    // not an integer: a negative exponent strips digits that are not all zero (2.5, 4.05, 8.50, ...)
    for k in 0..=300u32 {
        let d = (k % 9) + 1;
        for (j, tail) in [format!("{}", d), format!("0{}", d), format!("{}0", d), format!("00{}", d)].iter().enumerate() {
            push("power-of-two-with-stripped-nonzero-digits", Near, k, k as usize + j, &format!("{}{}e-{}", pows[k as usize], tail, tail.len()));
        }
    }
    out
}

pub fn corpus_c05(tier: &str, rng: &mut Rng) -> Vec<Case> {
    let mut out = vec![];
    for p in C05_PAYLOADS {
        place_payload(p, &mut out);
    }
    out.extend(shift_math_family());
    // unchecked blocks outside contract member functions: free functions, modifiers, constructors, receive / fallback
    let idc = Some(Det::IncrementDecrement);
    out.push(file_case(idc, "prefix-in-unchecked-in-free-function", Near, "file", format!("{}function fr(uint i) pure returns (uint) {{\n    unchecked {{ ++i; }}\n    return i;\n}}\n", H)));
    out.push(file_case(idc, "prefix-in-unchecked-in-modifier", Near, "file", format!("{}contract A {{\n    uint n;\n    modifier m() {{\n        unchecked {{ --n; }}\n        _;\n    }}\n}}\n", H)));
    out.push(file_case(idc, "prefix-in-unchecked-in-constructor", Near, "file", format!("{}contract A {{\n    uint n;\n    constructor() {{\n        unchecked {{ ++n; }}\n    }}\n    receive() external payable {{\n        unchecked {{ --n; }}\n    }}\n}}\n", H)));
    out.push(file_case(idc, "postfix-in-free-function", Canon, "file", format!("{}function fr(uint i) pure returns (uint) {{\n    i++;\n    return i;\n}}\n", H)));
    let n = if tier == "thorough" { 250 } else { 12 };
    for p in C05_PAYLOADS {
        place_payload_nested(p, rng, n, &mut out);
    }
    for g in gen::sink() {
        out.push(Case { src: g.src, focus: None, class: g.tag.clone(), kind: Kind::Mixed, pos: "file".into(), span: None, nested: vec![], variant: String::new(), key_tail: String::new() });
    }
    out
}

// ---------------------------------------------------------------------------------------------
// declaration-level templates
// ---------------------------------------------------------------------------------------------
pub const H: &str = "pragma solidity 0.8.10;\n";

fn file_case(det: Option<Det>, class: &str, kind: Kind, pos: &str, src: String) -> Case {
    Case { src, focus: det, class: class.to_string(), kind, pos: pos.to_string(), span: None, nested: vec![], variant: String::new(), key_tail: String::new() }
}

pub const VAR_TYPES: &[(&str, &str, &str)] = &[
    ("uint", "uint", " = 1"),
    ("uint8", "uint8", " = 1"),
    ("address", "address", " = address(1)"),
    ("bool", "bool", " = true"),
    ("bytes32", "bytes32", " = bytes32(0)"),
    ("string", "string", " = \"s\""),
    ("bytes", "bytes", " = \"b\""),
    ("mapping", "mapping(uint => uint)", ""),
    ("dynarray", "uint[]", ""),
    ("fixedarray", "uint[3]", ""),
    ("userdefined", "Foo", ""),
    ("qualified", "Foo.Bar", ""),
    ("fntype", "function(uint) external returns (uint)", ""),
];
const VAR_VIS: &[&str] = &["", "public", "internal", "private"];
const VAR_MUT: &[&str] = &["", "constant", "immutable"];

/// one contract per type with every visibility x constant/immutable x underscore combination
fn var_matrix(kind_of_contract: &str) -> String {
    let mut src = String::from(H);
    src.push_str("struct Foo { uint a; }\nuint constant FILE_K = 1;\nuint constant _FILE_U = 2;\n");
    let mut n = 0;
    for (tn, ty, init) in VAR_TYPES {
        src.push_str(&format!("{} M_{} {{\n", kind_of_contract, tn));
        for vis in VAR_VIS {
            for m in VAR_MUT {
                // no underscore, leading underscore, underscore elsewhere in the name only
                for (us, suf) in [("", ""), ("_", ""), ("", "_s"), ("", "_")] {
                    n += 1;
                    let init = if *m == "constant" { *init } else { "" };
                    let attrs = [*vis, *m].iter().filter(|a| !a.is_empty()).cloned().collect::<Vec<_>>().join(" ");
                    let sp = if attrs.is_empty() { "" } else { " " };
                    src.push_str(&format!("    {}{}{} {}v{}{}{};\n", ty, sp, attrs, us, n, suf, init));
                }
            }
        }
        src.push_str("}\n");
    }
    src
}

const FN_VIS: &[&str] = &["", "public", "external", "internal", "private"];
const FN_MUT: &[&str] = &["", "payable", "view", "pure"];

fn fn_matrix(container: &str, with_body: bool) -> String {
    let mut src = String::from(H);
    let open = match container {
        "file" => String::new(),
        c => format!("{} FM {{\n", c),
    };
    src.push_str(&open);
    let mut n = 0;
    for vis in FN_VIS {
        for m in FN_MUT {
            for (us, suf) in [("", ""), ("_", ""), ("", "_s")] {
                for virt in ["", "virtual"] {
                    n += 1;
                    let attrs = [*vis, *m, virt].iter().filter(|a| !a.is_empty()).cloned().collect::<Vec<_>>().join(" ");
                    let body = if with_body { "{}" } else { ";" };
                    src.push_str(&format!("    function {}f{}{}(uint a) {} {}\n", us, n, suf, attrs, body));
                    // the same declaration with the visibility keyword LAST (after mutability / virtual)
                    if !vis.is_empty() && (!m.is_empty() || !virt.is_empty()) {
                        n += 1;
                        let attrs_rev = [virt, *m, *vis].iter().filter(|a| !a.is_empty()).cloned().collect::<Vec<_>>().join(" ");
                        src.push_str(&format!("    function {}f{}{}(uint a) {} {}\n", us, n, suf, attrs_rev, body));
                    }
                }
            }
        }
    }
    // a function whose whole name is the underscore
    for vis in FN_VIS {
        let body = if with_body { "{}" } else { ";" };
        src.push_str(&format!("    function _(uint a) {} {}\n", vis, body));
    }
    if container != "file" {
        if with_body {
            src.push_str("    constructor() public {}\n    receive() external payable {}\n    fallback() external {}\n    modifier md() { _; }\n    function () public payable {}\n");
        }
        src.push_str("}\n");
    }
    src
}


/// seeded random declaration-level file: contract-like items and free functions with random members;
/// every name is unique in the file
pub fn random_declarations(rng: &mut Rng, small: bool) -> String {
    let mut src = String::new();
    match rng.below(4) {
        0 => {}
        1 => src.push_str("pragma solidity ^0.8.0;\n"),
        _ => src.push_str(H),
    }
    let mut uid = 0usize;
    let items = 1 + rng.below(if small { 2 } else { 4 });
    let types = ["uint", "uint8", "address", "bool", "bytes32", "string", "bytes", "mapping(uint => uint)", "uint[]", "uint[3]", "Foo", "Foo.Bar", "function(uint) external"];
    for _ in 0..items {
        uid += 1;
        match rng.below(8) {
            0 => {
                let vis = *rng.pick(&["", "", "public", "internal"]);
                src.push_str(&format!("function {}free{}(uint[] memory fm{}) {} {{ fm{}[0] = 1; }}\n", rng.pick(&["", "_"]), uid, uid, vis, uid));
                continue;
            }
            1 => {
                src.push_str(&format!("uint constant {}TOPK{} = {};\nstruct St{} {{ uint8 a; uint b; uint8 c; }}\n", rng.pick(&["", "_"]), uid, uid, uid));
                continue;
            }
            _ => {}
        }
        let kind = *rng.pick(&["contract", "contract", "contract", "abstract contract", "library", "interface"]);
        src.push_str(&format!("{} K{} {{\n", kind, uid));
        let members = 1 + rng.below(if small { 4 } else { 9 });
        let mut vars: Vec<String> = vec![];
        for _ in 0..members {
            uid += 1;
            match rng.below(10) {
                0..=3 => {
                    let ty = *rng.pick(&types);
                    let vis = *rng.pick(&["", "public", "internal", "private"]);
                    let m = *rng.pick(&["", "", "constant", "immutable"]);
                    let us = *rng.pick(&["", "_"]);
                    let name = format!("{}sv{}", us, uid);
                    let init = if m == "constant" || rng.below(4) == 0 { " = 1" } else { "" };
                    // (the parser rejects `override` after a function type)
                    let ovr = if ty.starts_with("function") { "" } else { *rng.pick(&["", "", "", "override"]) };
                    let mut attrs: Vec<&str> = [vis, m, ovr].iter().filter(|a| !a.is_empty()).cloned().collect();
                    rng.shuffle(&mut attrs);
                    src.push_str(&format!("    {} {} {}{};\n", ty, attrs.join(" "), name, init).replace("  ", " ").replace("  ", " "));
                    vars.push(name);
                }
                4..=6 => {
                    let vis = *rng.pick(&["", "public", "external", "internal", "private"]);
                    let m = *rng.pick(&["", "", "payable", "view", "pure"]);
                    let md = *rng.pick(&["", "", "", "onlyOwner", "auth(1)", "OnlyX"]);
                    let us = *rng.pick(&["", "_"]);
                    let has_body = kind != "interface" && rng.below(8) != 0;
                    let mut body = String::new();
                    if has_body {
                        body.push_str("{ ");
                        if !vars.is_empty() && rng.below(2) == 0 {
                            let v = rng.pick(&vars).clone();
                            let (_, form) = rng.pick(WRITE_FORMS);
                            body.push_str(&format!("{}; ", form.replace("@V@", &v)));
                        }
                        match rng.below(6) {
                            0 => body.push_str(&format!("pm{}[0] = 1; ", uid)),
                            1 => body.push_str(&format!("pm{}[0][1] = 1; ", uid)),
                            2 => body.push_str("require(msg.sender == address(1)); selfdestruct(payable(msg.sender)); "),
                            3 => body.push_str("selfdestruct(payable(msg.sender)); "),
                            _ => {}
                        }
                        body.push('}');
                    } else {
                        body.push(';');
                    }
                    let attrs: Vec<&str> = [vis, m, md].iter().filter(|a| !a.is_empty()).cloned().collect();
                    src.push_str(&format!("    function {}fn{}(uint[][] memory pm{}, uint q{}) {} {}\n", us, uid, uid, uid, attrs.join(" "), body));
                }
                7 => {
                    let mut body = String::new();
                    for v in &vars {
                        if rng.below(2) == 0 {
                            body.push_str(&format!("{} = {}; ", v, rng.pick(&["1", "\"s\"", "abi.encode(1)", "bytes(\"b\")", "q"])));
                        }
                    }
                    src.push_str(&format!("    constructor(uint q, uint[] memory cm{}) {} {{ {}}}\n", uid, rng.pick(&["", "public", "payable"]), body));
                }
                8 => src.push_str(&format!("    modifier md{}(uint[] memory mm{}) {{ _; }}\n", uid, uid)),
                _ => {
                    let t: &str = *rng.pick(&["    receive() external payable {}\n", "    fallback() external {}\n", "    fallback() external payable {}\n", "    event RE(uint a);\n"]);
                    src.push_str(t);
                }
            }
        }
        src.push_str("}\n");
    }
    src
}

/// seeded random function around a selfdestruct: visibility x modifier x guard x nesting x payout
pub fn random_selfdestruct(rng: &mut Rng) -> (String, String) {
    let vis = *rng.pick(&["public", "external", "public", "external", "internal", "private", ""]);
    let md = *rng.pick(&["", "", "", "auth", "onlyOwner", "only", "OnlyAdmin", "auth(msg.sender)"]);
    let guards: &[(&str, &str)] = &[
        ("none", ""),
        ("none", ""),
        ("require-left", "require(msg.sender == owner);"),
        ("require-right", "require(owner == msg.sender, \"no\");"),
        ("require-ne-right", "require(address(0) != msg.sender);"),
        ("check-call", "check(msg.sender);"),
        ("if-revert", "if (msg.sender != owner) revert();"),
        ("conversion-in-require", "require(address(msg.sender) == owner);"),
        ("tx-origin", "require(tx.origin == owner);"),
        ("conversion-only", "address payable to = payable(msg.sender);"),
    ];
    let (gn, g) = *rng.pick(guards);
    let payout = *rng.pick(&["payable(msg.sender)", "payable(owner)", "msg.sender", "payable(address(uint160(msg.sender)))"]);
    let call = format!("{}({});", rng.pick(&["selfdestruct", "selfdestruct", "suicide"]), payout);
    let nests: &[(&str, &str)] = &[
        ("plain", "@C@"),
        ("if", "if (q > 0) { @C@ }"),
        ("else", "if (q > 0) { q = 1; } else { @C@ }"),
        ("loop", "for (uint i = 0; i < q; i++) { while (q > 1) { @C@ } }"),
        ("try-catch", "try this.ext() { q = 1; } catch { @C@ }"),
        ("unchecked", "unchecked { { @C@ } }"),
    ];
    let (nn, n) = *rng.pick(nests);
    let guard_first = rng.below(4) != 0;
    let body = if guard_first { format!("{} {}", g, n.replace("@C@", &call)) } else { format!("{} {}", n.replace("@C@", &call), g) };
    let head = match rng.below(8) {
        0 => "constructor(uint q)".to_string(),
        1 => "fallback() external".to_string(),
        _ => format!("function kill(uint q) {} {}", vis, md),
    };
    let src = format!("{}contract S {{\n    address owner;\n    function ext() external {{}}\n    function other() public {{ require(msg.sender == owner); }}\n    {} {{ uint q0 = 0; {} }}\n}}\n", H, head.replace("(uint q)", "(uint q)"), body);
    (src, format!("random:{}+{}+{}+{}", if head.starts_with("function") { if vis.is_empty() { "no-visibility" } else { vis } } else if head.starts_with("constructor") { "constructor" } else { "fallback" }, if md.is_empty() { "no-modifier" } else { md }, gn, nn))
}

pub fn corpus_c06(tier: &str, rng: &mut Rng) -> Vec<Case> {
    let mut out = vec![];
    let co = Some(Det::ConstructorOrder);
    let t = |class: &str, kind: Kind, body: &str| file_case(co, class, kind, "file", format!("{}{}", H, body));
    out.push(t("canonical", Canon, "contract A {\n    function f() public {}\n    constructor() {}\n}\n"));
    out.push(t("constructor-first", Near, "contract A {\n    constructor() {}\n    function f() public {}\n}\n"));
    out.push(t("cross-contract", Near, "contract A {\n    function f() public {}\n}\ncontract B {\n    constructor() {}\n    function g() public {}\n}\n"));
    out.push(t("cross-contract-two-functions", Near, "contract A {\n    function f() public {}\n    function f2() public {}\n}\ncontract B {\n    uint v;\n    constructor() {}\n}\n"));
    out.push(t("after-modifier-only", Near, "contract A {\n    modifier m() { _; }\n    constructor() {}\n}\n"));
    out.push(t("after-modifier-and-function", Canon, "contract A {\n    modifier m() { _; }\n    function f() public {}\n    modifier m2() { _; }\n    constructor() {}\n}\n"));
    out.push(t("after-fallback", Canon, "contract A {\n    fallback() external {}\n    constructor() {}\n}\n"));
    out.push(t("after-receive", Canon, "contract A {\n    receive() external payable {}\n    constructor() {}\n}\n"));
    out.push(t("after-bodyless-function", Canon, "abstract contract A {\n    function f() public virtual;\n    constructor() {}\n}\n"));
    out.push(t("after-non-functions", Near, "contract A {\n    uint v;\n    event E(uint a);\n    struct S { uint a; }\n    enum N { X }\n    error R();\n    using L for uint;\n    constructor() {}\n}\n"));
    out.push(t("free-function-before-contract", Near, "function ff(uint a) pure returns (uint) { return a; }\ncontract A {\n    constructor() {}\n}\n"));
    out.push(t("free-function-and-canonical", Canon, "function ff(uint a) pure returns (uint) { return a; }\ncontract A {\n    function f() public {}\n    constructor() {}\n}\n"));
    out.push(t("library-before-contract", Near, "library L {\n    function lf() internal {}\n}\ncontract A {\n    constructor() {}\n}\n"));
    out.push(t("interface-before-contract", Near, "interface I {\n    function a() external;\n}\ncontract A {\n    constructor() {}\n    function f() public {}\n}\n"));
    out.push(t("second-of-two-constructors", Canon, "contract A {\n    constructor() {}\n    function f() public {}\n    constructor(uint a) {}\n}\n"));
    out.push(t("both-contracts-canonical", Canon, "contract A {\n    function f() public {}\n    constructor() {}\n}\ncontract B {\n    function g() public {}\n    constructor() {}\n}\n"));
    out.push(t("second-contract-canonical", Canon, "contract A {\n    constructor() {}\n}\ncontract B {\n    function g() public {}\n    constructor() {}\n}\n"));
    out.push(t("first-contract-canonical", Canon, "contract A {\n    function g() public {}\n    constructor() {}\n}\ncontract B {\n    constructor() {}\n    function g() public {}\n}\n"));
    out.push(t("abstract-canonical", Canon, "abstract contract A {\n    function f() public {}\n    constructor() {}\n}\n"));
    out.push(t("function-after-in-later-contract", Near, "contract A {\n    constructor() {}\n}\ncontract B {\n    function g() public {}\n}\ncontract C {\n    constructor() {}\n}\n"));
    for k in [3usize, 40, 255, 256, 257, 300] {
        let mut body = String::from("contract A {\n");
        for i in 0..k {
            body.push_str(&format!("    function f{}() public {{}}\n", i));
        }
        body.push_str("    constructor() {}\n}\n");
        out.push(t(&format!("after-{}-functions", k), Canon, &body));
    }
    // matrices: the class of a failure is derived from the declaration at the offending offset
    for c in ["contract", "abstract contract", "library", "interface"] {
        out.push(file_case(None, "variable-matrix", Kind::Mixed, c, var_matrix(c)));
        // a state variable whose whole name is the underscore: one variable per file (names are file-wide keys in some detectors)
        for vis in VAR_VIS {
            for m in ["", "constant"] {
                let init = if m.is_empty() { "" } else { " = 1" };
                out.push(file_case(None, "underscore-only-variable-name", Kind::Mixed, c, format!("{}{} U {{\n    uint {} {} _{};\n}}\n", H, c, vis, m, init)));
            }
        }
        out.push(file_case(None, "function-matrix", Kind::Mixed, c, fn_matrix(c, true)));
        out.push(file_case(None, "function-matrix-no-body", Kind::Mixed, c, fn_matrix(c, false)));
    }
    out.push(file_case(None, "function-matrix", Kind::Mixed, "free-functions", fn_matrix("file", true)));
    // several items per file: matrix next to other items
    out.push(file_case(
        None,
        "variable-matrix",
        Kind::Mixed,
        "contract-after-library-and-free-function",
        format!("{}\nlibrary LL {{ uint constant LK = 1; function lf() internal {{}} }}\nfunction freeF() {{}}\n", var_matrix("contract")),
    ));
    // seeded random member orders for constructor_order
    let n = if tier == "thorough" { 3000 } else { 150 };
    let members = [
        ("F", "    function f@() public {}\n"),
        ("M", "    modifier m@() { _; }\n"),
        ("C", "    constructor() {}\n"),
        ("V", "    uint v@;\n"),
        ("R", "    receive() external payable {}\n"),
        ("B", "    fallback() external {}\n"),
        ("E", "    event E@(uint a);\n"),
    ];
    for i in 0..n {
        let mut src = String::from(H);
        let mut shape = String::new();
        let items = 1 + rng.below(3);
        let mut uid = 0;
        for c in 0..items {
            match rng.below(6) {
                0 => {
                    src.push_str(&format!("function free{}() {{}}\n", c));
                    shape.push_str("f|");
                }
                1 => {
                    src.push_str(&format!("library L{} {{ function lf() internal {{}} }}\n", c));
                    shape.push_str("l|");
                }
                _ => {
                    src.push_str(&format!("contract K{} {{\n", c));
                    let m = 1 + rng.below(if i < 40 { 3 } else { 6 });
                    for _ in 0..m {
                        let (tag, text) = rng.pick(&members);
                        uid += 1;
                        src.push_str(&text.replace('@', &uid.to_string()));
                        shape.push_str(tag);
                    }
                    src.push_str("}\n");
                    shape.push('|');
                }
            }
        }
        let mut c = file_case(co, "random-member-order", Kind::Mixed, "random-order", src);
        c.variant = shape;
        out.push(c);
    }
    let n = if tier == "thorough" { 4000 } else { 200 };
    for i in 0..n {
        let mut c = file_case(None, "random-declarations", Kind::Mixed, "random", random_declarations(rng, i < n / 4));
        c.variant = format!("{}", i);
        out.push(c);
    }
    out
}

/// (class, kind, members placed in contract S). `never`-forms are Near, unspecified ones Match.
pub const SELFDESTRUCT_FORMS: &[(&str, Kind, &str)] = &[
    ("unguarded", Canon, "function kill() public { selfdestruct(payable(owner)); }"),
    ("unguarded-external", Canon, "function kill() external { selfdestruct(payable(owner)); }"),
    ("unguarded-suicide", Canon, "function kill() public { suicide(owner); }"),
    ("unguarded-payable-virtual", Canon, "function kill() external payable virtual { selfdestruct(payable(owner)); }"),
    ("payout-to-sender", Canon, "function kill() public { selfdestruct(payable(msg.sender)); }"),
    ("payout-to-sender-direct", Canon, "function kill() public { selfdestruct(msg.sender); }"),
    ("address-conversion-of-sender", Canon, "function kill() public { address a = address(msg.sender); selfdestruct(payable(a)); }"),
    ("uint160-conversion-of-sender", Canon, "function kill() public { uint160 a = uint160(msg.sender); selfdestruct(payable(address(a))); }"),
    ("conversion-inside-require", Canon, "function kill() public { require(address(msg.sender) == owner); selfdestruct(payable(owner)); }"),
    ("nested-in-if", Canon, "function kill(uint q) public { if (q > 0) { selfdestruct(payable(owner)); } }"),
    ("nested-in-else", Canon, "function kill(uint q) public { if (q > 0) { q = 1; } else { selfdestruct(payable(owner)); } }"),
    ("nested-in-for", Canon, "function kill(uint q) public { for (uint i = 0; i < q; i++) { selfdestruct(payable(owner)); } }"),
    ("nested-in-while", Canon, "function kill(uint q) public { while (q > 0) { selfdestruct(payable(owner)); } }"),
    ("nested-in-do-while", Canon, "function kill(uint q) public { do { selfdestruct(payable(owner)); } while (q > 0); }"),
    ("nested-in-unchecked", Canon, "function kill() public { unchecked { selfdestruct(payable(owner)); } }"),
    ("nested-in-try", Canon, "function kill() public { try this.ext() { selfdestruct(payable(owner)); } catch {} }"),
    ("nested-in-catch", Canon, "function kill() public { try this.ext() {} catch { selfdestruct(payable(owner)); } }"),
    ("nested-deep", Canon, "function kill(uint q) public { if (q > 0) { while (q > 1) { for (;;) { { selfdestruct(payable(owner)); } } } } }"),
    ("two-calls", Canon, "function kill(uint q) public { if (q > 0) { selfdestruct(payable(owner)); }\n        suicide(owner); }"),
    ("tx-origin-check", Canon, "function kill() public { require(tx.origin == owner); selfdestruct(payable(owner)); }"),
    ("msg-value-check", Canon, "function kill() public payable { require(msg.value > 0); selfdestruct(payable(owner)); }"),
    ("other-modifier", Canon, "function kill() public auth { selfdestruct(payable(owner)); }"),
    ("other-modifier-with-argument", Canon, "function kill() public auth(1) { selfdestruct(payable(owner)); }"),
    ("fallback-external", Canon, "fallback() external { selfdestruct(payable(owner)); }"),
    ("receive-external", Canon, "receive() external payable { selfdestruct(payable(owner)); }"),
    ("guard-in-other-function", Canon, "function other() public { require(msg.sender == owner); }\n    function kill() public { selfdestruct(payable(owner)); }"),
    ("guarded-require-left", Near, "function kill() public { require(msg.sender == owner); selfdestruct(payable(owner)); }"),
    ("guarded-require-right", Near, "function kill() public { require(owner == msg.sender); selfdestruct(payable(owner)); }"),
    ("guarded-require-with-message", Near, "function kill() public { require(msg.sender == owner, \"no\"); selfdestruct(payable(owner)); }"),
    ("guarded-require-not-equal-left", Near, "function kill() public { require(msg.sender != address(0)); selfdestruct(payable(owner)); }"),
    ("guarded-require-not-equal-right", Near, "function kill() public { require(address(0) != msg.sender); selfdestruct(payable(owner)); }"),
    ("guarded-check-call", Near, "function kill() public { check(msg.sender); selfdestruct(payable(owner)); }"),
    ("guarded-member-check-call", Near, "function kill() public { acl.check(msg.sender, 1); selfdestruct(payable(owner)); }"),
    ("guarded-nested-check-call", Near, "function kill() public { require(isOwner(msg.sender)); selfdestruct(payable(owner)); }"),
    ("guarded-check-call-second-argument", Near, "function kill() public { checkRole(1, msg.sender); selfdestruct(payable(owner)); }"),
    ("guarded-check-call-last-of-three", Near, "function kill() public { acl.check(1, owner, msg.sender); selfdestruct(payable(owner)); }"),
    ("guarded-require-second-argument-call", Near, "function kill() public { require(true, why(msg.sender)); selfdestruct(payable(owner)); }"),
    ("guarded-assert", Near, "function kill() public { assert(owner == msg.sender); selfdestruct(payable(msg.sender)); }"),
    ("guarded-after-the-call", Near, "function kill() public { selfdestruct(payable(owner)); require(msg.sender == owner); }"),
    ("guarded-in-branch", Near, "function kill(uint q) public { if (q > 0) { require(msg.sender == owner); } selfdestruct(payable(owner)); }"),
    ("guarded-payout-to-sender", Near, "function kill() public { require(owner == msg.sender); selfdestruct(payable(msg.sender)); }"),
    ("only-modifier", Near, "function kill() public onlyOwner { selfdestruct(payable(owner)); }"),
    ("only-modifier-exact", Near, "function kill() public only { selfdestruct(payable(owner)); }"),
    ("only-modifier-inside-name", Near, "function kill() public isonlyme(1) { selfdestruct(payable(owner)); }"),
    ("only-modifier-second", Near, "function kill() public auth onlyOwner { selfdestruct(payable(msg.sender)); }"),
    ("only-modifier-qualified-last", Near, "function kill() public Auth.onlyOwner { selfdestruct(payable(owner)); }"),
    ("only-modifier-qualified-first", Near, "function kill() public onlyAuth.check(1) { selfdestruct(payable(owner)); }"),
    ("only-modifier-qualified-middle", Near, "function kill() public a.b.onlyOwner.c { selfdestruct(payable(owner)); }"),
    ("modifier-qualified-without-only", Canon, "function kill() public Auth.owner { selfdestruct(payable(owner)); }"),
    ("internal-function", Near, "function kill() internal { selfdestruct(payable(owner)); }"),
    ("private-function", Near, "function kill() private { selfdestruct(payable(msg.sender)); }"),
    ("no-visibility", Near, "function kill() { selfdestruct(payable(owner)); }"),
    ("no-visibility-with-mutability", Near, "function kill() payable { selfdestruct(payable(owner)); }"),
    ("constructor", Near, "constructor() { selfdestruct(payable(msg.sender)); }"),
    ("constructor-public", Near, "constructor() public { selfdestruct(payable(owner)); }"),
    ("modifier-body", Near, "modifier boom() { selfdestruct(payable(owner)); _; }"),
    ("no-selfdestruct", Near, "function kill() public { destroy(payable(owner)); }"),
    ("member-selfdestruct", Near, "function kill() public { lib.selfdestruct(payable(owner)); }"),
    // unspecified by the property: neither must nor never
    ("if-revert-guard", Match, "function kill() public { if (msg.sender != owner) revert(); selfdestruct(payable(owner)); }"),
    ("if-guard-around", Match, "function kill() public { if (msg.sender == owner) { selfdestruct(payable(owner)); } }"),
    ("capital-Only-modifier", Match, "function kill() public OnlyOwner { selfdestruct(payable(owner)); }"),
    ("sender-assigned", Match, "function kill() public { owner = msg.sender; selfdestruct(payable(owner)); }"),
    ("named-argument-check", Match, "function kill() public { check({a: msg.sender}); selfdestruct(payable(owner)); }"),
    ("and-combined-check", Match, "function kill(uint q) public { require(msg.sender == owner && q > 0); selfdestruct(payable(owner)); }"),
    ("sender-in-modifier-argument", Match, "function kill() public auth(msg.sender) { selfdestruct(payable(owner)); }"),
];

const SD_SCAFFOLD: &str = "contract S {\n    address owner;\n    function ext() external {}\n    @M@\n}\n";


// ---------------------------------------------------------------------------------------------
// unprotected_selfdestruct: two functions with the SAME NAME, one protected (P), one not (U)
// ---------------------------------------------------------------------------------------------
/// (name, attributes, guard statements) -- the selfdestruct of such a function must never be reported
pub const SD_PROTECTED: &[(&str, &str, &str)] = &[
    ("only-modifier", "public onlyOwner", ""),
    ("only-exact-modifier", "external only", ""),
    ("only-inside-name", "public isonlyme(1)", ""),
    ("only-qualified-last", "public Auth.onlyOwner", ""),
    ("require-left", "public", "require(msg.sender == @O@);"),
    ("require-right", "external", "require(@O@ == msg.sender, \"no\");"),
    ("require-ne-right", "public", "require(address(0) != msg.sender);"),
    ("check-call", "public", "check(msg.sender);"),
    ("check-call-second-argument", "public", "checkRole(1, msg.sender);"),
    ("nested-check-call", "external", "require(isOwner(msg.sender));"),
    ("internal", "internal", ""),
];
/// (name, attributes, statements before the call, the call) -- must be reported
pub const SD_UNPROTECTED: &[(&str, &str, &str, &str)] = &[
    ("unguarded", "public", "", "selfdestruct(payable(@O@));"),
    ("payout-to-sender", "external", "", "selfdestruct(payable(msg.sender));"),
    ("other-modifier-tx-origin", "public auth", "require(tx.origin == @O@);", "suicide(@O@);"),
];

fn sd_function(head: &str, attrs: &str, guard: &str, call: &str, owner: &str) -> String {
    format!("    {} {} {{ {} {} }}\n", head, attrs, guard.replace("@O@", owner), call.replace("@O@", owner)).replace("{  ", "{ ")
}

/// (position class, variant, source): P and U share a name
pub fn same_name_selfdestruct_files() -> Vec<(String, String, String)> {
    let mut out = vec![];
    for (pn, pattrs, pguard) in SD_PROTECTED {
        for (un, uattrs, uguard, ucall) in SD_UNPROTECTED {
            let pcall = "selfdestruct(payable(@O@));";
            for p_first in [true, false] {
                let order = if p_first { "protected-first" } else { "unprotected-first" };
                let variant = format!("{}+{}:{}", pn, un, order);
                // overloads in one contract
                let fp = sd_function("function kill()", pattrs, pguard, pcall, "ownerA");
                let fu = sd_function("function kill(uint q)", uattrs, uguard, ucall, "ownerA");
                let (a, b) = if p_first { (&fp, &fu) } else { (&fu, &fp) };
                out.push(("overload".to_string(), variant.clone(), format!("{}contract S {{\n    address ownerA;\n{}{}}}\n", H, a, b)));
                // fallback + receive (both unnamed); only for forms that are external-compatible
                if !pattrs.contains("internal") {
                    let pa = pattrs.replace("public", "external");
                    let ua = uattrs.replace("public", "external");
                    for p_is_fallback in [true, false] {
                        let (ph, uh) = if p_is_fallback { ("fallback()", "receive()") } else { ("receive()", "fallback()") };
                        let pay = |h: &str, a: &str| if h.starts_with("receive") { a.replacen("external", "external payable", 1) } else { a.to_string() };
                        let fp = sd_function(ph, &pay(ph, &pa), pguard, pcall, "ownerA");
                        let fu = sd_function(uh, &pay(uh, &ua), uguard, ucall, "ownerA");
                        let (a, b) = if p_first { (&fp, &fu) } else { (&fu, &fp) };
                        out.push(("fallback-receive".to_string(), format!("{}:{}", variant, if p_is_fallback { "protected-fallback" } else { "protected-receive" }), format!("{}contract S {{\n    address ownerA;\n{}{}}}\n", H, a, b)));
                    }
                }
                // two contracts, three contracts
                let cp = |name: &str, owner: &str| format!("contract {} {{\n    address {};\n{}}}\n", name, owner, sd_function("function kill()", pattrs, pguard, pcall, owner));
                let cu = |name: &str, owner: &str| format!("contract {} {{\n    address {};\n{}}}\n", name, owner, sd_function("function kill()", uattrs, uguard, ucall, owner));
                let two = if p_first { format!("{}{}{}", H, cp("Owned", "ownerA"), cu("Open", "ownerB")) } else { format!("{}{}{}", H, cu("Open", "ownerB"), cp("Owned", "ownerA")) };
                out.push(("cross-contract".to_string(), format!("{}:two-contracts", variant), two));
                let three = if p_first {
                    format!("{}{}{}{}", H, cp("Owned", "ownerA"), cu("Open", "ownerB"), cp("Owned2", "ownerC"))
                } else {
                    format!("{}{}{}{}", H, cu("Open", "ownerB"), cp("Owned", "ownerA"), cu("Open2", "ownerC"))
                };
                out.push(("cross-contract".to_string(), format!("{}:three-contracts", variant), three));
            }
        }
    }
    out
}

// ---------------------------------------------------------------------------------------------
// C08: the ORDER of the attributes of a state variable must not matter
// ---------------------------------------------------------------------------------------------
fn permutations(items: &[&str]) -> Vec<Vec<String>> {
    if items.len() <= 1 {
        return vec![items.iter().map(|s| s.to_string()).collect()];
    }
    let mut out = vec![];
    for i in 0..items.len() {
        let mut rest: Vec<&str> = items.to_vec();
        let head = rest.remove(i);
        for mut p in permutations(&rest) {
            p.insert(0, head.to_string());
            out.push(p);
        }
    }
    out
}

/// one file per (type, visibility, override form, constant|immutable|none): every order of the present
/// attributes; constructor assignment (immutable / none) or initialiser (constant); every second variable of
/// a file is also written in a non-constructor function. Plus one file with everything.
pub fn attribute_order_files() -> Vec<(String, String)> {
    let mut files = vec![];
    let mut all_vars = String::new();
    let mut all_ctor = String::new();
    let mut all_fn = String::new();
    let mut uid = 0;
    for (ty, val) in [("uint256", "1"), ("address", "address(1)"), ("bool", "true")] {
        for vis in ["public", "internal", "private", ""] {
            for ovr in ["", "override", "override(Base1)"] {
                for m in ["constant", "immutable", ""] {
                    let present: Vec<&str> = [vis, ovr, m].iter().filter(|a| !a.is_empty()).cloned().collect();
                    let mut vars = String::new();
                    let mut ctor = String::new();
                    let mut wfn = String::new();
                    for (i, perm) in permutations(&present).iter().enumerate() {
                        uid += 1;
                        let name = format!("ao{}", uid);
                        let attrs = perm.join(" ");
                        let sp = if attrs.is_empty() { "" } else { " " };
                        let init = if m == "constant" { format!(" = {}", val) } else { String::new() };
                        vars.push_str(&format!("    {}{}{} {}{};\n", ty, sp, attrs, name, init));
                        if m != "constant" {
                            ctor.push_str(&format!("        {} = {};\n", name, val));
                        }
                        if i % 2 == 1 {
                            wfn.push_str(&format!("        {} = {};\n", name, val));
                        }
                    }
                    let label = format!("{}:{}:{}:{}", ty, if vis.is_empty() { "default-visibility" } else { vis }, if ovr.is_empty() { "no-override" } else { ovr }, if m.is_empty() { "mutable" } else { m });
                    files.push((label, format!("{}contract Base1 {{}}\ncontract AO is Base1 {{\n{}    constructor() {{\n{}    }}\n    function w() public {{\n{}    }}\n}}\n", H, vars, ctor, wfn)));
                    all_vars.push_str(&vars);
                    all_ctor.push_str(&ctor);
                    all_fn.push_str(&wfn);
                }
            }
        }
    }
    files.push(("everything".to_string(), format!("{}contract Base1 {{}}\ncontract AO is Base1 {{\n{}    constructor() {{\n{}    }}\n    function w() public {{\n{}    }}\n}}\n", H, all_vars, all_ctor, all_fn)));
    files
}

pub fn corpus_c07(tier: &str, rng: &mut Rng) -> Vec<Case> {
    let mut out = vec![];
    let sd = Some(Det::UnprotectedSelfdestruct);
    for (class, kind, member) in SELFDESTRUCT_FORMS {
        for (pos, scaffold) in [
            ("contract", SD_SCAFFOLD.to_string()),
            ("abstract-contract", SD_SCAFFOLD.replace("contract S", "abstract contract S")),
            ("library", SD_SCAFFOLD.replace("contract S", "library S")),
            ("second-contract", format!("contract First {{\n    function a() public {{ require(msg.sender == address(1)); }}\n}}\n{}", SD_SCAFFOLD)),
            ("before-guarded-contract", format!("{}contract Last {{\n    address o2;\n    function kill2() public onlyOwner {{ require(msg.sender == o2); selfdestruct(payable(o2)); }}\n}}\n", SD_SCAFFOLD)),
        ] {
            let src = format!("{}{}", H, scaffold.replace("@M@", member));
            let mut c = file_case(sd, class, *kind, pos, src);
            c.span = c.src.find(member).map(|a| (a, a + member.len()));
            out.push(c);
        }
    }
    let n = if tier == "thorough" { 6000 } else { 300 };
    let mut later: Vec<Case> = vec![];
    for i in 0..n {
        let (src, class) = random_selfdestruct(rng);
        let mut c = file_case(sd, &class, Kind::Mixed, "random", src);
        c.variant = format!("{}", i);
        later.push(c);
    }
    // two functions with the same name, one protected, one not: only the unprotected one is reported
    for (pos, variant, src) in same_name_selfdestruct_files() {
        let mut c = file_case(sd, "same-name", Kind::Mixed, &pos, src);
        c.variant = variant;
        out.push(c);
    }
    // free function / interface
    out.push(file_case(sd, "free-function", Near, "file", format!("{}function kill() public {{ selfdestruct(payable(msg.sender)); }}\n", H)));
    out.push(file_case(sd, "interface-without-body", Near, "file", format!("{}interface I {{ function kill() external; }}\n", H)));
    // floating_pragma
    let fp = Some(Det::FloatingPragma);
    let body = "contract A { uint v; }\n";
    for (class, kind, pragmas) in [
        ("canonical", Canon, "pragma solidity ^0.8.0;\n"),
        ("canonical-old", Canon, "pragma solidity ^0.4.24;\n"),
        ("caret-in-disjunction", Canon, "pragma solidity ^0.7.0 || ^0.8.0;\n"),
        ("caret-second-pragma", Canon, "pragma solidity 0.8.10;\npragma solidity ^0.8.0;\n"),
        ("caret-not-first-in-disjunction", Canon, "pragma solidity 0.7.6 || ^0.8.0;\n"),
        ("caret-after-lower-bound", Canon, "pragma solidity >=0.7.0 ^0.8.0;\n"),
        ("caret-after-spaces", Canon, "pragma solidity    ^0.8.0;\n"),
        ("caret-after-newline", Canon, "pragma solidity\n    ^0.8.0;\n"),
        ("caret-without-space", Canon, "pragma solidity^0.8.0;\n"),
        ("caret-with-block-comment", Canon, "pragma solidity /* range */ ^0.8.0 /* up to 0.9 */;\n"),
        ("pinned-with-caret-in-block-comment", Near, "pragma solidity 0.8.10 /* was ^0.8.0 */;\n"),
        ("pinned-with-caret-in-leading-comment", Near, "pragma solidity /* ^ */ 0.8.10;\n"),
        ("pinned-with-caret-in-line-comment", Near, "pragma solidity 0.8.10 // not ^0.8.0\n;\n"),
        ("pinned-with-caret-in-multi-line-comment", Near, "pragma solidity 0.8.10 /* was\n ^0.8.0\n */;\n"),
        ("pinned-with-caret-after-slashes-in-block-comment", Near, "pragma solidity 0.8.10 /* http://x // ^0.8.0 */;\n"),
        ("caret-after-block-comment-with-slashes", Canon, "pragma solidity /* http://x // y */ ^0.8.0;\n"),
        ("pinned", Near, "pragma solidity 0.8.10;\n"),
        ("pinned-old", Near, "pragma solidity 0.4.24;\n"),
        ("pinned-1-0-0", Near, "pragma solidity 1.0.0;\n"),
        ("experimental-only", Near, "pragma experimental ABIEncoderV2;\n"),
        ("abicoder-only", Near, "pragma abicoder v2;\n"),
        ("pinned-with-other-pragmas", Near, "pragma experimental ABIEncoderV2;\npragma solidity 0.8.10;\npragma abicoder v2;\n"),
        ("no-pragma", Near, ""),
        ("greater-equal", Match, "pragma solidity >=0.8.0;\n"),
        ("range", Match, "pragma solidity >=0.8.0 <0.9.0;\n"),
        ("tilde", Match, "pragma solidity ~0.8.0;\n"),
        ("equals-sign", Match, "pragma solidity =0.8.10;\n"),
        ("two-component", Match, "pragma solidity 0.8;\n"),
    ] {
        out.push(file_case(fp, class, kind, "top", format!("{}{}", pragmas, body)));
        out.push(file_case(fp, class, kind, "after-contract", format!("{}{}", body, pragmas)));
        out.push(file_case(fp, class, kind, "between-contracts", format!("contract Z {{}}\n{}{}", pragmas, body)));
    }
    // expression / statement payloads in every position
    for p in C07_PAYLOADS {
        place_payload(p, &mut out);
    }
    let n = if tier == "thorough" { 250 } else { 12 };
    for p in C07_PAYLOADS {
        place_payload_nested(p, rng, n, &mut out);
    }
    for g in gen::sink() {
        out.push(Case { src: g.src, focus: None, class: g.tag.clone(), kind: Kind::Mixed, pos: "file".into(), span: None, nested: vec![], variant: String::new(), key_tail: String::new() });
    }
    out.extend(later);
    let n = if tier == "thorough" { 1500 } else { 80 };
    for i in 0..n {
        let mut c = file_case(None, "random-declarations", Kind::Mixed, "random", random_declarations(rng, i < n / 4));
        c.variant = format!("{}", i);
        out.push(c);
    }
    out
}

/// write positions inside contract W (which has the constructor assignments `vc = 1; vd = 2;`).
/// (name, members with @W@, defines the constructor itself, extra top-level text with @W@)
pub const WRITE_POSITIONS: &[(&str, &str, bool, &str)] = &[
    ("function-body", "function w1() public { @W@; }", false, ""),
    ("internal-function-body", "function _w1() internal { @W@; }", false, ""),
    ("constructor-body", "constructor() Base0(1) { vc = 1; vd = 2; @W@; }", true, ""),
    ("constructor-modifier-arg", "constructor() Base0(1) mq(@W@) { vc = 1; vd = 2; }", true, ""),
    ("base-constructor-arg", "constructor() Base0(@W@) { vc = 1; vd = 2; }", true, ""),
    ("modifier-body", "modifier mw() { @W@; _; }", false, ""),
    ("modifier-arg", "function w2() public mq(@W@) {}", false, ""),
    ("modifier-arg-second", "function w2() public mq(1) mq(@W@) returns (uint) { return 1; }", false, ""),
    ("try-body", "function w3() public { try this.ext() { @W@; } catch {} }", false, ""),
    ("try-expression", "function w3() public { try this.ext2(@W@) {} catch {} }", false, ""),
    ("catch-simple-body", "function w3() public { try this.ext() {} catch { @W@; } }", false, ""),
    ("catch-named-body", "function w3() public { try this.ext() {} catch Error(string memory r) { @W@; } }", false, ""),
    ("catch-bytes-body", "function w3() public { try this.ext() {} catch (bytes memory b) { @W@; } }", false, ""),
    ("catch-second-clause", "function w3() public { try this.ext() {} catch Error(string memory r) {} catch { @W@; } }", false, ""),
    ("exponent", "function w4(uint q) public returns (uint) { return q ** (@W@); }", false, ""),
    ("power-base", "function w4(uint q) public returns (uint) { return (@W@) ** q; }", false, ""),
    ("pre-increment-operand", "function w5(uint[] memory t) public { ++t[@W@]; }", false, ""),
    ("pre-decrement-operand", "function w5(uint[] memory t) public { --t[@W@]; }", false, ""),
    ("post-increment-operand", "function w5(uint[] memory t) public { t[@W@]++; }", false, ""),
    ("if-condition", "function w6() public { if ((@W@) > 0) {} }", false, ""),
    ("for-update", "function w6() public { for (uint i = 0; i < 2; @W@) {} }", false, ""),
    ("while-condition", "function w6() public { while ((@W@) > 9) {} }", false, ""),
    ("return-value", "function w6() public returns (uint) { return @W@; }", false, ""),
    ("emit-argument", "function w6() public { emit Ev(@W@); }", false, ""),
    ("revert-argument", "function w6() public { revert Er(@W@); }", false, ""),
    ("call-argument", "function w6() public { ext2(@W@); }", false, ""),
    ("call-value-block", "function w6() public { this.ext{value: @W@}(); }", false, ""),
    ("index", "function w6(uint[] memory t) public { t[@W@] = 1; }", false, ""),
    ("ternary-branch", "function w6(uint q) public { q = q > 0 ? (@W@) : 1; }", false, ""),
    ("unchecked-block", "function w6() public { unchecked { @W@; } }", false, ""),
    ("variable-initializer", "function w6() public { uint l = (@W@); }", false, ""),
    ("nested-deep", "function w6(uint q) public { if (q > 0) { while (q > 1) { for (;;) { unchecked { q = ext2(1 + (@W@)); } } } } }", false, ""),
    ("receive-body", "receive() external payable { @W@; }", false, ""),
    ("fallback-body", "fallback() external { @W@; }", false, ""),
    ("state-variable-initializer", "uint other = (@W@);", false, ""),
    ("array-length-expression", "uint[@W@] otherArr;", false, ""),
    ("other-contract", "", false, "contract Z {\n    function z() public { @W@; }\n}\n"),
    ("other-contract-constructor", "", false, "contract Z {\n    constructor() { @W@; }\n}\n"),
    ("free-function", "", false, "function fr() { @W@; }\n"),
    ("base-argument-on-contract", "", false, "contract Z is Base0(@W@) {\n}\n"),
];

fn write_file(pos: &(&str, &str, bool, &str), w: &str, vars: &str) -> String {
    let (_, member, defines_ctor, extra) = pos;
    let mut src = String::from(H);
    src.push_str("contract Base0 {\n    constructor(uint q) {}\n}\n");
    src.push_str("contract W is Base0 {\n");
    src.push_str(vars);
    src.push_str("    event Ev(uint v);\n    error Er(uint v);\n    modifier mq(uint q) { _; }\n    function ext() external payable {}\n    function ext2(uint q) public returns (uint) { return q; }\n");
    if !defines_ctor {
        src.push_str("    constructor() Base0(1) { vc = 1; vd = 2; }\n");
    }
    if !member.is_empty() {
        src.push_str(&format!("    {}\n", member.replace("@W@", w)));
    }
    src.push_str("}\n");
    if !extra.is_empty() {
        src.push_str(&extra.replace("@W@", w));
    }
    src
}

const W_VARS: &str = "    uint va;\n    uint vb;\n    uint vc;\n    uint vd;\n    address ve = address(1);\n    uint constant KC = 1;\n    uint immutable vi = 2;\n    mapping(uint => uint) vm;\n    uint[] vr;\n    string vs;\n    Base0 vu;\n";

/// parameter write forms for memory_to_calldata (`p` is the parameter)
pub const PARAM_WRITES: &[(&str, Kind, &str)] = &[
    ("never-written", Canon, "q = p.length;"),
    ("passed-to-call", Canon, "ext3(p);"),
    ("read-through-index", Canon, "q = p[0][1];"),
    ("assigned-directly", Near, "p = o;"),
    ("assigned-through-index", Near, "p[0] = o[0];"),
    ("assigned-through-two-indexes", Near, "p[0][1] = 1;"),
    ("assigned-through-three-indexes", Near, "p[0][1][2] = 1;"),
    ("assigned-through-index-nested-in-branch", Near, "if (q > 0) { while (q > 1) { p[q][0] = 1; } }"),
    ("assigned-in-expression", Near, "q = (p[0][1] = 2);"),
    ("compound-assigned-through-index", Match, "p[0][1] += 1;"),
    ("incremented-through-index", Match, "p[0][1]++;"),
    ("member-assigned", Match, "p.x = 1;"),
    ("deleted-element", Match, "delete p[0];"),
    ("assigned-through-member-of-element", Match, "p[0].x = 1;"),
    ("parenthesised-target", Match, "(p)[0] = o[0];"),
];

pub fn corpus_c08(tier: &str, rng: &mut Rng) -> Vec<Case> {
    let mut out = vec![];
    let cv = Some(Det::ConstantVariables);
    // inheritance within one file: the only write sits in ANOTHER (derived / base) contract
    out.push(file_case(cv, "written-only-in-derived-contract", Near, "file", format!("{}contract I {{\n    uint a;\n}}\ncontract J is I {{\n    function w(uint q) public {{ a = q; }}\n}}\n", H)));
    out.push(file_case(cv, "written-only-in-derived-contract-listed-first", Near, "file", format!("{}contract J is I {{\n    function w(uint q) public {{ a += q; }}\n}}\ncontract I {{\n    uint a;\n}}\n", H)));
    // every write form in every dedicated position, on `va` (plain variable) and `vd` (also assigned in the constructor)
    for pos in WRITE_POSITIONS {
        for (form, text) in WRITE_FORMS {
            for target in ["va", "vd"] {
                let w = text.replace("@V@", target);
                let src = write_file(pos, &w, W_VARS);
                let mut c = file_case(cv, &format!("write:{}:{}", form, target), Near, pos.0, src);
                c.span = c.src.rfind(&w).map(|a| (a, a + w.len()));
                out.push(c);
            }
        }
    }
    // no write at all
    out.push(file_case(cv, "no-write", Canon, "file", write_file(&("none", "", false, ""), "", W_VARS)));
    // the generic position templates (scaffold state variable s0 / file templates' state variable x)
    let forms: Vec<&(&str, &str)> = if tier == "thorough" { WRITE_FORMS.iter().collect() } else { WRITE_FORMS.iter().step_by(2).collect() };
    for (form, text) in forms {
        for target in ["s0", "x"] {
            let w = text.replace("@V@", target);
            for g in gen::place_expr_everywhere("w", &w) {
                out.push(case_from_prog(g, cv, &format!("write:{}:{}", form, target), Near, &w));
            }
        }
    }
    let n = if tier == "thorough" { 1500 } else { 60 };
    for i in 0..n {
        let (form, text) = WRITE_FORMS[i % WRITE_FORMS.len()];
        let w = text.replace("@V@", "s0");
        for g in gen::place_expr_two_level("w", &w, rng, 1) {
            let mut c = case_from_prog(g, cv, &format!("write:{}:s0", form), Near, &w);
            if c.nested.len() == 3 {
                c.nested = vec![c.nested[0].clone(), format!("expr:{}", c.nested[1]), format!("expr:{}", c.nested[2])];
            }
            out.push(c);
        }
    }
    // immutable_variables: constructor assignment values and shapes
    let iv = Some(Det::ImmutableVariables);
    let im = |class: &str, kind: Kind, members: &str| file_case(iv, class, kind, "file", format!("{}contract I {{\n{}}}\n", H, members));
    out.push(im("assigned-in-constructor", Canon, "    uint a;\n    address b;\n    bool c;\n    bytes32 d;\n    constructor(uint q) { a = q; b = msg.sender; c = true; d = bytes32(q); }\n"));
    out.push(im("assigned-twice-in-constructor", Canon, "    uint a;\n    constructor(uint q) { a = q; if (q > 0) { a = 1; } }\n"));
    out.push(im("assigned-in-nested-statement-of-constructor", Canon, "    uint a;\n    constructor(uint q) { if (q > 0) { for (;;) { unchecked { a = q; } } } }\n"));
    out.push(im("assigned-in-constructor-catch", Canon, "    uint a;\n    constructor(uint q) { try this.e() {} catch { a = q; } }\n    function e() external {}\n"));
    out.push(im("constructor-after-functions", Canon, "    uint a;\n    function r() public view returns (uint) { return a; }\n    constructor(uint q) { a = q; }\n"));
    out.push(im("string-literal-value", Match, "    string a;\n    constructor() { a = \"x\"; }\n"));
    out.push(im("abi-encode-value", Match, "    bytes a;\n    constructor() { a = abi.encode(1); }\n"));
    out.push(im("bytes-conversion-value", Match, "    bytes a;\n    constructor() { a = bytes(\"x\"); }\n"));
    out.push(im("string-from-parameter", Match, "    string a;\n    constructor(string memory q) { a = q; }\n"));
    out.push(im("not-assigned-anywhere", Near, "    uint a;\n    constructor(uint q) {}\n    function r() public view returns (uint) { return a; }\n"));
    out.push(im("assigned-only-in-function", Near, "    uint a;\n    constructor(uint q) {}\n    function w(uint q) public { a = q; }\n"));
    out.push(im("assigned-in-constructor-and-function", Near, "    uint a;\n    constructor(uint q) { a = q; }\n    function w(uint q) public { a = q; }\n"));
    out.push(im("assigned-in-constructor-and-modifier", Near, "    uint a;\n    constructor(uint q) { a = q; }\n    modifier m(uint q) { a = q; _; }\n"));
    out.push(im("compound-only-in-constructor", Near, "    uint a;\n    constructor(uint q) { a += q; }\n"));
    out.push(im("increment-only-in-constructor", Near, "    uint a;\n    constructor(uint q) { a++; }\n"));
    out.push(im("no-constructor", Near, "    uint a;\n    function w(uint q) public { a = q; }\n"));
    out.push(im("assigned-only-in-state-initializer", Near, "    uint a;\n    uint b = (a = 1);\n    constructor(uint q) {}\n"));
    out.push(file_case(iv, "assigned-only-in-free-function", Near, "file", format!("{}contract I {{\n    uint a;\n    constructor(uint q) {{}}\n}}\nfunction fr(uint q) {{ a = q; }}\n", H)));
    // inheritance within one file: the write and the constructor assignment sit in DIFFERENT contracts (both orders)
    out.push(file_case(iv, "base-function-writes-what-derived-constructor-assigns", Near, "file", format!("{}contract I {{\n    uint a;\n    function w(uint q) public {{ a = q; }}\n}}\ncontract J is I {{\n    constructor(uint q) {{ a = q; }}\n}}\n", H)));
    out.push(file_case(iv, "derived-function-writes-what-base-constructor-assigns", Near, "file", format!("{}contract I {{\n    uint a;\n    constructor(uint q) {{ a = q; }}\n}}\ncontract J is I {{\n    function w(uint q) public {{ a = q; }}\n}}\n", H)));
    out.push(file_case(iv, "derived-first-base-function-writes", Near, "file", format!("{}contract J is I {{\n    constructor(uint q) {{ a = q; }}\n}}\ncontract I {{\n    uint a;\n    function w(uint q) public {{ a = q; }}\n}}\n", H)));
    out.push(file_case(iv, "assigned-in-other-contracts-constructor", Canon, "file", format!("{}contract I {{\n    uint a;\n}}\ncontract J is I {{\n    constructor(uint q) {{ a = q; }}\n}}\n", H)));
    out.push(file_case(iv, "written-in-other-contracts-function", Near, "file", format!("{}contract I {{\n    uint a;\n    constructor(uint q) {{ a = q; }}\n}}\ncontract J is I {{\n    function w() public {{ a++; }}\n}}\n", H)));
    // memory_to_calldata
    let mc = Some(Det::MemoryToCalldata);
    let fn_kinds: &[(&str, &str, &str)] = &[
        ("public-function", "function f(uint[][][] memory p, uint[][][] memory o, uint q) public {\n        @B@\n    }", "contract"),
        ("external-function", "function f(uint[][][] memory p, uint[][][] memory o, uint q) external {\n        @B@\n    }", "contract"),
        ("external-payable-virtual", "function f(uint[][][] memory p, uint[][][] memory o, uint q) external payable virtual returns (uint) {\n        @B@\n    }", "contract"),
        ("internal-function", "function f(uint[][][] memory p, uint[][][] memory o, uint q) internal {\n        @B@\n    }", "contract"),
        ("private-function", "function f(uint[][][] memory p, uint[][][] memory o, uint q) private {\n        @B@\n    }", "contract"),
        ("no-visibility", "function f(uint[][][] memory p, uint[][][] memory o, uint q) {\n        @B@\n    }", "contract"),
        ("constructor", "constructor(uint[][][] memory p, uint[][][] memory o, uint q) {\n        @B@\n    }", "contract"),
        ("modifier", "modifier f(uint[][][] memory p, uint[][][] memory o, uint q) {\n        @B@\n        _;\n    }", "contract"),
        ("library-public-function", "function f(uint[][][] memory p, uint[][][] memory o, uint q) public {\n        @B@\n    }", "library"),
        ("abstract-public-function", "function f(uint[][][] memory p, uint[][][] memory o, uint q) public {\n        @B@\n    }", "abstract contract"),
        ("free-function", "function f(uint[][][] memory p, uint[][][] memory o, uint q) {\n        @B@\n    }", "file"),
    ];
    for (class, kind, body) in PARAM_WRITES {
        for (fk, text, container) in fn_kinds {
            let member = text.replace("@B@", body);
            let src = if *container == "file" {
                format!("{}{}\n", H, member)
            } else {
                format!("{}{} P {{\n    function ext3(uint[][][] memory z) internal {{}}\n    {}\n}}\n", H, container, member)
            };
            out.push(file_case(mc, class, *kind, fk, src));
        }
    }
    out.push(file_case(mc, "other-data-locations", Near, "public-function", format!("{}contract P {{\n    function f(uint[] calldata a, uint[] storage b, uint c, uint[] memory, string memory s, bytes memory bb) public {{ c = a.length; }}\n}}\n", H)));
    out.push(file_case(mc, "no-body", Match, "interface", format!("{}interface P {{\n    function f(uint[] memory a) external;\n}}\n", H)));
    out.push(file_case(mc, "no-body", Match, "abstract-function", format!("{}abstract contract P {{\n    function f(uint[] memory a) public virtual;\n}}\n", H)));
    out.push(file_case(mc, "returns-are-not-parameters", Near, "public-function", format!("{}contract P {{\n    function f(uint q) public returns (uint[] memory r) {{ r = new uint[](q); }}\n}}\n", H)));
    out.push(file_case(mc, "two-functions-same-parameter-name", Canon, "public-function", format!("{}contract P {{\n    function f(uint[] memory p) public {{ p[0] = 1; }}\n    function g(uint[] memory p) public returns (uint) {{ return p[0]; }}\n}}\n", H)));
    // memory parameter `arr` of the scaffold's public function f0, written in every position
    let arr_payloads: &[(&str, Kind, &str)] = &[
        ("arr-assigned-through-index", Near, "arr[0] = 1"),
        ("arr-assigned-directly", Near, "arr = a0"),
        ("arr-read-only", Canon, "x = arr[0]"),
    ];
    for (class, kind, text) in arr_payloads {
        for g in gen::place_expr_everywhere(class, text) {
            out.push(case_from_prog(g, mc, class, *kind, text));
        }
    }
    // sstore: plain assignment to state variables of every type / attribute, to locals and parameters
    let ss = Some(Det::Sstore);
    let mut vars = String::new();
    let mut assigns = String::new();
    let mut n = 0;
    for (_, ty, init) in VAR_TYPES {
        for m in VAR_MUT {
            n += 1;
            let init = if *m == "constant" { *init } else { "" };
            vars.push_str(&format!("    {} {} sv{}{};\n", ty, m, n, init));
            assigns.push_str(&format!("        sv{} = sv{};\n", n, n));
        }
    }
    out.push(file_case(
        ss,
        "assignment-matrix",
        Kind::Mixed,
        "file",
        format!(
            "{}struct Foo {{ uint a; }}\ncontract T {{\n{}    function w(uint prm) public {{\n        uint loc;\n        loc = 1;\n        prm = 2;\n{}        sv1 += 1;\n        sv1++;\n        (sv1, sv4) = (1, 2);\n    }}\n}}\ncontract U is T {{\n    function w2() public {{\n        sv1 = 5;\n    }}\n}}\nfunction frr() {{\n    sv1 = 6;\n}}\n",
            H, vars, assigns
        ),
    ));
    out.push(file_case(None, "variable-matrix", Kind::Mixed, "contract", var_matrix("contract")));
    out.push(file_case(None, "variable-matrix", Kind::Mixed, "library", var_matrix("library")));
    // the order of the attributes of a declaration must not matter
    for (label, src) in attribute_order_files() {
        let mut c = file_case(None, "attribute-order-matrix", Kind::Mixed, "attribute-order", src);
        c.variant = label;
        out.push(c);
    }
    // seeded compositions: 1..3 writes (random form, random target) in random positions of one file
    let n = if tier == "thorough" { 12000 } else { 400 };
    for i in 0..n {
        let k = 1 + rng.below(3);
        let mut members = String::new();
        let mut extra = String::new();
        let mut has_ctor = false;
        let mut used = vec![];
        for _ in 0..k {
            let pos = rng.pick(WRITE_POSITIONS);
            let (_, form) = rng.pick(WRITE_FORMS);
            let target = *rng.pick(&["va", "vb", "vc", "vd", "ve", "vi", "vs"]);
            let w = form.replace("@V@", target);
            // members of one contract need distinct names: suffix the function names with the slot number
            let tag = format!("{}", used.len());
            if !pos.1.is_empty() {
                let m = pos.1.replace("@W@", &w).replace("function w", &format!("function r{}w", tag)).replace("function _w", &format!("function _r{}w", tag)).replace("modifier mw", &format!("modifier r{}mw", tag)).replace("uint other ", &format!("uint other{} ", tag)).replace(" otherArr", &format!(" otherArr{}", tag));
                members.push_str(&format!("    {}\n", m));
            }
            if !pos.3.is_empty() {
                extra.push_str(&pos.3.replace("@W@", &w).replace("contract Z", &format!("contract Z{}", tag)).replace("function fr", &format!("function fr{}", tag)));
            }
            has_ctor = has_ctor || pos.2;
            used.push(pos.0.to_string());
        }
        let mut src = String::from(H);
        src.push_str("contract Base0 {\n    constructor(uint q) {}\n}\ncontract W is Base0 {\n");
        src.push_str(W_VARS);
        src.push_str("    event Ev(uint v);\n    error Er(uint v);\n    modifier mq(uint q) { _; }\n    function ext() external payable {}\n    function ext2(uint q) public returns (uint) { return q; }\n");
        if !has_ctor {
            src.push_str("    constructor() Base0(1) { vc = 1; vd = 2; }\n");
        }
        src.push_str(&members);
        src.push_str("}\n");
        src.push_str(&extra);
        let mut c = file_case(cv, "random-writes", Kind::Mixed, "random", src);
        c.nested = used;
        c.variant = format!("{}", i);
        out.push(c);
    }
    let n = if tier == "thorough" { 3000 } else { 150 };
    for i in 0..n {
        let mut c = file_case(None, "random-declarations", Kind::Mixed, "random", random_declarations(rng, i < n / 4));
        c.variant = format!("{}", i);
        out.push(c);
    }
    for g in gen::sink() {
        out.push(Case { src: g.src, focus: None, class: g.tag.clone(), kind: Kind::Mixed, pos: "file".into(), span: None, nested: vec![], variant: String::new(), key_tail: String::new() });
    }
    out
}

// ---------------------------------------------------------------------------------------------
// C04: shapes named by the property
// ---------------------------------------------------------------------------------------------
pub fn corpus_c04_extra() -> Vec<Case> {
    let mut out = vec![];
    let t = |class: &str, src: String| file_case(None, class, Kind::Mixed, "file", src);
    let body = "library SafeMath { function add(uint a, uint b) internal pure returns (uint) { return a + b; } }\ncontract A {\n    using SafeMath for uint;\n    uint v;\n    function f(uint a, uint b) public returns (uint) {\n        require(a > b, \"a string that is certainly longer than thirty-two bytes\");\n        require(a > b, \"short\");\n        return a.add(b) * 2;\n    }\n}\n";
    out.push(t("empty-file", String::new()));
    out.push(t("only-whitespace", "\n\n   \n".to_string()));
    out.push(t("only-comments", "// nothing here\n/* nor here */\n/// doc\n".to_string()));
    out.push(t("no-pragma", body.to_string()));
    out.push(t("only-experimental-pragma", format!("pragma experimental ABIEncoderV2;\n{}", body)));
    out.push(t("only-abicoder-pragma", format!("pragma abicoder v2;\n{}", body)));
    out.push(t("experimental-before-solidity", format!("pragma experimental ABIEncoderV2;\npragma solidity 0.8.10;\n{}", body)));
    out.push(t("pragma-after-contract", format!("{}pragma solidity 0.8.10;\n", body)));
    for v in [
        "0.8.99999999999",
        "99999999999.0.0",
        "0.99999999999999999999.1",
        "0.8",
        "8",
        "*",
        "0.8.x",
        ">=0.8.0 <0.9.0",
        "^0.8.0 || ^0.7.0",
        "0.8.0 - 0.8.9",
        "v0.8.10",
        "0.8.10-alpha",
        "0.8.10.1",
        "0..8.1",
        "0.8.-1",
        "^",
        "latest",
        "0.08.010",
        "0.8.4294967296",
        "0.8.2147483648",
    ] {
        out.push(t(&format!("unreadable-version:{}", v), format!("pragma solidity {};\n{}", v, body)));
    }
    out.push(t("two-solidity-pragmas", format!("pragma solidity 0.7.0;\npragma solidity 0.8.10;\n{}", body)));
    out.push(t("free-functions", format!("{}function ff(uint a) pure returns (uint) {{ return a * 2; }}\nfunction _gg(uint[] memory a) {{ a[0] = 1; }}\nfunction hh() public {{ selfdestruct(payable(msg.sender)); }}\ncontract A {{ constructor() {{}} function f() public {{}} }}\n", H)));
    out.push(t("free-function-only", format!("{}function ff(uint a) pure returns (uint) {{ return a * 2; }}\n", H)));
    out.push(t("free-function-without-pragma", "function ff(uint a) pure returns (uint) { return a * 2; }\ncontract A { function f() public {} constructor() {} }\n".to_string()));
    // numeric literals
    let mut lits: Vec<String> = vec![];
    for k in [0u32, 1, 31, 32, 33, 63, 64, 65, 127, 128, 255, 256, 257, 300] {
        let p = pow2_string(k);
        lits.push(p.clone());
        lits.push(dec_add_one(&p));
        if p.len() > 3 {
            // with separators
            let mut sep = String::new();
            for (i, ch) in p.chars().enumerate() {
                if i > 0 && (p.len() - i) % 3 == 0 {
                    sep.push('_');
                }
                sep.push(ch);
            }
            lits.push(sep);
        }
    }
    for ex in [0, 1, 2, 18, 19, 20, 38, 39, 77, 80] {
        lits.push(format!("1e{}", ex));
        lits.push(format!("2e{}", ex));
        lits.push(format!("4294967296e{}", ex));
        lits.push(format!("1_0e{}", ex));
        lits.push(format!("{}e-{}", pow2_string(10) + &"0".repeat(ex), ex));
        lits.push(format!("5e-{}", ex));
    }
    lits.extend(
        ["0", "00", "0e0", "0e80", "1e-80", "2e-1", "0x0", "0x10", "0xffffffffffffffffffffffffffffffffffffffffffffffffffffffffffffffffffff", "0.5", "1.5e1", "0.2e1", ".5", "1e1_0", "2 ether", "1 wei", "3 days", "1e18 gwei",
         // exponent extremes: i64::MIN / MAX, their neighbours, beyond i64, many minus signs (the lexer accepts digits, '_' and '-')
         "1e-9223372036854775808", "1e9223372036854775807", "1e-9223372036854775807", "2e-9223372036854775809", "4e9223372036854775808",
         "1e99999999999999999999999", "8e-99999999999999999999999", "2e--1", "2e-", "2e-_1", "1e-2147483648", "1e-2147483649", "1e-4294967296",
         "1e-18446744073709551616", "16e-0", "16e-00", "1_6e-0_0"]
            .iter()
            .map(|s| s.to_string()),
    );
    let mut stmts = String::new();
    for (i, l) in lits.iter().enumerate() {
        stmts.push_str(&format!("        x = x * {} + y / {} - arr[{}] + (x == address({}) ? 1 : 0);\n        arr[{}] = arr[{}] + 1;\n", l, l, l, l, l, l));
        // each literal also alone in a small file (so that a panic is attributed to the smallest input)
        out.push(t(
            &format!("literal:{}", if l.len() > 24 { format!("{}..({} chars)", &l[..12], l.len()) } else { l.clone() }),
            gen::file_with_stmt(&format!("x = x * {} + y / {}; arr[{}] = arr[{}] + 1; if (msg.sender == address({})) {{ x = {} * x; }}", l, l, l, l, l, l)),
        ));
        let _ = i;
    }
    out.push(t("all-literals", gen::file_with_stmt(&stmts)));
    // calls without arguments
    for callee in ["address", "payable", "require", "assert", "revert", "keccak256", "selfdestruct", "suicide", "uint256", "bytes", "abi.encode", "x.add", "x.sub", "tok.transfer", "check", "type", "new B0", "this.g0"] {
        let call = format!("{}()", callee);
        out.push(t(
            &format!("zero-argument-call:{}", callee),
            gen::file_with_stmt(&format!("{c}; x = {c} == {c} ? 1 : 2; if ({c} != address(0)) {{ x = 1; }} require({c}, {c}); y = {c}.balance + {c}.length; x = {c} * 2;", c = call)),
        ));
    }
    out.push(t("zero-argument-calls-safemath-pre", format!("pragma solidity 0.7.0;\ncontract A {{ using SafeMath for uint; function f(uint x) public {{ x.add(); x.sub(); require(); require(\"\"); }} }}\n")));
    out.push(t("zero-argument-calls-safemath-post", format!("pragma solidity 0.8.4;\ncontract A {{ using SafeMath for uint; function f(uint x) public {{ x.add(); x.div(); require(); require(\"\"); }} }}\n")));
    // many definitions
    for k in [255usize, 256, 257, 300] {
        let mut src = String::from(H);
        src.push_str("contract Many {\n");
        for i in 0..k {
            src.push_str(&format!("    uint8 v{};\n    function f{}(uint[] memory a{}) public returns (uint) {{ return v{} * 2; }}\n", i, i, i, i));
        }
        src.push_str("    constructor() {}\n}\n");
        out.push(t(&format!("{}-functions-in-one-contract", k), src));
    }
    {
        let mut src = String::from(H);
        for i in 0..300 {
            src.push_str(&format!("contract K{} {{ uint a{}; function f() public {{}} constructor() {{ a{} = 1; }} }}\n", i, i, i));
        }
        out.push(t("300-contracts", src));
        let mut src = String::from(H);
        src.push_str("struct Big {\n");
        for i in 0..300 {
            src.push_str(&format!("    uint{} m{};\n", 8 * (1 + i % 32), i));
        }
        src.push_str("}\ncontract HasBig {\n");
        for i in 0..300 {
            src.push_str(&format!("    uint{} s{};\n", 8 * (1 + (i * 7) % 32), i));
        }
        src.push_str("}\n");
        out.push(t("300-struct-members-and-state-variables", src));
    }
    // deep nesting
    for depth in [10usize, 30, 60] {
        let mut ex = String::from("x");
        for i in 0..depth {
            ex = match i % 6 {
                0 => format!("({} * 2)", ex),
                1 => format!("(y / {} + 1)", ex),
                2 => format!("h2({}, ++y)", ex),
                3 => format!("(arr[{}] >= 3 ? x : y)", ex),
                4 => format!("(1 ** {})", ex),
                _ => format!("(x - {})", ex),
            };
        }
        out.push(t(&format!("expression-depth-{}", depth), gen::file_with_stmt(&format!("x = {};", ex))));
        let mut stt = String::from("x /= y * 2; selfdestruct(payable(msg.sender));");
        for i in 0..depth {
            stt = match i % 5 {
                0 => format!("if (x >= {}) {{ {} }}", i, stt),
                1 => format!("while (x < arr.length) {{ {} }}", stt),
                2 => format!("for (uint i{} = 0; i{} < arr.length; i{}++) {{ {} }}", i, i, i, stt),
                3 => format!("unchecked {{ {} }}", stt),
                _ => format!("try this.g0(1) returns (uint r{}) {{ x = 1; }} catch {{ {} }}", i, stt),
            };
        }
        out.push(t(&format!("statement-depth-{}", depth), gen::file_with_stmt(&stt)));
    }
    out
}

pub fn pow2_string(k: u32) -> String {
    let mut d: Vec<u8> = vec![1];
    for _ in 0..k {
        let mut carry = 0u8;
        for x in d.iter_mut() {
            let v = *x * 2 + carry;
            *x = v % 10;
            carry = v / 10;
        }
        if carry > 0 {
            d.push(carry);
        }
    }
    d.iter().rev().map(|x| (b'0' + *x) as char).collect()
}

pub fn dec_add_one(s: &str) -> String {
    let mut d: Vec<u8> = s.bytes().rev().map(|b| b - b'0').collect();
    let mut i = 0;
    loop {
        if i == d.len() {
            d.push(1);
            break;
        }
        if d[i] == 9 {
            d[i] = 0;
            i += 1;
        } else {
            d[i] += 1;
            break;
        }
    }
    d.iter().rev().map(|x| (b'0' + *x) as char).collect()
}

// ---------------------------------------------------------------------------------------------
// C09: version matrix
// ---------------------------------------------------------------------------------------------
pub const OPERATORS: &[(&str, &str)] = &[("none", ""), ("caret", "^"), ("tilde", "~"), ("equals", "="), ("greater-equal", ">="), ("greater", ">")];
pub const PLACEMENTS: &[&str] = &["none", "before", "after", "both", "after-definition", "at-end", "comment-after-version", "comment-before-version", "line-comment-after-version", "experimental-version-like-before", "block-comment-with-slashes", "multi-line-block-comment", "tab-after-operator", "newline-after-operator", "spaces-around-version"];

pub fn c09_bodies() -> Vec<(&'static str, String)> {
    let s31 = "a".repeat(31);
    let s32 = "b".repeat(32);
    let s33 = "c".repeat(33);
    let m32 = "\u{e9}".repeat(16); // 16 characters, 32 bytes
    let m31 = format!("{}z", "\u{e9}".repeat(15)); // 16 characters, 31 bytes
    let requires = format!(
        "        require(a > b);\n        require(a > b, \"{}\");\n        require(a > b, \"{}\");\n        require(a > b, \"{}\");\n        require(a > b, unicode\"{}\");\n        require(a > b, unicode\"{}\");\n        require(a > b, \"\");\n        require(a > b, why(a));\n        require(\"{}\", a > b);\n        assert(a > b);\n        revert(\"{}\");\n",
        s31, s32, s33, m32, m31, s33, s33
    );
    let calls = "        uint c = a.add(b);\n        c = a.sub(b);\n        c = a.mul(b);\n        c = a.div(b);\n        c = a.mod(b);\n        c = add(a, b);\n        c = a.add;\n        c = x.y.sub(b).mul(c);\n";
    vec![
        (
            "using-in-contract",
            format!("library SafeMath {{\n    function add(uint a, uint b) internal pure returns (uint) {{ return a + b; }}\n}}\ncontract V {{\n    using SafeMath for uint;\n    function why(uint a) internal returns (string memory) {{ return \"w\"; }}\n    function f(uint a, uint b) public returns (uint) {{\n{}{}        return c;\n    }}\n}}\n", calls, requires),
        ),
        (
            "using-at-file-level",
            format!("using SafeMath for uint;\ncontract V {{\n    function f(uint a, uint b) public returns (uint) {{\n{}{}        return c;\n    }}\n}}\n", calls, requires),
        ),
        (
            "using-star",
            format!("contract V {{\n    using SafeMath for *;\n    function f(uint a, uint b) public returns (uint) {{\n{}{}        return c;\n    }}\n}}\n", calls, requires),
        ),
        (
            "using-qualified-path",
            format!("contract V {{\n    using Math.SafeMath for uint;\n    function f(uint a, uint b) public returns (uint) {{\n{}{}        return c;\n    }}\n}}\n", calls, requires),
        ),
        (
            "no-using",
            format!("contract V {{\n    using Other for uint;\n    function f(uint a, uint b) public returns (uint) {{\n{}{}        return c;\n    }}\n}}\n", calls, requires),
        ),
    ]
}

pub fn c09_file(version: Option<(u32, u32, u32)>, op: &str, placement: &str, body: &str) -> String {
    let mut src = String::new();
    if placement == "before" || placement == "both" {
        src.push_str("pragma experimental ABIEncoderV2;\n");
    }
    // the `pragma solidity` directive itself need not be the first item of the file
    if placement == "after-definition" {
        src.push_str("interface IPre {\n    function p() external;\n}\nstruct SPre { uint a; }\n");
    }
    if placement == "at-end" {
        src.push_str(body);
    }
    if placement == "experimental-version-like-before" {
        src.push_str("pragma experimental \"v0.9.0\";\n");
    }
    if let Some((a, b, c)) = version {
        // a comment inside the pragma statement that looks like another version (the parser keeps it in the value)
        let other = if (a, b) >= (0, 8) { "0.4.11" } else { "0.8.19" };
        match placement {
            "comment-after-version" => src.push_str(&format!("pragma solidity {}{}.{}.{} /* was {} */;\n", op, a, b, c, other)),
            "comment-before-version" => src.push_str(&format!("pragma solidity /* not {} */ {}{}.{}.{};\n", other, op, a, b, c)),
            "line-comment-after-version" => src.push_str(&format!("pragma solidity {}{}.{}.{} // {}\n;\n", op, a, b, c, other)),
            "block-comment-with-slashes" => src.push_str(&format!("pragma solidity /* see https://x.y/{} */ {}{}.{}.{} /* was {} // bumped */;\n", other, op, a, b, c, other)),
            "tab-after-operator" => src.push_str(&format!("pragma solidity\t{}\t{}.{}.{}\t;\n", op, a, b, c)),
            "newline-after-operator" => src.push_str(&format!("pragma solidity {}\n    {}.{}.{}\n;\n", op, a, b, c)),
            "spaces-around-version" => src.push_str(&format!("pragma   solidity   {}   {}.{}.{}   ;\n", op, a, b, c)),
            "multi-line-block-comment" => src.push_str(&format!("pragma solidity {}{}.{}.{} /* was\n {}\n */;\n", op, a, b, c, other)),
            _ => src.push_str(&format!("pragma solidity {}{}.{}.{};\n", op, a, b, c)),
        }
    }
    if placement == "after" || placement == "both" {
        src.push_str("pragma abicoder v2;\n");
    }
    if placement != "at-end" {
        src.push_str(body);
    }
    src
}

pub fn all_versions() -> Vec<(u32, u32, u32)> {
    let mut v = vec![];
    for major in 0..=1u32 {
        let minors = if major == 1 { 0..=2u32 } else { 0..=12u32 };
        for minor in minors {
            for patch in 0..=40u32 {
                v.push((major, minor, patch));
            }
        }
    }
    v
}

pub fn boundary_versions() -> Vec<(u32, u32, u32)> {
    let mut v = vec![(0, 0, 0), (0, 4, 24), (0, 6, 12)];
    for p in 0..=6 {
        v.push((0, 7, p));
    }
    for p in 0..=14 {
        v.push((0, 8, p));
    }
    v.extend([(0, 8, 40), (0, 9, 0), (0, 9, 3), (0, 9, 4), (0, 10, 2), (0, 12, 40), (1, 0, 0), (1, 0, 4), (1, 2, 40)]);
    v
}

// ---------------------------------------------------------------------------------------------
// C19: multi-item programs. Every name (in particular every state-variable name) of item k carries the suffix k.
// ---------------------------------------------------------------------------------------------
pub const ITEM_POOL: &[(&str, &str)] = &[
    ("contract-function-then-constructor", "contract A@ {\n    uint va@;\n    function f@() public { va@ = 1; }\n    constructor() {}\n}\n"),
    ("contract-constructor-first", "contract B@ {\n    uint vb@;\n    uint vq@;\n    constructor() { vb@ = 1; }\n    function g@() public returns (uint) { return vb@ * 2; }\n}\n"),
    ("contract-only-functions", "contract C@ {\n    function p@() public {}\n    function q@() external payable {}\n    function _r@() public {}\n    function s@() internal {}\n}\n"),
    ("contract-state-variables", "contract D@ {\n    uint8 da@;\n    uint256 db@;\n    uint8 dc@;\n    uint private dd@;\n    uint public _de@;\n    uint constant DF@ = 1;\n    mapping(uint => uint) private dm@;\n    function w@() public { db@ += 1; ++dc@; }\n}\n"),
    ("contract-selfdestruct", "contract E@ {\n    address eo@;\n    function kill@() public { selfdestruct(payable(msg.sender)); }\n    function safe@() public { require(msg.sender == eo@); selfdestruct(payable(eo@)); }\n}\n"),
    ("contract-expressions", "contract F@ {\n    function m@(uint x, uint y, uint[] memory arr, address t) public returns (uint) {\n        for (uint i = 0; i < arr.length; i++) { arr[1] = arr[1] + x / y * 2; }\n        require(x >= y && t != address(0), \"a message of at least thirty-two bytes\");\n        if (x == 3 == true) { x = uint(keccak256(abi.encode(address(this).balance))); }\n        tok@.transfer(t, x);\n        x /= y * 4;\n        return x;\n    }\n}\n"),
    ("contract-memory-params", "contract G@ {\n    function a@(uint[] memory p@) public { p@[0] = 1; }\n    function b@(uint[] memory q@) public returns (uint) { return q@[0]; }\n}\n"),
    ("contract-using-safemath", "contract H@ {\n    using SafeMath for uint;\n    function s@(uint a, uint b) public returns (uint) { return a.add(b).mul(2); }\n}\n"),
    ("abstract-contract", "abstract contract I@ {\n    uint internal ia@;\n    function v@() public virtual;\n    constructor(uint q) { ia@ = q; }\n}\n"),
    ("library", "library L@ {\n    uint constant LK@ = 4;\n    function lf@(uint a) internal pure returns (uint) { return a * 2; }\n    function lg@(uint[] memory a) public {}\n}\n"),
    ("interface", "interface N@ {\n    function poke@(uint[] memory a) external;\n    function peek@() external view returns (uint);\n}\n"),
    ("free-function", "function free@(uint a, uint[] memory m@) pure returns (uint) {\n    return a * 2 + m@.length;\n}\n"),
    ("struct", "struct S@ {\n    uint8 a;\n    uint256 b;\n    uint8 c;\n}\n"),
    ("file-constant", "uint constant TOP@ = 10 ** 18 * 2;\n"),
    ("enum-event-error", "enum En@ { X, Y }\nevent Ev@(uint a);\nerror Er@(uint a);\n"),
    ("experimental-pragma", "pragma experimental ABIEncoderV2;\n"),
    ("contract-try-catch-writes", "contract T@ {\n    uint ta@;\n    uint tb@;\n    uint tc@;\n    function e@() external {}\n    modifier md@(uint q) { _; }\n    function w@(uint q) public md@(tb@ = 1) returns (uint) { try this.e@() {} catch { ta@ = 1; } return q ** (tc@ = 2); }\n}\n"),
];

pub fn c19_program(header: &str, picks: &[usize]) -> (String, String) {
    let mut src = String::from(header);
    let mut shape = vec![];
    for (k, p) in picks.iter().enumerate() {
        let (name, text) = ITEM_POOL[*p];
        src.push_str(&text.replace('@', &k.to_string()));
        shape.push(name);
    }
    (src, shape.join("+"))
}

/// two or three unrelated contracts (no inheritance, no mutual reference) in which one name denotes different variables
pub fn same_name_variable_files() -> Vec<(String, String)> {
    let h = "pragma solidity 0.8.10;\n";
    let reader = |c: &str, v: &str| format!("contract {} {{\n    uint {};\n    function g() public view returns (uint) {{ return {}; }}\n}}\n", c, v, v);
    let ctor = |c: &str, v: &str| format!("contract {} {{\n    uint {};\n    constructor() {{ {} = 1; }}\n    function g() public view returns (uint) {{ return {}; }}\n}}\n", c, v, v, v);
    let writer = |c: &str, v: &str, w: &str| format!("contract {} {{\n    uint {};\n    function f() public {{ {}; }}\n}}\n", c, v, w.replace("@", v));
    let param = |c: &str, v: &str| format!("contract {} {{\n    function f(uint {}) public returns (uint) {{ {} = 2; return {}; }}\n}}\n", c, v, v, v);
    let local = |c: &str, v: &str| format!("contract {} {{\n    function f() public returns (uint) {{ uint {}; {} = 2; return {}; }}\n}}\n", c, v, v, v);
    let mut out = vec![];
    for (wn, w) in [("assign", "@ = 1"), ("compound", "@ += 1"), ("increment", "@++"), ("decrement", "--@")] {
        out.push((format!("never-written+{}-elsewhere", wn), format!("{}{}{}", h, reader("A", "x"), writer("B", "x", w))));
        out.push((format!("{}-elsewhere+never-written", wn), format!("{}{}{}", h, writer("B", "x", w), reader("A", "x"))));
        out.push((format!("constructor-assigned+{}-elsewhere", wn), format!("{}{}{}", h, ctor("A", "x"), writer("B", "x", w))));
    }
    out.push(("state-variable+parameter-elsewhere".into(), format!("{}{}{}", h, reader("A", "x"), param("B", "x"))));
    out.push(("state-variable+local-elsewhere".into(), format!("{}{}{}", h, reader("A", "x"), local("B", "x"))));
    out.push(("parameter-elsewhere+state-variable".into(), format!("{}{}{}", h, param("B", "x"), reader("A", "x"))));
    out.push(("three-contracts".into(), format!("{}{}{}{}", h, reader("A", "x"), reader("C", "y"), writer("B", "x", "@ = 1"))));
    // same-named MEMORY PARAMETERS in different items: one function writes its parameter, the other only reads its own
    let mw = |c: &str, f: &str| format!("contract {} {{\n    function {}(uint[] memory a) public {{ a[0] = 1; }}\n}}\n", c, f);
    let mr = |c: &str, f: &str| format!("contract {} {{\n    function {}(uint[] memory a) public returns (uint) {{ return a[0]; }}\n}}\n", c, f);
    out.push(("memory-parameter-written+memory-parameter-read".into(), format!("{}{}{}", h, mw("A", "f"), mr("B", "g"))));
    out.push(("memory-parameter-read+memory-parameter-written".into(), format!("{}{}{}", h, mr("B", "g"), mw("A", "f"))));
    out.push(("memory-parameter-written+free-function-reading".into(), format!("{}{}function fr(uint[] memory a) pure returns (uint) {{ return a[0]; }}\n", h, mw("A", "f"))));
    // RELATED contracts (inheritance) that do not mention each other's members: every per-contract verdict still composes
    out.push(("inheritance-without-cross-reference:packing".into(), format!("{}contract Base {{\n    uint128 a;\n    function g() public view returns (uint128) {{ return a; }}\n}}\ncontract Derived is Base {{\n    uint256 t;\n    uint128 p;\n    function k() public view returns (uint256) {{ return t + p; }}\n}}\n", h)));
    out.push(("inheritance-without-cross-reference:packing-base-last".into(), format!("{}contract Derived is Base {{\n    uint256 t;\n    uint128 p;\n    function k() public view returns (uint256) {{ return t + p; }}\n}}\ncontract Base {{\n    uint128 a;\n    uint256 b;\n    uint128 c;\n    function g() public view returns (uint256) {{ return a + b + c; }}\n}}\n", h)));
    out.push(("inheritance-without-cross-reference:constructors".into(), format!("{}contract Base {{\n    uint v;\n    constructor() {{ v = 1; }}\n    function g() public view returns (uint) {{ return v; }}\n}}\ncontract Derived is Base {{\n    uint w;\n    constructor() {{ w = 2; }}\n    function k() public view returns (uint) {{ return w; }}\n}}\n", h)));
    // a FUNCTION named like another top-level item, and a state variable whose TYPE is another top-level item
    out.push(("function-named-like-another-contract".into(), format!("{}contract A {{\n    function B() public {{}}\n    constructor() {{}}\n}}\ncontract B {{\n    constructor() {{}}\n    function g() public {{}}\n}}\n", h)));
    out.push(("function-named-like-an-earlier-contract".into(), format!("{}contract B {{\n    constructor() {{}}\n    function g() public {{}}\n}}\ncontract A {{\n    function B() public {{}}\n    constructor() {{}}\n}}\n", h)));
    out.push(("state-variable-typed-with-another-item".into(), format!("{}interface T {{\n    function p() external;\n}}\ncontract C {{\n    uint96 a;\n    T t;\n    uint160 b;\n}}\n", h)));
    out.push(("state-variable-typed-with-a-later-contract".into(), format!("{}contract C {{\n    uint96 a;\n    T t;\n    uint160 b;\n}}\ncontract T {{\n    uint8 q;\n}}\n", h)));
    // control: different names -- no interference possible
    out.push(("control-different-names".into(), format!("{}{}{}", h, reader("A", "x"), writer("B", "z", "@ = 1"))));
    out
}

pub fn corpus_c19(tier: &str, rng: &mut Rng) -> Vec<Case> {
    let mut out = vec![];
    let n = ITEM_POOL.len();
    let headers = ["pragma solidity 0.8.10;\n", "pragma solidity ^0.7.6;\n", ""];
    // all ordered pairs under the first header
    for a in 0..n {
        for b in 0..n {
            let (src, shape) = c19_program(headers[0], &[a, b]);
            out.push(file_case(None, "pair", Kind::Mixed, &shape, src));
        }
    }
    // a diagonal under the other headers
    for a in 0..n {
        let (src, shape) = c19_program(headers[1], &[a, (a + 1) % n]);
        out.push(file_case(None, "pair-caret-0.7", Kind::Mixed, &shape, src));
        let (src, shape) = c19_program(headers[2], &[a, (a + 5) % n]);
        out.push(file_case(None, "pair-no-pragma", Kind::Mixed, &shape, src));
    }
    let m = if tier == "thorough" { 4000 } else { 250 };
    for i in 0..m {
        let k = 3 + (i % 2);
        let picks: Vec<usize> = (0..k).map(|_| rng.below(n)).collect();
        let (src, shape) = c19_program(headers[rng.below(3)], &picks);
        out.push(file_case(None, if k == 3 { "triple" } else { "quadruple" }, Kind::Mixed, &shape, src));
    }
    // same-named functions in different contracts (one protected, one not)
    for (pos, variant, src) in same_name_selfdestruct_files() {
        if pos == "cross-contract" {
            out.push(file_case(None, "same-name-functions", Kind::Mixed, &format!("same-name:{}", variant), src));
        }
    }
    // UNRELATED contracts that use the same variable name (state variable vs. state variable, parameter, local):
    // the hazard named in the property's anchors (name-keyed state-variable table for the whole file)
    for (variant, src) in same_name_variable_files() {
        out.push(file_case(None, "same-name-variables", Kind::Mixed, &format!("same-name-variable:{}", variant), src));
    }
    // the `pragma solidity` directive placed AFTER the first item / between items / at the end (the version-gated detectors
    // string_errors and short_revert_string must give every item the same verdict as when it is analysed alone with the pragma kept)
    {
        let item = |c: &str, f: &str| format!("contract {} {{\n    function {}(uint a) public pure {{\n        require(a > 0, \"a message of some length, thirty-two bytes or more\");\n        require(a > 1, \"short\");\n    }}\n}}\n", c, f);
        for (vname, pragma) in [("0.8.10", "pragma solidity 0.8.10;\n"), ("0.7.6", "pragma solidity 0.7.6;\n")] {
            out.push(file_case(None, "pragma-placement", Kind::Mixed, &format!("pragma-between-items:{}", vname), format!("{}{}{}", item("A", "f"), pragma, item("B", "g"))));
            out.push(file_case(None, "pragma-placement", Kind::Mixed, &format!("pragma-after-items:{}", vname), format!("{}{}{}", item("A", "f"), item("B", "g"), pragma)));
            out.push(file_case(None, "pragma-placement", Kind::Mixed, &format!("pragma-after-interface:{}", vname), format!("interface I {{\n    function p() external;\n}}\n{}{}{}", pragma, item("A", "f"), item("B", "g"))));
        }
    }
    // a library whose only member is a constant, followed by a contract whose packing verdict would change with one more size in front
    out.push(file_case(None, "library-then-contract", Kind::Mixed, "library-constant+packable-contract", format!("{}library L {{\n    uint128 constant K = 1;\n}}\ncontract C {{\n    uint128 a;\n    uint256 b;\n    uint128 c;\n}}\n", H)));
    out.push(file_case(None, "library-then-contract", Kind::Mixed, "library-constant+optimal-contract", format!("{}library L {{\n    uint64 constant K = 1;\n}}\ncontract C {{\n    uint256 b;\n    uint128 a;\n    uint64 c;\n}}\n", H)));
    out.push(file_case(None, "library-then-contract", Kind::Mixed, "interface+library-constant+packable-contract", format!("{}interface I {{\n    function p() external;\n}}\nlibrary L {{\n    uint128 constant K = 1;\n}}\ncontract C {{\n    uint128 a;\n    uint256 b;\n    uint128 c;\n}}\n", H)));
    // multi-item files of the other corpora
    for (name, t) in gen::FILE_POS {
        if t.matches("contract").count() + t.matches("interface").count() + t.matches("library").count() >= 2 {
            out.push(file_case(None, "position-template", Kind::Mixed, name, t.replace("@E@", "x >= y * 2")));
        }
    }
    for g in gen::sink() {
        out.push(file_case(None, "sink", Kind::Mixed, &g.tag, g.src));
    }
    out
}


// ---------------------------------------------------------------------------------------------
// multi-line canonical payloads (c02-loc): sub-nodes start on other lines than the construct
// ---------------------------------------------------------------------------------------------
pub const MULTILINE_PAYLOADS: &[Payload] = &[
    e(Det::AddressBalance, "multiline-argument", Canon, "address(\n            this\n        )\n        .balance"),
    e(Det::AddressBalance, "multiline-member", Canon, "address(this)\n            .balance"),
    e(Det::AddressZero, "multiline-right", Canon, "x ==\n            address(\n                0\n            )"),
    e(Det::AddressZero, "multiline-left", Canon, "address(0)\n            !=\n            x"),
    e(Det::BoolEqualsBool, "multiline-right", Canon, "x\n            ==\n            true"),
    e(Det::BoolEqualsBool, "multiline-left", Canon, "false\n            != x"),
    e(Det::AssignUpdateArrayValue, "multiline-value", Canon, "arr[1] =\n            arr[1]\n            + x"),
    e(Det::AssignUpdateArrayValue, "multiline-index", Canon, "arr[\n            1\n        ] = arr[1] - x"),
    e(Det::CacheArrayLength, "multiline-member", Canon, "x <\n            arr\n            .length"),
    s(Det::CacheArrayLength, "multiline-for", Canon, "for (\n            uint i = 0;\n            i <\n            arr\n            .length;\n            i++\n        ) { x = 1; }"),
    e(Det::IncrementDecrement, "multiline-postfix", Canon, "x\n            ++"),
    e(Det::IncrementDecrement, "multiline-prefix", Canon, "++\n            x"),
    e(Det::IncrementDecrement, "multiline-prefix-dec", Canon, "--\n            arr[\n            0]"),
    e(Det::MultipleRequire, "multiline-with-message", Canon, "require(\n            x > 0 &&\n            y > 0,\n            \"m\"\n        )"),
    e(Det::MultipleRequire, "multiline-callee-alone", Canon, "require\n        (\n            x > 0\n            && y > 0\n        )"),
    e(Det::MultipleRequire, "multiline-three-conditions", Canon, "require(x > 0\n            && y > 0\n            && x > y)"),
    e(Det::OptimalComparison, "multiline-ge", Canon, "x\n            >=\n            y"),
    e(Det::OptimalComparison, "multiline-le", Canon, "x\n            <= y"),
    e(Det::ShiftMath, "multiline-mul", Canon, "x\n            *\n            2"),
    e(Det::ShiftMath, "multiline-div", Canon, "x\n            / 4"),
    e(Det::ShiftMath, "multiline-left-literal", Canon, "8\n            * x"),
    e(Det::SolidityKeccak256, "multiline-argument", Canon, "keccak256(\n            abi.encode(x)\n        )"),
    e(Det::SolidityKeccak256, "multiline-callee-alone", Canon, "keccak256\n        (x)"),
    e(Det::SolidityMath, "multiline-add", Canon, "x\n            +\n            y"),
    e(Det::SolidityMath, "multiline-sub", Canon, "x\n            - y"),
    e(Det::SolidityMath, "multiline-mul-div", Canon, "x\n            * y\n            / 3"),
    e(Det::UnsafeErc20Operation, "multiline-transfer", Canon, "tok\n            .transfer(a0[0], 1)"),
    e(Det::UnsafeErc20Operation, "multiline-approve", Canon, "tok\n            .approve(x,\n            y)"),
    e(Det::UnsafeErc20Operation, "multiline-chain", Canon, "reg\n            .token()\n            .transferFrom(x, y, 1)"),
    e(Det::DivideBeforeMultiply, "multiline-mul", Canon, "x\n            / y\n            * 2"),
    e(Det::DivideBeforeMultiply, "multiline-parenthesised", Canon, "(\n            x / y\n        )\n            * 2"),
    e(Det::DivideBeforeMultiply, "multiline-assign-divide", Canon, "x /=\n            y\n            * 2"),
    s(Det::UnprotectedSelfdestruct, "multiline-argument", Canon, "selfdestruct(\n            payable(msg.sender)\n        );"),
    s(Det::UnprotectedSelfdestruct, "multiline-callee-alone", Canon, "suicide\n        (\n            address(0)\n        );"),
];

pub fn corpus_multiline() -> Vec<Case> {
    let mut out = vec![];
    for p in MULTILINE_PAYLOADS {
        place_payload(p, &mut out);
    }
    let t = |det: Det, class: &str, src: &str| file_case(Some(det), class, Canon, "file", src.to_string());
    // C06 / C07 / C08: declarations spread over several lines
    let decl = "pragma\n    solidity\n    ^0.8.0;\ncontract A {\n    uint\n        private\n        pv;\n    uint\n        public\n        _pu;\n    uint\n        public\n        constant\n        KK = 1;\n    mapping(uint => uint)\n        internal\n        mp;\n    address[]\n        private\n        constant\n        _AK = 2;\n    function\n        f(uint a)\n        public\n        virtual\n        returns (uint)\n    {\n        return a;\n    }\n    function\n        _g()\n        external\n    {}\n    function\n        h()\n        private\n    {}\n    function f2() public {}\n    constructor\n    (\n    )\n    {\n    }\n}\ncontract B {\n    function\n        k\n        ()\n        public\n    {\n        selfdestruct(\n            payable(\n                msg.sender\n            )\n        );\n    }\n    constructor\n        ()\n        payable\n    {}\n}\n";
    for d in [Det::PayableFunction, Det::PrivateConstant, Det::PrivateVarsLeadingUnderscore, Det::PrivateFuncLeadingUnderscore, Det::ConstructorOrder, Det::FloatingPragma, Det::UnprotectedSelfdestruct] {
        out.push(t(d, "multiline-declarations", decl));
    }
    let c08 = "pragma solidity 0.8.10;\ncontract W {\n    uint\n        never;\n    uint\n        ctorOnly;\n    address\n        public\n        written;\n    constructor(\n        uint q\n    ) {\n        ctorOnly =\n            q;\n    }\n    function f(\n        uint[]\n            memory\n            p,\n        uint[]\n            memory\n            o,\n        address q\n    )\n        public\n    {\n        written\n            =\n            q;\n        o[\n            0\n        ]\n            = p[0];\n    }\n}\n";
    for d in [Det::ConstantVariables, Det::ImmutableVariables, Det::MemoryToCalldata, Det::Sstore] {
        out.push(t(d, "multiline-declarations", c08));
    }
    // C09
    let long = "d".repeat(40);
    for v in ["0.7.6", "0.8.10"] {
        let src = format!(
            "pragma solidity {};\ncontract V {{\n    using SafeMath for uint;\n    function f(uint a, uint b) public returns (uint c) {{\n        require(\n            a > b,\n            \"{}\"\n        );\n        require(a > b,\n            \"{}\"\n            \"tail\");\n        c = a\n            .add(b);\n        c = a\n            .sub(\n                b\n            )\n            .mul(c);\n    }}\n}}\n",
            v, long, long
        );
        for d in [Det::SafeMathPre080, Det::SafeMathPost080, Det::StringErrors, Det::ShortRevertString] {
            let mut c = t(d, "multiline-sites", &src);
            c.pos = v.to_string();
            out.push(c);
        }
    }
    out
}

pub fn corpus_for(prop: &str, tier: &str, rng: &mut Rng) -> Vec<Case> {
    let mut v = corpus_base(prop, tier, rng);
    if ["c05", "c06", "c07", "c08"].contains(&prop) {
        // multi-line canonical payloads of this property's detectors
        v.extend(corpus_multiline().into_iter().filter(|c| c.focus.map(|d| d.prop()) == Some(prop)));
    }
    v
}

fn corpus_base(prop: &str, tier: &str, rng: &mut Rng) -> Vec<Case> {
    match prop {
        "c05" => corpus_c05(tier, rng),
        "c06" => corpus_c06(tier, rng),
        "c07" => corpus_c07(tier, rng),
        "c08" => corpus_c08(tier, rng),
        "c19" => corpus_c19(tier, rng),
        "c04" => corpus_c04_extra(),
        _ => vec![],
    }
}
