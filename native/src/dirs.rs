//! C03, C16 (bounded): executable contract of `analyze_dir` on enumerated directory trees.
//!
//! C03  for every category, every selected pattern set P and every tree T:
//!        for p in P:  multiset(result[p]) == { (file_name(f), analyze_for_*(contents(f), _, p)) :
//!                                              f eligible file under T at any depth, analyze_for_*(..) != {} }
//!        keys(result) is a subset of P and no key maps to an empty list.
//!      The oracle calls the real per-file entry points itself, so the check is about the walk and the merge.
//! C16  eligible(f) <=> name(f) ends in ".sol" (case-sensitive) and lower(name(f)) does not end in ".t.sol".
//!        result(T) == result(T without its ineligible files), no ineligible file makes the run panic,
//!        every eligible file with findings is analysed, no ineligible file is.
//!
//! Besides the enumerated trees (<= 3 directory levels) a family of deep chains (up to 16 / 48 levels) is run: the
//! property says "at any depth".
//! Trees are really built under std::env::temp_dir(); the listing order every comparison is attributed to is
//! the one observed through fs::read_dir on the built tree (never assumed).
use crate::json::J;
use crate::report::{CheckResult, Rng};
use solstat::analyzer::{optimizations as opt, qa, vulnerabilities as vul};
use std::cell::Cell;
use std::collections::{BTreeMap, BTreeSet, HashMap};
use std::fs;
use std::panic::{self, AssertUnwindSafe};
use std::path::{Path, PathBuf};
use std::sync::atomic::{AtomicUsize, Ordering};
use std::sync::Mutex;

// ------------------------------------------------------------------------------------------------
// the three categories behind one interface
// ------------------------------------------------------------------------------------------------

const CAT_NAMES: [&str; 3] = ["optimizations", "vulnerabilities", "qa"];

/// (category, index into get_all_*()); index 255 = a key the library returned that get_all_*() does not list
#[derive(Clone, Copy, PartialEq, Eq, PartialOrd, Ord, Hash, Debug)]
struct Pat(u8, u8);

macro_rules! with_cat {
    ($cat:expr, $all:ident, $file_fn:ident, $dir_fn:ident, $body:block) => {
        match $cat {
            0 => {
                let $all = opt::get_all_optimizations();
                let $file_fn = opt::analyze_for_optimization;
                let $dir_fn = opt::analyze_dir;
                $body
            }
            1 => {
                let $all = vul::get_all_vulnerabilities();
                let $file_fn = vul::analyze_for_vulnerability;
                let $dir_fn = vul::analyze_dir;
                $body
            }
            _ => {
                let $all = qa::get_all_qa();
                let $file_fn = qa::analyze_for_qa;
                let $dir_fn = qa::analyze_dir;
                $body
            }
        }
    };
}

fn n_pats(cat: u8) -> usize {
    with_cat!(cat, all, _f, _d, { all.len() })
}

fn pat_name(p: Pat) -> String {
    with_cat!(p.0, all, _f, _d, { all.get(p.1 as usize).map(|x| format!("{:?}", x)).unwrap_or_else(|| "?".to_string()) })
}

/// the REAL per-file entry point
fn real_file(p: Pat, src: &str, file_number: usize) -> Vec<i64> {
    with_cat!(p.0, all, f, _d, { f(src, file_number, all[p.1 as usize]).into_iter().map(|x| x as i64).collect() })
}

type Entries = Vec<(String, Vec<i64>)>;

/// the REAL directory entry point; the map is returned as a list, nothing is normalised away
fn real_dir(cat: u8, dir: &str, pats: &[Pat]) -> Vec<(Pat, String, Entries)> {
    with_cat!(cat, all, _f, d, {
        let sel = pats.iter().map(|p| all[p.1 as usize]).collect();
        d(dir, sel)
            .into_iter()
            .map(|(k, v)| {
                let idx = all.iter().position(|x| *x == k).map(|i| i as u8).unwrap_or(255);
                (Pat(cat, idx), format!("{:?}", k), v.into_iter().map(|(n, l)| (n, l.into_iter().map(|x| x as i64).collect())).collect())
            })
            .collect()
    })
}

thread_local! { static QUIET: Cell<bool> = Cell::new(false); }

fn install_hook() {
    panic::set_hook(Box::new(|info| {
        if !QUIET.with(|q| q.get()) {
            eprintln!("vxn dirs: harness panic: {}", info);
        }
    }));
}

/// run real code; a panic becomes Err(message)
fn guarded<T>(f: impl FnOnce() -> T) -> Result<T, String> {
    QUIET.with(|q| q.set(true));
    let r = panic::catch_unwind(AssertUnwindSafe(f));
    QUIET.with(|q| q.set(false));
    r.map_err(|e| {
        if let Some(s) = e.downcast_ref::<&str>() {
            s.to_string()
        } else if let Some(s) = e.downcast_ref::<String>() {
            s.clone()
        } else {
            "non-string panic payload".to_string()
        }
    })
}

fn slug(s: &str, max: usize) -> String {
    let mut o = String::new();
    for c in s.chars() {
        if c.is_ascii_alphanumeric() {
            o.push(c.to_ascii_lowercase());
        } else if !o.ends_with('-') && !o.is_empty() {
            o.push('-');
        }
        if o.len() >= max {
            break;
        }
    }
    o.trim_end_matches('-').to_string()
}

fn panic_kind(msg: &str) -> String {
    if msg.contains("Unable to read file") {
        "file-content-not-readable-as-text".into()
    } else if msg.contains("Diagnostic") || (msg.contains("unwrap()") && msg.contains("Err")) {
        "file-content-does-not-parse".into()
    } else if msg.contains("Could not convert file name") || msg.contains("Could not get nested dir") {
        "name-not-convertible".into()
    } else {
        slug(msg.split(':').next().unwrap_or(msg), 48)
    }
}

// ------------------------------------------------------------------------------------------------
// file contents
// ------------------------------------------------------------------------------------------------

/// Small fixed contracts. Every one has a `pragma solidity` line and no free function (detectors that abort
/// without them are other properties' business). Several share patterns so that merging matters.
const SOURCES: [&str; 13] = [
    // 0: FloatingPragma, OptimalComparison
    "// SPDX-License-Identifier: MIT\npragma solidity ^0.8.0;\n\ncontract A0 {\n    uint256 public total;\n\n    function cmp(uint256 x, uint256 y) public view returns (bool) {\n        return x >= y;\n    }\n}\n",
    // 1: UnsafeERC20Operation, PrivateFuncLeadingUnderscore (public function with a leading underscore)
    "pragma solidity 0.8.17;\n\ninterface IERC20 {\n    function transfer(address to, uint256 v) external returns (bool);\n}\n\ncontract A1 {\n    IERC20 token;\n\n    function _pay(address a, uint256 b) public {\n        token.transfer(a, b);\n    }\n}\n",
    // 2: FloatingPragma, OptimalComparison (other line), ConstructorOrder (constructor after a function)
    "pragma solidity ^0.8.0;\n\ncontract A2 {\n    uint256 v;\n\n    function set(uint256 x, uint256 y) external {\n        if (x >= y) {\n            v = x;\n        }\n    }\n\n    constructor() {\n        v = 1;\n    }\n}\n",
    // 3: the patterns of 0 and 1 again, on other lines
    "\n\n\npragma solidity ^0.8.0;\n\ninterface IT {\n    function transfer(address to, uint256 v) external returns (bool);\n}\n\ncontract A3 {\n    function _cmp(uint256 x, uint256 y) public pure returns (bool) {\n        return x >= y;\n    }\n\n    function f(address t, address a, uint256 b) public {\n        IT(t).transfer(a, b);\n    }\n}\n",
    // 4: nearly clean (no finding for most patterns: entries must simply be absent, never empty lists)
    "pragma solidity 0.8.17;\n\ncontract A4 {\n    uint256 private _x;\n\n    function get() external view returns (uint256) {\n        return _x;\n    }\n}\n",
    // 5: DivideBeforeMultiply, PrivateVarsLeadingUnderscore
    "pragma solidity 0.8.17;\n\ncontract A5 {\n    uint256 private hidden;\n\n    function m(uint256 a, uint256 b, uint256 c) internal pure returns (uint256) {\n        return a / b * c;\n    }\n}\n",
    // 6: NO pragma at all; UnprotectedSelfdestruct through the `suicide` alias only (the word selfdestruct does not occur), OptimalComparison
    "contract A6 {\n    address payable owner;\n\n    function kill() public {\n        suicide(owner);\n    }\n\n    function cmp(uint256 x, uint256 y) public pure returns (bool) {\n        return x >= y;\n    }\n}\n",
    // 7: NO pragma at all; UnsafeERC20Operation, DivideBeforeMultiply, ConstructorOrder
    "interface IT7 {\n    function approve(address to, uint256 v) external returns (bool);\n}\n\ncontract A7 {\n    uint256 v;\n\n    function f(address t, address a, uint256 b, uint256 c) public returns (uint256) {\n        IT7(t).approve(a, b);\n        return a == address(0) ? 0 : b / c * 3;\n    }\n\n    constructor() {\n        v = 1;\n    }\n}\n",
    // 8: no contract, library or interface at all: a caret pragma and file-level types / constants / a free function (FloatingPragma, OptimalComparison)
    "pragma solidity ^0.8.0;\n\nstruct Position {\n    uint128 a;\n    uint128 b;\n}\n\nenum Side { Long, Short }\n\nuint256 constant MAX = 10;\n\nfunction atLeast(uint256 x, uint256 y) pure returns (bool) {\n    return x >= y;\n}\n",
    // 9: white space and line breaks only (parses to an empty source unit: no finding, and nothing of it may leak into the next file)
    "\n\n   \n\t\n\n\n",
    // 10 and 11: two sources of EXACTLY the same byte length with different findings (OptimalComparison / PayableFunction lines differ)
    "pragma solidity 0.8.17;\n\ncontract E {\n    function f(uint256 x, uint256 y) public pure returns (bool) {\n        return x >= y;\n    }\n}\n",
    "pragma solidity 0.8.17;\n\ncontract E {\n\n    function f(uint256 x, uint256 y) public pure returns (bool) {\n        return x > y;\n    }\n}\n",
    // 12: an ordinary source that merely MENTIONS test tooling (an import path and a comment): eligibility is decided by the name alone
    "pragma solidity ^0.8.0;\n\n// helpers shared with forge-std/Test.sol and hardhat/console.sol\nimport \"forge-std/Test.sol\";\n\ncontract A12 {\n    uint256 private hidden;\n\n    function _cmp(uint256 x, uint256 y) public pure returns (bool) {\n        return x >= y;\n    }\n}\n",
];

#[derive(Clone, Copy, PartialEq, Eq, PartialOrd, Ord, Hash, Debug)]
enum Content {
    Src(usize),
    /// all 256 byte values, NULs included
    Bin,
    /// looks like Solidity but is not valid UTF-8
    BadUtf8,
    /// valid UTF-8 that does not parse
    Garbage,
    Empty,
}

impl Content {
    fn code(&self) -> String {
        match self {
            Content::Src(k) => format!("s{}", k),
            Content::Bin => "jb".into(),
            Content::BadUtf8 => "ju".into(),
            Content::Garbage => "jg".into(),
            Content::Empty => "je".into(),
        }
    }
    fn parse(s: &str) -> Option<Content> {
        match s {
            "jb" => Some(Content::Bin),
            "ju" => Some(Content::BadUtf8),
            "jg" => Some(Content::Garbage),
            "je" => Some(Content::Empty),
            _ => {
                let k: usize = s.strip_prefix('s')?.parse().ok()?;
                if k < SOURCES.len() {
                    Some(Content::Src(k))
                } else {
                    None
                }
            }
        }
    }
    fn bytes(&self) -> Vec<u8> {
        match self {
            Content::Src(k) => SOURCES[*k].as_bytes().to_vec(),
            Content::Bin => (0..=255u8).chain([0u8, 0, 0xff, 0xfe, 0x7f, 0x0a, 0x0d]).collect(),
            Content::BadUtf8 => b"pragma solidity ^0.8.0;\ncontract X { uint256 \xff\xfe\xc3\x28; }\n".to_vec(),
            Content::Garbage => "pragma solidity ^0.8.0;\ncontract { this is ((( not Solidity ]] \u{1F600}\nfunction function\n".as_bytes().to_vec(),
            Content::Empty => vec![],
        }
    }
}

/// C16's definition, taken from the property text
fn eligible(name: &str) -> bool {
    name.ends_with(".sol") && !name.to_lowercase().ends_with(".t.sol")
}

// ------------------------------------------------------------------------------------------------
// the oracle: the real per-file entry points, evaluated once per (source, pattern)
// ------------------------------------------------------------------------------------------------

struct Oracle {
    /// [source][category][index] -> Some(line set) | None when the per-file entry point itself panics
    table: Vec<Vec<Vec<Option<Vec<i64>>>>>,
    /// patterns whose per-file entry point panics on one of the fixed sources: never selected
    excluded: Vec<Pat>,
    /// (source, pattern) whose result depends on the file_number argument
    file_number_matters: Vec<(usize, Pat)>,
}

impl Oracle {
    fn build() -> Oracle {
        let mut table = vec![];
        let mut excluded = vec![];
        let mut fnm = vec![];
        for (si, src) in SOURCES.iter().enumerate() {
            let mut per_cat = vec![];
            for cat in 0..3u8 {
                let mut v = vec![];
                for i in 0..n_pats(cat) {
                    let p = Pat(cat, i as u8);
                    let a = guarded(|| real_file(p, src, 0)).ok();
                    for other in [1usize, 7, 4096] {
                        let b = guarded(|| real_file(p, src, other)).ok();
                        if a != b && !fnm.contains(&(si, p)) {
                            fnm.push((si, p));
                        }
                    }
                    if a.is_none() && !excluded.contains(&p) {
                        excluded.push(p);
                    }
                    v.push(a);
                }
                per_cat.push(v);
            }
            table.push(per_cat);
        }
        Oracle { table, excluded, file_number_matters: fnm }
    }
    fn lines(&self, src: usize, p: Pat) -> &[i64] {
        match self.table[src][p.0 as usize].get(p.1 as usize) {
            Some(Some(v)) => v,
            _ => &[],
        }
    }
    fn all(&self, cat: u8) -> Vec<Pat> {
        (0..n_pats(cat)).map(|i| Pat(cat, i as u8)).filter(|p| !self.excluded.contains(p)).collect()
    }
    fn spec(&self, cat: u8, pats: &[Pat]) -> String {
        if pats == self.all(cat).as_slice() {
            format!("{}:*", CAT_NAMES[cat as usize])
        } else {
            format!("{}:{}", CAT_NAMES[cat as usize], pats.iter().map(|p| pat_name(*p)).collect::<Vec<_>>().join(","))
        }
    }
    /// "optimizations:*;qa:ConstructorOrder,PrivateVarsLeadingUnderscore;vulnerabilities:" (empty set)
    fn parse_spec(&self, s: &str) -> Result<Vec<(u8, Vec<Pat>)>, String> {
        let mut out = vec![];
        for part in s.split(';').map(|x| x.trim()).filter(|x| !x.is_empty()) {
            let (c, ps) = part.split_once(':').ok_or_else(|| format!("bad pattern spec {:?}", part))?;
            let cat = CAT_NAMES.iter().position(|n| *n == c).ok_or_else(|| format!("unknown category {:?}", c))? as u8;
            if ps == "*" {
                out.push((cat, self.all(cat)));
                continue;
            }
            let mut v = vec![];
            for name in ps.split(',').filter(|x| !x.is_empty()) {
                let i = (0..n_pats(cat)).find(|i| pat_name(Pat(cat, *i as u8)) == name).ok_or_else(|| format!("unknown pattern {:?}", name))?;
                v.push(Pat(cat, i as u8));
            }
            out.push((cat, v));
        }
        Ok(out)
    }
    fn describe_sources(&self) -> J {
        let mut rows = vec![];
        for si in 0..SOURCES.len() {
            let mut f = vec![];
            for cat in 0..3u8 {
                for p in self.all(cat) {
                    let l = self.lines(si, p);
                    if !l.is_empty() {
                        f.push(format!("{}{:?}", pat_name(p), l));
                    }
                }
            }
            rows.push((format!("s{}", si), J::s(f.join(" "))));
        }
        J::Obj(rows)
    }
}

// ------------------------------------------------------------------------------------------------
// trees: model, text format, building, observing
// ------------------------------------------------------------------------------------------------

#[derive(Clone, Copy, PartialEq, Eq, Debug)]
enum Kind {
    Dir,
    File(Content),
}

#[derive(Clone, Debug)]
struct Ent {
    /// relative path, components separated by '/'
    path: String,
    kind: Kind,
}

/// entries in CREATION order
#[derive(Clone, Debug)]
struct Tree {
    ents: Vec<Ent>,
}

fn enc(path: &str) -> String {
    let mut o = String::new();
    for b in path.bytes() {
        if b.is_ascii_alphanumeric() || b == b'.' || b == b'_' || b == b'-' || b == b'/' || b == b'~' {
            o.push(b as char);
        } else {
            o.push_str(&format!("%{:02X}", b));
        }
    }
    o
}

fn dec(s: &str) -> Result<String, String> {
    let b = s.as_bytes();
    let mut out = vec![];
    let mut i = 0;
    while i < b.len() {
        if b[i] == b'%' {
            let h = s.get(i + 1..i + 3).ok_or("truncated escape")?;
            out.push(u8::from_str_radix(h, 16).map_err(|_| "bad escape".to_string())?);
            i += 3;
        } else {
            out.push(b[i]);
            i += 1;
        }
    }
    String::from_utf8(out).map_err(|_| "name is not valid UTF-8".to_string())
}

fn base_name(path: &str) -> &str {
    path.rsplit('/').next().unwrap_or(path)
}

impl Tree {
    /// `<code>:<path>|<code>:<path>|..`  code: d = directory, s<k> = fixed source k, jb/ju/jg/je = binary / invalid
    /// UTF-8 / unparseable text / empty; path bytes outside [A-Za-z0-9._~/-] are %XX-escaped; order = creation order.
    fn ser(&self) -> String {
        self.ents
            .iter()
            .map(|e| {
                let c = match e.kind {
                    Kind::Dir => "d".to_string(),
                    Kind::File(c) => c.code(),
                };
                format!("{}:{}", c, enc(&e.path))
            })
            .collect::<Vec<_>>()
            .join("|")
    }
    fn parse(s: &str) -> Result<Tree, String> {
        let mut ents: Vec<Ent> = vec![];
        for part in s.trim().split('|').filter(|x| !x.is_empty()) {
            let (c, p) = part.split_once(':').ok_or_else(|| format!("bad entry {:?}", part))?;
            let path = dec(p)?;
            if path.is_empty() || path.split('/').any(|x| x.is_empty() || x == "." || x == "..") {
                return Err(format!("bad path {:?}", path));
            }
            let kind = if c == "d" { Kind::Dir } else { Kind::File(Content::parse(c).ok_or_else(|| format!("bad content code {:?}", c))?) };
            if let Kind::File(ct) = kind {
                if eligible(base_name(&path)) && !matches!(ct, Content::Src(_)) {
                    return Err(format!("{:?} is an eligible file: it must carry one of the fixed sources", path));
                }
            }
            if ents.iter().any(|e| e.path == path) {
                return Err(format!("duplicate path {:?}", path));
            }
            ents.push(Ent { path, kind });
        }
        Ok(Tree { ents })
    }
    /// identity of the tree irrespective of creation order
    fn canonical(&self) -> String {
        let mut t = self.clone();
        t.ents.sort_by(|a, b| a.path.cmp(&b.path));
        t.ser()
    }
    fn strip_ineligible(&self) -> Tree {
        Tree {
            ents: self
                .ents
                .iter()
                .filter(|e| match e.kind {
                    Kind::Dir => true,
                    Kind::File(_) => eligible(base_name(&e.path)),
                })
                .cloned()
                .collect(),
        }
    }
    fn has_ineligible(&self) -> bool {
        self.ents.iter().any(|e| matches!(e.kind, Kind::File(_)) && !eligible(base_name(&e.path)))
    }
}

static SCRATCH_N: AtomicUsize = AtomicUsize::new(0);

struct Scratch(PathBuf);

impl Scratch {
    fn new() -> Scratch {
        let n = SCRATCH_N.fetch_add(1, Ordering::SeqCst);
        let p = std::env::temp_dir().join(format!("vxn-{}-d{}", std::process::id(), n));
        let _ = fs::remove_dir_all(&p);
        fs::create_dir_all(&p).expect("cannot create scratch directory");
        Scratch(p)
    }
    fn path(&self) -> &Path {
        &self.0
    }
    fn path_str(&self) -> String {
        self.0.to_str().expect("temp dir path is not UTF-8").to_string()
    }
}

impl Drop for Scratch {
    fn drop(&mut self) {
        let _ = fs::remove_dir_all(&self.0);
    }
}

fn build(tree: &Tree, root: &Path) -> Result<(), String> {
    for e in &tree.ents {
        let p = root.join(&e.path);
        match e.kind {
            Kind::Dir => fs::create_dir_all(&p).map_err(|x| format!("mkdir {:?}: {}", p, x))?,
            Kind::File(c) => {
                if let Some(parent) = p.parent() {
                    fs::create_dir_all(parent).map_err(|x| format!("mkdir {:?}: {}", parent, x))?;
                }
                fs::write(&p, c.bytes()).map_err(|x| format!("write {:?}: {}", p, x))?;
            }
        }
    }
    Ok(())
}

/// a tree as the file system lists it: children in fs::read_dir order
#[derive(Clone, Debug)]
struct Node {
    name: String,
    rel: String,
    kind: Kind,
    kids: Vec<Node>,
}

impl Node {
    fn is_dir(&self) -> bool {
        self.kind == Kind::Dir
    }
}

fn observe(root: &Path, rel: &str, index: &HashMap<String, Kind>) -> Result<Vec<Node>, String> {
    observe_with(root, rel, index, false)
}

/// `follow`: a symbolic link to a directory counts as a directory (what Path::is_dir says)
fn observe_with(root: &Path, rel: &str, index: &HashMap<String, Kind>, follow: bool) -> Result<Vec<Node>, String> {
    let dir = if rel.is_empty() { root.to_path_buf() } else { root.join(rel) };
    let mut out = vec![];
    for ent in fs::read_dir(&dir).map_err(|e| format!("read_dir {:?}: {}", dir, e))? {
        let ent = ent.map_err(|e| format!("read_dir entry: {}", e))?;
        let name = ent.file_name().to_str().ok_or("non UTF-8 name in scratch tree")?.to_string();
        let r = if rel.is_empty() { name.clone() } else { format!("{}/{}", rel, name) };
        let is_dir = if follow { ent.path().is_dir() } else { ent.file_type().map_err(|e| e.to_string())?.is_dir() };
        let kind = match index.get(&r) {
            Some(k) => *k,
            None if is_dir => Kind::Dir, // implicit parent of an entry
            None => return Err(format!("unexpected file {:?} in scratch tree", r)),
        };
        if is_dir != (kind == Kind::Dir) {
            return Err(format!("{:?} has the wrong type on disk", r));
        }
        let kids = if is_dir { observe_with(root, &r, index, follow)? } else { vec![] };
        out.push(Node { name, rel: r, kind, kids });
    }
    Ok(out)
}

fn build_and_observe(tree: &Tree, sc: &Scratch) -> Result<Vec<Node>, String> {
    build(tree, sc.path())?;
    let index: HashMap<String, Kind> = tree.ents.iter().map(|e| (e.path.clone(), e.kind)).collect();
    let nodes = observe(sc.path(), "", &index)?;
    let mut seen = 0usize;
    fn count(ns: &[Node], index: &HashMap<String, Kind>, seen: &mut usize) {
        for n in ns {
            if index.contains_key(&n.rel) {
                *seen += 1;
            }
            count(&n.kids, index, seen);
        }
    }
    count(&nodes, &index, &mut seen);
    if seen != index.len() {
        return Err("scratch tree differs from the intended tree".into());
    }
    Ok(nodes)
}

/// "a.sol lib(b.sol c.t.sol) z.sol" : names in listing order
fn signature(ns: &[Node]) -> String {
    ns.iter().map(|n| if n.is_dir() { format!("{}({})", n.name, signature(&n.kids)) } else { n.name.clone() }).collect::<Vec<_>>().join(" ")
}

#[derive(Clone, Debug)]
struct FileRef {
    rel: String,
    name: String,
    content: Content,
}

fn files_of(ns: &[Node], out: &mut Vec<FileRef>) {
    for n in ns {
        match n.kind {
            Kind::Dir => files_of(&n.kids, out),
            Kind::File(c) => out.push(FileRef { rel: n.rel.clone(), name: n.name.clone(), content: c }),
        }
    }
}

/// findings the contract expects from this file for p (empty for ineligible files)
fn file_lines<'a>(orc: &'a Oracle, name: &str, c: Content, p: Pat) -> &'a [i64] {
    match c {
        Content::Src(k) if eligible(name) => orc.lines(k, p),
        _ => &[],
    }
}

fn node_has(n: &Node, p: Pat, orc: &Oracle) -> bool {
    match n.kind {
        Kind::File(c) => !file_lines(orc, &n.name, c, p).is_empty(),
        Kind::Dir => n.kids.iter().any(|k| node_has(k, p, orc)),
    }
}

fn node_pats(n: &Node, orc: &Oracle, all: &[Pat]) -> BTreeSet<Pat> {
    all.iter().cloned().filter(|p| node_has(n, *p, orc)).collect()
}

/// listing interleavings (of entries that share a pattern with findings) observed in this tree
fn coverage(kids: &[Node], depth: usize, orc: &Oracle, all: &[Pat], out: &mut BTreeSet<String>) {
    let lvl = if depth == 0 { "root" } else { "nested" };
    let rs: Vec<(bool, BTreeSet<Pat>)> = kids.iter().map(|k| (k.is_dir(), node_pats(k, orc, all))).collect();
    let n = rs.len();
    for i in 0..n {
        for j in i + 1..n {
            let ij: BTreeSet<Pat> = rs[i].1.intersection(&rs[j].1).cloned().collect();
            if ij.is_empty() {
                continue;
            }
            let c = match (rs[i].0, rs[j].0) {
                (false, true) => "file-before-dir",
                (true, false) => "dir-before-file",
                (true, true) => "dir-before-dir",
                (false, false) => "file-before-file",
            };
            out.insert(format!("{}:{}", lvl, c));
            for k in j + 1..n {
                if ij.intersection(&rs[k].1).next().is_none() {
                    continue;
                }
                match (rs[i].0, rs[j].0, rs[k].0) {
                    (false, true, false) => {
                        out.insert(format!("{}:file-dir-file", lvl));
                    }
                    (true, false, true) => {
                        out.insert(format!("{}:dir-file-dir", lvl));
                    }
                    _ => {}
                }
            }
        }
    }
    for k in kids {
        if k.is_dir() {
            if k.kids.is_empty() {
                out.insert("empty-sub-directory".into());
            }
            if k.name.to_lowercase().contains(".sol") {
                out.insert("directory-named-like-a-file".into());
            }
            coverage(&k.kids, depth + 1, orc, all, out);
        }
    }
}

const REQUIRED_INTERLEAVINGS: [&str; 4] = ["file-before-dir", "dir-before-file", "file-dir-file", "dir-file-dir"];

// ------------------------------------------------------------------------------------------------
// C03: comparison with the union of the per-file results
// ------------------------------------------------------------------------------------------------

struct Disc {
    key: String,
    what: String,
    expected: String,
    actual: String,
}

fn fmt_entries(l: &[(String, Vec<i64>)]) -> String {
    let mut v: Vec<String> = l.iter().map(|(n, s)| format!("{:?}{:?}", n, s)).collect();
    v.sort();
    format!("[{}]", v.join(", "))
}

static PROBE_CACHE: Mutex<Option<HashMap<String, bool>>> = Mutex::new(None);

/// Is the file reported when it is the ONLY file of the tree (same relative path)? Separates "never analysed"
/// (a selection matter) from "analysed but lost on the way up" (a merge matter).
fn reported_when_alone(f: &FileRef, cat: u8, orc: &Oracle) -> bool {
    let key = format!("{}|{}|{}", f.rel, f.content.code(), cat);
    if let Some(v) = PROBE_CACHE.lock().unwrap().get_or_insert_with(HashMap::new).get(&key) {
        return *v;
    }
    let pats = orc.all(cat);
    let sc = Scratch::new();
    let t = Tree { ents: vec![Ent { path: f.rel.clone(), kind: Kind::File(f.content) }] };
    let present = match build(&t, sc.path()) {
        Err(_) => true,
        Ok(()) => match guarded(|| real_dir(cat, &sc.path_str(), &pats)) {
            Ok(res) => res.iter().any(|(_, _, l)| l.iter().any(|(n, _)| *n == f.name)),
            Err(_) => false,
        },
    };
    PROBE_CACHE.lock().unwrap().get_or_insert_with(HashMap::new).insert(key, present);
    present
}

/// When the file is reported at the top level but not under a neutral chain x/x/../ of its own depth, the depth is
/// what matters: returns the smallest depth (number of directories above the file) at which it is no longer reported.
fn smallest_failing_depth(f: &FileRef, cat: u8, orc: &Oracle) -> Option<usize> {
    let depth = f.rel.matches('/').count();
    if depth == 0 {
        return None;
    }
    let at = |d: usize| FileRef { rel: format!("{}{}", "x/".repeat(d), f.name), name: f.name.clone(), content: f.content };
    if !reported_when_alone(&at(0), cat, orc) || reported_when_alone(&at(depth), cat, orc) {
        return None;
    }
    (1..=depth).find(|d| !reported_when_alone(&at(*d), cat, orc))
}

/// Some file carrying (name, lines) for p whose findings were accumulated BEFORE a later-listed sub-directory
/// that also has findings for p: returns (file, that sub-directory)
fn replaced_witness(kids: &[Node], p: Pat, name: &str, lines: &[i64], orc: &Oracle) -> Option<(String, String)> {
    fn carries(n: &Node, p: Pat, name: &str, lines: &[i64], orc: &Oracle) -> Option<String> {
        match n.kind {
            Kind::File(c) => {
                if n.name == name && file_lines(orc, &n.name, c, p) == lines {
                    Some(n.rel.clone())
                } else {
                    None
                }
            }
            Kind::Dir => n.kids.iter().find_map(|k| carries(k, p, name, lines, orc)),
        }
    }
    for (i, k) in kids.iter().enumerate() {
        if let Some(f) = carries(k, p, name, lines, orc) {
            if let Some(s) = kids[i + 1..].iter().find(|s| s.is_dir() && node_has(s, p, orc)) {
                return Some((f, s.rel.clone()));
            }
        }
        if k.is_dir() {
            if let Some(w) = replaced_witness(&k.kids, p, name, lines, orc) {
                return Some(w);
            }
        }
    }
    None
}

fn check_c03(dir: &str, nodes: &[Node], cat: u8, pats: &[Pat], orc: &Oracle) -> Vec<Disc> {
    let cname = CAT_NAMES[cat as usize];
    let mut out: Vec<Disc> = vec![];
    let mut files = vec![];
    files_of(nodes, &mut files);
    for f in &files {
        if let Content::Src(k) = f.content {
            if let Some((_, p)) = orc.file_number_matters.iter().find(|(s, p)| *s == k && pats.contains(p)) {
                out.push(Disc {
                    key: "c03:file-number-matters".into(),
                    what: format!("{}: the per-file result for {} depends on the file_number argument (source s{})", cname, pat_name(*p), k),
                    expected: "analyze_for_*(src, n, p) independent of n".into(),
                    actual: "differs between n = 0 and another n".into(),
                });
            }
        }
    }
    let actual = match guarded(|| real_dir(cat, dir, pats)) {
        Ok(a) => a,
        Err(msg) => {
            out.push(Disc {
                key: format!("c03:panic:{}", panic_kind(&msg)),
                what: format!("{}: analyze_dir panics on a tree whose eligible files are all analysable one by one", cname),
                expected: "a result".into(),
                actual: format!("panic: {}", msg.chars().take(300).collect::<String>()),
            });
            return out;
        }
    };
    // expected[p] = multiset of (file name, lines)
    let mut expected: BTreeMap<Pat, Entries> = BTreeMap::new();
    for f in &files {
        for p in pats {
            let l = file_lines(orc, &f.name, f.content, *p);
            if !l.is_empty() {
                expected.entry(*p).or_default().push((f.name.clone(), l.to_vec()));
            }
        }
    }
    let mut act: BTreeMap<Pat, Entries> = BTreeMap::new();
    for (p, pname, list) in &actual {
        if !pats.contains(p) {
            out.push(Disc {
                key: "c03:unselected-pattern-in-result".into(),
                what: format!("{}: the result has the key {} which was not selected", cname, pname),
                expected: format!("keys within {}", orc.spec(cat, pats)),
                actual: format!("{} -> {}", pname, fmt_entries(list)),
            });
            continue;
        }
        if list.is_empty() {
            out.push(Disc {
                key: "c03:empty-list".into(),
                what: format!("{}: {} maps to an empty list", cname, pname),
                expected: "no key without findings".into(),
                actual: format!("{} -> []", pname),
            });
        }
        act.entry(*p).or_default().extend(list.iter().cloned());
    }
    let empty: Entries = vec![];
    for p in pats {
        let e = expected.get(p).unwrap_or(&empty);
        let a = act.get(p).unwrap_or(&empty);
        let mut counts: BTreeMap<(String, Vec<i64>), (usize, usize)> = BTreeMap::new();
        for x in e {
            counts.entry(x.clone()).or_default().0 += 1;
        }
        for x in a {
            counts.entry(x.clone()).or_default().1 += 1;
        }
        if counts.values().all(|(x, y)| x == y) {
            continue;
        }
        let es = format!("{} -> {}", pat_name(*p), fmt_entries(e));
        let as_ = format!("{} -> {}", pat_name(*p), fmt_entries(a));
        let mut wrong_lines: Vec<String> = vec![];
        for ((name, lines), (ne, na)) in &counts {
            if na <= ne {
                continue;
            }
            let (key, what) = if *ne > 0 {
                ("c03:duplicate-entry".to_string(), format!("({:?}, {:?}) is reported {} times for {} file(s)", name, lines, na, ne))
            } else if files.iter().any(|f| f.name == *name && !eligible(&f.name)) {
                ("c03:ineligible-file-in-result".to_string(), format!("{:?} is not an eligible file but is reported", name))
            } else if e.iter().any(|(n, _)| n == name) {
                wrong_lines.push(name.clone());
                ("c03:wrong-line-set".to_string(), format!("{:?} is reported with lines {:?}, analysed on its own it yields other lines", name, lines))
            } else {
                ("c03:unexpected-entry".to_string(), format!("({:?}, {:?}) is reported but no eligible file yields it", name, lines))
            };
            out.push(Disc { key, what: format!("{}/{}: {}", cname, pat_name(*p), what), expected: es.clone(), actual: as_.clone() });
        }
        for ((name, lines), (ne, na)) in &counts {
            if na >= ne || wrong_lines.contains(name) {
                continue;
            }
            let never: Vec<&FileRef> = files
                .iter()
                .filter(|f| f.name == *name && file_lines(orc, &f.name, f.content, *p) == lines.as_slice())
                .filter(|f| !reported_when_alone(f, cat, orc))
                .collect();
            let (key, what) = if let Some(f) = never.first() {
                match never.iter().filter_map(|f| smallest_failing_depth(f, cat, orc)).min() {
                    Some(n) => (
                        format!("c03:missing-entry:file-never-analysed:below-depth-{}", n),
                        format!("({:?}, {:?}) is missing: {:?} is not reported even when it is the only file of the tree; the same file alone under a chain of directories x/x/.. is reported with up to {} directories above it and no longer with {}", name, lines, f.rel, n - 1, n),
                    ),
                    None => ("c03:missing-entry:file-never-analysed".to_string(), format!("({:?}, {:?}) is missing, and {:?} is not reported even when it is the only file of the tree", name, lines, f.rel)),
                }
            } else if let Some((f, s)) = replaced_witness(nodes, *p, name, lines, orc) {
                (
                    "c03:subdir-result-replaces-parent-entries".to_string(),
                    format!("the findings of {:?} are gone: the sub-directory {:?}, listed later in the same directory, also has findings for the pattern and its result replaced what had been accumulated", f, s),
                )
            } else {
                ("c03:missing-entry".to_string(), format!("({:?}, {:?}) is missing ({} expected, {} reported) although the file is reported when it is the only file of the tree", name, lines, ne, na))
            };
            out.push(Disc { key, what: format!("{}/{}: {}", cname, pat_name(*p), what), expected: es.clone(), actual: as_.clone() });
        }
    }
    out
}

// ------------------------------------------------------------------------------------------------
// C16: ineligible files are inert, eligible ones are analysed
// ------------------------------------------------------------------------------------------------

/// why an eligible file may have been passed over; `fine_at_top` = the same file IS analysed at the top level
fn skip_reason(rel: &str, fine_at_top: bool) -> String {
    let name = base_name(rel);
    let lower = name.to_lowercase();
    let stem = &lower[..lower.len().saturating_sub(4)];
    if fine_at_top {
        if rel[..rel.len() - name.len()].to_lowercase().contains(".sol") {
            "inside-directory-named-like-a-file".into()
        } else {
            "inside-sub-directory".into()
        }
    } else if lower.contains(".t.sol") {
        "t-sol-inside-name".into()
    } else if name == ".sol" {
        "name-is-only-the-extension".into()
    } else if stem.contains(".sol") {
        "sol-twice-in-name".into()
    } else if !name.is_ascii() || name.contains(' ') {
        "name-with-space-or-non-ascii".into()
    } else {
        "plain-name".into()
    }
}

fn ineligible_class(name: &str) -> &'static str {
    let lower = name.to_lowercase();
    if name.ends_with(".t.sol") {
        "foundry-test-file"
    } else if lower.ends_with(".t.sol") {
        "foundry-test-file-other-letter-case"
    } else if lower.ends_with(".sol") {
        "extension-in-other-letter-case"
    } else if lower.contains(".sol") {
        "sol-not-at-the-end"
    } else {
        "other-name"
    }
}

fn normalise(res: &[(Pat, String, Entries)]) -> BTreeMap<String, Vec<(String, Vec<i64>)>> {
    let mut m: BTreeMap<String, Vec<(String, Vec<i64>)>> = BTreeMap::new();
    for (_, pname, l) in res {
        if l.is_empty() {
            continue;
        }
        let e = m.entry(pname.clone()).or_default();
        e.extend(l.iter().cloned());
        e.sort();
    }
    m
}

fn fmt_map(m: &BTreeMap<String, Vec<(String, Vec<i64>)>>) -> String {
    let s = m.iter().map(|(k, v)| format!("{} -> {}", k, fmt_entries(v))).collect::<Vec<_>>().join("; ");
    if s.is_empty() {
        "(no findings at all)".to_string()
    } else if s.chars().count() > 900 {
        format!("{}...", s.chars().take(900).collect::<String>())
    } else {
        s
    }
}

/// returns (discrepancies, note when the case had to be skipped)
fn check_c16(full_dir: &str, stripped_dir: &str, files: &[FileRef], cat: u8, pats: &[Pat], orc: &Oracle) -> (Vec<Disc>, Option<String>) {
    let cname = CAT_NAMES[cat as usize];
    let mut out = vec![];
    let stripped = match guarded(|| real_dir(cat, stripped_dir, pats)) {
        Ok(r) => r,
        Err(m) => return (out, Some(format!("the tree without ineligible files already panics ({}): not a C16 matter", panic_kind(&m)))),
    };
    let full = match guarded(|| real_dir(cat, full_dir, pats)) {
        Ok(r) => r,
        Err(m) => {
            let culprits: Vec<String> = files.iter().filter(|f| !eligible(&f.name)).map(|f| format!("{} ({})", f.rel, f.content.code())).collect();
            out.push(Disc {
                key: format!("c16:panic:{}", panic_kind(&m)),
                what: format!("{}: analyze_dir panics only when the ineligible files are present: {}", cname, culprits.join(", ")),
                expected: "same result as without the ineligible files".into(),
                actual: format!("panic: {}", m.chars().take(300).collect::<String>()),
            });
            return (out, None);
        }
    };
    let nf = normalise(&full);
    let ns = normalise(&stripped);
    let mut explained = false;
    for (_, pname, l) in &full {
        for (name, lines) in l {
            if !eligible(name) && files.iter().any(|f| f.name == *name) {
                explained = true;
                out.push(Disc {
                    key: format!("c16:ineligible-file-analysed:{}", ineligible_class(name)),
                    what: format!("{}: {:?} is not an eligible file name but it was analysed ({} lines {:?})", cname, name, pname, lines),
                    expected: fmt_map(&ns),
                    actual: fmt_map(&nf),
                });
            }
        }
    }
    if nf != ns && !explained {
        out.push(Disc {
            key: "c16:ineligible-file-changes-result".into(),
            what: format!("{}: the result differs from the result on the same tree without its ineligible files", cname),
            expected: fmt_map(&ns),
            actual: fmt_map(&nf),
        });
    }
    let mut deferred = None;
    for f in files {
        let k = match f.content {
            Content::Src(k) if eligible(&f.name) => k,
            _ => continue,
        };
        if !pats.iter().any(|p| !orc.lines(k, *p).is_empty()) {
            continue;
        }
        if full.iter().any(|(_, _, l)| l.iter().any(|(n, _)| *n == f.name)) {
            continue;
        }
        if reported_when_alone(f, cat, orc) {
            deferred = Some("an eligible file is reported when it is the only file of the tree but lost in this tree: a merge matter (C03), not a selection matter".to_string());
            continue;
        }
        out.push(Disc {
            key: format!(
                "c16:eligible-file-skipped:{}",
                match smallest_failing_depth(f, cat, orc) {
                    Some(n) => format!("below-depth-{}", n),
                    None => skip_reason(&f.rel, f.rel.contains('/') && reported_when_alone(&FileRef { rel: f.name.clone(), name: f.name.clone(), content: f.content }, cat, orc)),
                }
            ),
            what: format!("{}: {:?} ends in \".sol\" and is not a \".t.sol\" file, it has findings when analysed on its own, but analyze_dir never reports it, not even as the only file of the tree", cname, f.rel),
            expected: format!("{:?} analysed", f.name),
            actual: fmt_map(&nf),
        });
    }
    (out, deferred)
}

// ------------------------------------------------------------------------------------------------
// generator: shapes, names chosen for a listing order, contents
// ------------------------------------------------------------------------------------------------

#[derive(Clone, Debug)]
enum Sh {
    F,
    D(Vec<Sh>),
}

/// ordered forests with exactly k entries; directories may nest `dl` more levels
fn forests(k: usize, dl: usize, memo: &mut HashMap<(usize, usize), Vec<Vec<Sh>>>) -> Vec<Vec<Sh>> {
    if k == 0 {
        return vec![vec![]];
    }
    if let Some(v) = memo.get(&(k, dl)) {
        return v.clone();
    }
    let mut out = vec![];
    for rest in forests(k - 1, dl, memo) {
        let mut v = vec![Sh::F];
        v.extend(rest);
        out.push(v);
    }
    if dl > 0 {
        for j in 0..k {
            let inner = forests(j, dl - 1, memo);
            let rest = forests(k - 1 - j, dl, memo);
            for i in &inner {
                for r in &rest {
                    let mut v = vec![Sh::D(i.clone())];
                    v.extend(r.iter().cloned());
                    out.push(v);
                }
            }
        }
    }
    memo.insert((k, dl), out.clone());
    out
}

const PLAIN_ELIGIBLE: [&str; 22] = [
    "a.sol", "b.sol", "c.sol", "k.sol", "m.sol", "Token.sol", "Vault.sol", "ERC20.sol", "my token.sol", "na\u{ef}ve.sol", "\u{5408}\u{7ea6}.sol", "z9.sol",
    "f0.sol", "f1.sol", "f2.sol", "f3.sol", "f4.sol", "f5.sol", "f6.sol", "f7.sol", "f8.sol", "f9.sol",
];
/// eligible by the property text, each for a different reason close to the border
const CORNER_ELIGIBLE: [&str; 14] = [
    "notes on a.sol", "x.t.sol.bak.sol", "t.sol", ".sol", "at.sol", "a.t.sol.sol", "A.T.Sol.sol", "a.SOL.sol", "a..sol", "my.t.sol copy.sol", "x.T.SOL.old.sol", "\u{e9}.t.sol.\u{e9}.sol", "a.tsol.sol", "a.sol.sol",
];
const INELIGIBLE: [&str; 26] = [
    "a.t.sol", "A.T.Sol", "a.T.SOL", "b.T.sol", "c.t.Sol", ".t.sol", "A.SOL", "a.Sol", "a.sol.txt", "asol", "a.sol~", "a.sol ", "sol", "a.so", "a.sol.", "a.sol.t", "x.t.sol.bak", "README.md", "a.json",
    ".gitignore", "Makefile", "my test.t.sol", "\u{fc}n\u{ef}.t.sol", "\u{5408}\u{7ea6}.SOL", "a.sol.t.sol", "x.sol.T.SOL",
];
const PLAIN_INELIGIBLE: [&str; 6] = ["a.t.sol", "README.md", "notes.txt", "A.SOL", "b.t.sol", "a.sol.txt"];
const DIR_NAMES: [&str; 26] = [
    "node_modules", "out", "test", ".git", "cache", "lib", "src", "d.sol", "d.t.sol", "D.SOL", "sub dir", "\u{5b50}", "x", "y", "z", ".hidden", "n0", "n1", "n2", "n3", "n4", "n5", "n6", "n7", "n8", "n9",
];
/// labellings (names + contents) per enumerated shape
const LABELLINGS: usize = 3;
const JUNK: [Content; 4] =[Content::Bin, Content::BadUtf8, Content::Garbage, Content::Empty];

#[derive(Clone, Copy, PartialEq, Eq)]
enum Mode {
    C03,
    C16,
}

struct Pools {
    /// class 0 = directory names, 1 = eligible file names, 2 = ineligible file names; each sorted by listing rank
    by_class: [Vec<(usize, String)>; 3],
}

/// rank of every pool name in a real listing: on a hashed directory the relative order of two names is a property
/// of the names. Also reports whether creation order changed the listing.
fn measure_ranks(names: &[String]) -> Result<(HashMap<String, usize>, bool), String> {
    let list = |order: &[String]| -> Result<Vec<String>, String> {
        let sc = Scratch::new();
        for n in order {
            fs::write(sc.path().join(n), b"").map_err(|e| format!("probe {:?}: {}", n, e))?;
        }
        let mut v = vec![];
        for e in fs::read_dir(sc.path()).map_err(|e| e.to_string())? {
            v.push(e.map_err(|e| e.to_string())?.file_name().to_str().ok_or("non UTF-8")?.to_string());
        }
        Ok(v)
    };
    let a = list(names)?;
    let mut rev = names.to_vec();
    rev.reverse();
    let b = list(&rev)?;
    Ok((a.iter().enumerate().map(|(i, n)| (n.clone(), i)).collect(), a != b))
}

fn pools(mode: Mode, ranks: &HashMap<String, usize>) -> Pools {
    let mk = |v: Vec<&str>| -> Vec<(usize, String)> {
        let mut o: Vec<(usize, String)> = v.iter().map(|n| (*ranks.get(*n).unwrap_or(&0), n.to_string())).collect();
        o.sort();
        o
    };
    let (e, i): (Vec<&str>, Vec<&str>) = match mode {
        // the union contract is about EVERY eligible file: corner-case eligible names (".sol", "t.sol", "a.t.sol.sol", ...) too
        Mode::C03 => (PLAIN_ELIGIBLE.iter().chain(CORNER_ELIGIBLE.iter()).cloned().collect(), PLAIN_INELIGIBLE.to_vec()),
        Mode::C16 => (PLAIN_ELIGIBLE[..9].iter().chain(CORNER_ELIGIBLE.iter()).cloned().collect(), INELIGIBLE.to_vec()),
    };
    Pools { by_class: [mk(DIR_NAMES.to_vec()), mk(e), mk(i)] }
}

fn all_pool_names() -> Vec<String> {
    let mut v: Vec<String> = vec![];
    for n in PLAIN_ELIGIBLE.iter().chain(CORNER_ELIGIBLE.iter()).chain(INELIGIBLE.iter()).chain(PLAIN_INELIGIBLE.iter()).chain(DIR_NAMES.iter()) {
        if !v.contains(&n.to_string()) {
            v.push(n.to_string());
        }
    }
    v
}

/// names for the children of one directory such that the listing shows them in the given class order
fn choose_names(classes: &[usize], pools: &Pools, rng: &mut Rng) -> Vec<String> {
    fn feasible(classes: &[usize], from: usize, mut prev: i64, used: &[String], pools: &Pools) -> bool {
        let mut used: Vec<String> = used.to_vec();
        for c in &classes[from..] {
            match pools.by_class[*c].iter().find(|(r, n)| (*r as i64) > prev && !used.contains(n)) {
                Some((r, n)) => {
                    prev = *r as i64;
                    used.push(n.clone());
                }
                None => return false,
            }
        }
        true
    }
    let mut chosen: Vec<String> = vec![];
    let mut prev: i64 = -1;
    for (i, c) in classes.iter().enumerate() {
        let mut cands: Vec<&(usize, String)> = vec![];
        for cand in pools.by_class[*c].iter().filter(|(r, n)| (*r as i64) > prev && !chosen.contains(n)) {
            let mut u = chosen.clone();
            u.push(cand.1.clone());
            if feasible(classes, i + 1, cand.0 as i64, &u, pools) {
                cands.push(cand);
            }
        }
        let pick = if cands.is_empty() {
            // the order cannot be realised with this pool: any free name (the observed order is what counts)
            let free: Vec<&(usize, String)> = pools.by_class[*c].iter().filter(|(_, n)| !chosen.contains(n)).collect();
            (*rng.pick(&free)).clone()
        } else {
            let w = if rng.below(2) == 0 { cands.len() } else { cands.len().min(4) };
            cands[rng.below(w)].clone()
        };
        prev = prev.max(pick.0 as i64);
        chosen.push(pick.1);
    }
    chosen
}

fn label(shape: &[Sh], prefix: &str, mode: Mode, pools: &Pools, rng: &mut Rng, out: &mut Vec<Ent>) {
    let p_inel = if mode == Mode::C03 { 5 } else { 2 };
    let classes: Vec<usize> = shape
        .iter()
        .map(|s| match s {
            Sh::D(_) => 0,
            Sh::F => {
                if rng.below(p_inel) == 0 {
                    2
                } else {
                    1
                }
            }
        })
        .collect();
    let names = choose_names(&classes, pools, rng);
    for ((s, c), name) in shape.iter().zip(classes.iter()).zip(names.iter()) {
        let path = format!("{}{}", prefix, name);
        match s {
            Sh::F => {
                // C03 trees: ineligible files hold valid sources too (being analysed must show up as an entry, not as a panic)
                let content = if *c == 1 || mode == Mode::C03 || rng.below(2) == 0 { Content::Src(rng.below(SOURCES.len())) } else { *rng.pick(&JUNK) };
                out.push(Ent { path, kind: Kind::File(content) });
            }
            Sh::D(inner) => {
                out.push(Ent { path: path.clone(), kind: Kind::Dir });
                label(inner, &format!("{}/", path), mode, pools, rng, out);
            }
        }
    }
}

fn t(spec: &[(&str, &str)]) -> Tree {
    Tree { ents: spec.iter().map(|(c, p)| Ent { path: p.to_string(), kind: if *c == "d" { Kind::Dir } else { Kind::File(Content::parse(c).unwrap()) } }).collect() }
}

struct Case {
    tree: Tree,
    /// listing the generator aimed at (None for hand-written cases)
    desired: Option<String>,
    sets: Vec<(u8, Vec<Pat>)>,
    origin: &'static str,
}

fn desired_signature(tree: &Tree) -> String {
    // entries of a labelled tree are in depth-first order of the intended listing
    fn rec(ents: &[Ent], prefix: &str) -> String {
        let mut parts = vec![];
        for e in ents {
            if let Some(rest) = e.path.strip_prefix(prefix) {
                if rest.contains('/') {
                    continue;
                }
                match e.kind {
                    Kind::Dir => parts.push(format!("{}({})", rest, rec(ents, &format!("{}/", e.path)))),
                    Kind::File(_) => parts.push(rest.to_string()),
                }
            }
        }
        parts.join(" ")
    }
    rec(&tree.ents, "")
}

fn pattern_sets(orc: &Oracle, rng: &mut Rng, idx: usize, mode: Mode) -> Vec<(u8, Vec<Pat>)> {
    let mut sets = vec![];
    for cat in 0..3u8 {
        let all = orc.all(cat);
        sets.push((cat, all.clone()));
        if mode == Mode::C16 {
            continue;
        }
        let mut sub: Vec<Pat> = all.iter().cloned().filter(|_| rng.below(2) == 0).collect();
        if sub.is_empty() && !all.is_empty() {
            sub.push(*rng.pick(&all));
        }
        if sub != all {
            sets.push((cat, sub));
        }
        // the configured ORDER of the patterns must not matter: reversed, and a seeded shuffle
        let mut rev = all.clone();
        rev.reverse();
        if rev != all {
            sets.push((cat, rev));
        }
        if idx % 3 == 0 && all.len() > 2 {
            let mut sh = all.clone();
            for i in (1..sh.len()).rev() {
                sh.swap(i, rng.below(i + 1));
            }
            if sh != all {
                sets.push((cat, sh));
            }
        }
        if idx % 7 == 0 {
            sets.push((cat, vec![]));
        }
    }
    sets
}

fn deep_depths(tier: &str) -> Vec<usize> {
    let mut v = vec![4, 8, 9, 10, 12, 16, 33, 40];
    if tier == "thorough" {
        v.extend([24, 32, 48]);
    }
    v
}

/// Deep trees ("at any depth"): an eligible file with findings under a chain of d one-letter directories, alone,
/// with sibling eligible files that share its patterns at the intermediate levels (listed before and after the next
/// directory of the chain, so the merge is exercised at every level on the way back up), and with side branches.
fn deep_family(mode: Mode, tier: &str, ranks: &HashMap<String, usize>) -> Vec<Tree> {
    let rank = |n: &str| *ranks.get(n).unwrap_or(&0);
    // a chain directory name that has plain file names on both sides of it in the listing
    let files: Vec<&str> = PLAIN_ELIGIBLE.iter().cloned().filter(|n| *n != "z9.sol" && n.is_ascii() && !n.contains(' ')).collect();
    let mut dir = "x";
    for cand in ["x", "y", "z", "n0", "n1", "n2"] {
        if files.iter().any(|f| rank(f) < rank(cand)) && files.iter().any(|f| rank(f) > rank(cand)) {
            dir = cand;
            break;
        }
    }
    let before = files.iter().cloned().filter(|f| rank(f) < rank(dir)).max_by_key(|f| rank(f)).unwrap_or("a.sol");
    let after = files.iter().cloned().filter(|f| rank(f) > rank(dir) && *f != before).min_by_key(|f| rank(f)).unwrap_or("b.sol");
    let side = if dir == "y" { "z" } else { "y" };
    let chain = |l: usize| format!("{}/", dir).repeat(l);
    let mut out = vec![];
    for d in deep_depths(tier) {
        let deepest = format!("{}z9.sol", chain(d));
        let mut variants: Vec<Vec<(String, String)>> = vec![];
        // the file alone
        variants.push(vec![("s0".into(), deepest.clone())]);
        // a sibling at every level, alternately listed before / after the next directory of the chain
        let mut v = vec![("s0".to_string(), deepest.clone())];
        for l in 0..d {
            v.push(if l % 2 == 0 { ("s2".to_string(), format!("{}{}", chain(l), before)) } else { ("s3".to_string(), format!("{}{}", chain(l), after)) });
        }
        variants.push(v);
        // siblings on both sides at the top, in the middle and just above the deepest directory
        let mut v = vec![("s0".to_string(), deepest.clone())];
        for l in [0, d / 2, d - 1] {
            v.push(("s2".to_string(), format!("{}{}", chain(l), before)));
            v.push(("s3".to_string(), format!("{}{}", chain(l), after)));
        }
        variants.push(v);
        // side branches half way down and just above the deepest directory, two files at the bottom
        variants.push(vec![
            ("s0".to_string(), deepest.clone()),
            ("s1".to_string(), format!("{}{}", chain(d), before)),
            ("s3".to_string(), format!("{}{}/{}/k.sol", chain(d / 2), side, side)),
            ("s2".to_string(), format!("{}{}/m.sol", chain(d - 1), side)),
            ("s2".to_string(), after.to_string()),
        ]);
        if mode == Mode::C16 {
            let junk = [("jg", "a.t.sol"), ("jb", "A.SOL"), ("ju", "a.sol.txt"), ("je", "b.T.sol")];
            for (i, v) in variants.iter_mut().enumerate() {
                let (c, n) = junk[(i + d) % junk.len()];
                v.push((c.to_string(), format!("{}{}", chain(d), n)));
            }
            // a border-line eligible name at the bottom, junk half way down and at the bottom
            variants.push(vec![
                ("s3".to_string(), format!("{}x.t.sol.bak.sol", chain(d))),
                ("s0".to_string(), format!("{}.sol", chain(d))),
                ("ju".to_string(), format!("{}a.sol.txt", chain(d / 2))),
                ("jg".to_string(), format!("{}my test.t.sol", chain(d))),
                ("s2".to_string(), before.to_string()),
            ]);
        }
        for v in variants {
            out.push(Tree { ents: v.into_iter().map(|(c, p)| Ent { path: p, kind: Kind::File(Content::parse(&c).unwrap()) }).collect() });
        }
    }
    out
}

fn generate(mode: Mode, tier: &str, seed: u64, orc: &Oracle, ranks: &HashMap<String, usize>) -> (Vec<Case>, usize, usize) {
    let mut rng = Rng::new(seed ^ if mode == Mode::C03 { 0x0c03 } else { 0x0c16 });
    let pl = pools(mode, ranks);
    let mut trees: Vec<(Tree, Option<String>, &'static str)> = vec![];
    // hand-written: the same name in several directories, directories named like files, empty directories
    for d in DIR_NAMES {
        let f = format!("{}/a.sol", d);
        let g = format!("{}/w.sol", d);
        trees.push((t(&[("d", d), ("s0", f.as_str()), ("s2", "k.sol")]), None, "directory-names"));
        trees.push((t(&[("s3", "c.sol"), ("s0", g.as_str()), ("s2", "Vault.sol"), ("d", d)]), None, "directory-names"));
    }
    for spec in [
        vec![("s0", "a.sol"), ("s0", "lib/a.sol")],
        vec![("s0", "a.sol"), ("s3", "lib/a.sol")],
        vec![("s0", "x/a.sol"), ("s0", "y/a.sol"), ("s0", "y/z/a.sol")],
        vec![("s0", "a.sol"), ("d", "lib"), ("d", "src/x/y")],
        vec![("d", "lib")],
        vec![("s4", "a.sol"), ("s4", "lib/b.sol")],
        vec![("s0", "x/y/z/a.sol"), ("s2", "x/y/b.sol"), ("s3", "x/c.sol"), ("s1", "k.sol")],
        // same name, same byte size, different findings
        vec![("s10", "x/Vault.sol"), ("s11", "y/Vault.sol")],
        vec![("s11", "x/Vault.sol"), ("s10", "y/Vault.sol")],
        vec![("s10", "Vault.sol"), ("s11", "lib/Vault.sol"), ("s10", "lib/x/Vault.sol")],
    ] {
        trees.push((t(&spec), None, "hand-written"));
    }
    for tree in deep_family(mode, tier, ranks) {
        trees.push((tree, None, "deep-chain"));
    }
    if mode == Mode::C03 {
        // every corner-case ELIGIBLE name with sources that have findings in all three categories, at the top and nested
        for n in CORNER_ELIGIBLE {
            let sub = format!("lib/{}", n);
            trees.push((t(&[("s1", n), ("s2", sub.as_str()), ("s0", "k.sol")]), None, "corner-eligible-names"));
            trees.push((t(&[("s5", n), ("s3", sub.as_str())]), None, "corner-eligible-names"));
        }
    }
    if mode == Mode::C16 {
        // every name of the list x every kind of content, alone, inside a sub-directory, and next to other files
        let mut names: Vec<&str> = PLAIN_ELIGIBLE[..9].to_vec();
        names.extend(CORNER_ELIGIBLE.iter());
        names.extend(INELIGIBLE.iter());
        for n in names {
            let contents: Vec<Content> =
                if eligible(n) { vec![Content::Src(0), Content::Src(1)] } else { vec![Content::Src(0), Content::Src(3), Content::Bin, Content::BadUtf8, Content::Garbage, Content::Empty] };
            for c in contents {
                let code = c.code();
                let sub = format!("lib/{}", n);
                let deep = format!("d.sol/n0/{}", n);
                let code = code.as_str();
                trees.push((t(&[(code, n)]), None, "name-x-content"));
                trees.push((t(&[(code, sub.as_str())]), None, "name-x-content"));
                trees.push((t(&[(code, n), ("s2", "k.sol"), ("s3", "lib/m.sol")]), None, "name-x-content"));
                trees.push((t(&[("s1", "b.sol"), (code, deep.as_str()), ("s2", "d.sol/k.sol")]), None, "name-x-content"));
            }
        }
    }
    // enumerated shapes, names chosen so that the listing shows the shape's order
    let n = if tier == "thorough" { 7 } else { 5 };
    let labellings = LABELLINGS;
    let mut memo = HashMap::new();
    let mut shapes = 0usize;
    // a few larger shapes aimed at interleavings INSIDE a sub-directory (beyond the entry bound, both tiers)
    let f = || Sh::F;
    let df = || Sh::D(vec![Sh::F]);
    let targeted: Vec<Vec<Sh>> = vec![
        vec![Sh::D(vec![df(), f(), df()])],
        vec![Sh::D(vec![f(), df(), f()])],
        vec![f(), Sh::D(vec![df(), f(), df()]), f()],
        vec![df(), f(), df(), f(), df()],
        vec![Sh::D(vec![Sh::D(vec![f(), df(), f(), df()])]), f()],
    ];
    for shape in &targeted {
        for _ in 0..6 {
            let mut ents = vec![];
            label(shape, "", mode, &pl, &mut rng, &mut ents);
            let tree = Tree { ents };
            let d = desired_signature(&tree);
            trees.push((tree, Some(d), "targeted-interleaving"));
        }
    }
    for k in 1..=n {
        for shape in forests(k, 3, &mut memo) {
            shapes += 1;
            for _ in 0..(if k <= 5 { 2 * labellings } else { labellings }) {
                let mut ents = vec![];
                label(&shape, "", mode, &pl, &mut rng, &mut ents);
                let tree = Tree { ents };
                let d = desired_signature(&tree);
                trees.push((tree, Some(d), "enumerated-shape"));
            }
        }
    }
    // small to large (stable), then vary the creation order
    trees.sort_by_key(|(t, _, _)| t.ents.len());
    let mut cases = vec![];
    for (idx, (mut tree, desired, origin)) in trees.into_iter().enumerate() {
        match idx % 3 {
            1 => tree.ents.reverse(),
            2 => rng.shuffle(&mut tree.ents),
            _ => {}
        }
        let sets = pattern_sets(orc, &mut rng, idx, mode);
        cases.push(Case { tree, desired, sets, origin });
    }
    (cases, shapes, n)
}

// ------------------------------------------------------------------------------------------------
// running
// ------------------------------------------------------------------------------------------------

fn par_map<C: Sync, T: Send>(cases: &[C], f: impl Fn(usize, &C) -> T + Sync) -> Vec<T> {
    let n = cases.len();
    let next = AtomicUsize::new(0);
    let out: Mutex<Vec<Option<T>>> = Mutex::new((0..n).map(|_| None).collect());
    let threads = std::thread::available_parallelism().map(|x| x.get()).unwrap_or(2).clamp(1, 8);
    std::thread::scope(|s| {
        for _ in 0..threads {
            s.spawn(|| loop {
                let i = next.fetch_add(1, Ordering::SeqCst);
                if i >= n {
                    break;
                }
                let v = f(i, &cases[i]);
                out.lock().unwrap()[i] = Some(v);
            });
        }
    });
    out.into_inner().unwrap().into_iter().map(|x| x.expect("case not executed")).collect()
}

#[derive(Default)]
struct CaseOut {
    evals: u64,
    nontrivial: Vec<String>,
    cover: BTreeSet<String>,
    viol: Vec<(Disc, Vec<String>)>,
    sample: Option<J>,
    order_realised: Option<bool>,
    notes: Vec<String>,
    harness_error: Option<String>,
}

fn all_pats(orc: &Oracle) -> Vec<Pat> {
    (0..3u8).flat_map(|c| orc.all(c)).collect()
}

fn run_case_c03(case: &Case, orc: &Oracle) -> CaseOut {
    let mut o = CaseOut::default();
    let sc = Scratch::new();
    let nodes = match build_and_observe(&case.tree, &sc) {
        Ok(n) => n,
        Err(e) => {
            o.harness_error = Some(e);
            return o;
        }
    };
    let sig = signature(&nodes);
    o.order_realised = case.desired.as_ref().map(|d| *d == sig);
    let every = all_pats(orc);
    coverage(&nodes, 0, orc, &every, &mut o.cover);
    let mut files = vec![];
    files_of(&nodes, &mut files);
    for f in &files {
        let d = f.rel.matches('/').count();
        if d >= 4 && every.iter().any(|p| !file_lines(orc, &f.name, f.content, *p).is_empty()) {
            o.cover.insert(format!("eligible-file-with-findings-at-depth:{:02}", d));
        }
    }
    let with_findings: Vec<&FileRef> = files.iter().filter(|f| every.iter().any(|p| !file_lines(orc, &f.name, f.content, *p).is_empty())).collect();
    let mut names: Vec<&str> = files.iter().map(|f| f.name.as_str()).collect();
    names.sort();
    let n_names = names.len();
    names.dedup();
    if names.len() < n_names {
        o.cover.insert("same-file-name-in-several-directories".into());
    }
    let shares = o.cover.iter().any(|c| c.starts_with("root:") || c.starts_with("nested:"));
    let crosses_dirs = with_findings.iter().any(|f| f.rel.contains('/'));
    if shares || (crosses_dirs && !with_findings.is_empty()) {
        o.nontrivial.push(case.tree.canonical());
    }
    let dir = sc.path_str();
    for (cat, pats) in &case.sets {
        let discs = check_c03(&dir, &nodes, *cat, pats, orc);
        o.evals += 1;
        for d in discs {
            o.viol.push((d, vec!["c03-case".into(), format!("@src:{}", case.tree.ser()), orc.spec(*cat, pats)]));
        }
    }
    // symlink view: a second root whose first-level directories are SYMBOLIC LINKS to the real ones (first-level files are
    // copied). Path::is_dir follows links, so the files below a linked directory are "beneath" the analysed directory like
    // any others; the same contract must hold for this root.
    #[cfg(unix)]
    {
        if nodes.iter().any(|n| n.kind == Kind::Dir) {
            let sc2 = Scratch::new();
            let mut ok = true;
            for n in &nodes {
                let from = sc.path().join(&n.name);
                let to = sc2.path().join(&n.name);
                let r = if n.kind == Kind::Dir { std::os::unix::fs::symlink(&from, &to) } else { fs::copy(&from, &to).map(|_| ()) };
                if r.is_err() {
                    ok = false;
                }
            }
            let index: HashMap<String, Kind> = case.tree.ents.iter().map(|e| (e.path.clone(), e.kind)).collect();
            if ok {
                if let Ok(nodes2) = observe_with(sc2.path(), "", &index, true) {
                    o.cover.insert("first-level-directories-as-symbolic-links".into());
                    let dir2 = sc2.path_str();
                    for (cat, pats) in &case.sets {
                        o.evals += 1;
                        for mut d in check_c03(&dir2, &nodes2, *cat, pats, orc) {
                            d.key = format!("{}:through-symlinked-directory", d.key);
                            d.what = format!("with the first-level directories replaced by symbolic links to them: {}", d.what);
                            o.viol.push((d, vec!["c03-case".into(), format!("@src:{}", case.tree.ser()), orc.spec(*cat, pats)]));
                        }
                    }
                }
            }
        }
    }
    o.sample = Some(J::obj(vec![
        ("tree", J::s(case.tree.ser())),
        ("listing_observed", J::s(sig)),
        ("origin", J::s(case.origin)),
        ("pattern_sets", J::arr_s(case.sets.iter().map(|(c, p)| orc.spec(*c, p)))),
        ("interleavings", J::arr_s(o.cover.iter().cloned())),
    ]));
    o
}

fn run_case_c16(case: &Case, orc: &Oracle) -> CaseOut {
    let mut o = CaseOut::default();
    let sc_full = Scratch::new();
    let sc_strip = Scratch::new();
    let nodes = match build_and_observe(&case.tree, &sc_full) {
        Ok(n) => n,
        Err(e) => {
            o.harness_error = Some(e);
            return o;
        }
    };
    let stripped = case.tree.strip_ineligible();
    if let Err(e) = build_and_observe(&stripped, &sc_strip) {
        o.harness_error = Some(e);
        return o;
    }
    // ineligible entries of another kind: DANGLING symbolic links with ineligible names, at the top and inside every first-level
    // directory of the full tree (added after the listing was observed; the stripped tree has none). Like any other
    // ineligible file they must be inert: no influence on the result, and they cannot make the run fail.
    #[cfg(unix)]
    {
        let _ = std::os::unix::fs::symlink("no-such-target", sc_full.path().join("dangling-link.md"));
        let _ = std::os::unix::fs::symlink("no-such-target.t.sol", sc_full.path().join("dangling.t.sol"));
        for n in &nodes {
            if n.kind == Kind::Dir {
                let _ = std::os::unix::fs::symlink("../no-such-target", sc_full.path().join(&n.name).join("NOTES.md"));
            }
        }
    }
    let sig = signature(&nodes);
    o.order_realised = case.desired.as_ref().map(|d| *d == sig);
    let every = all_pats(orc);
    coverage(&nodes, 0, orc, &every, &mut o.cover);
    let mut files = vec![];
    files_of(&nodes, &mut files);
    for f in &files {
        let d = f.rel.matches('/').count();
        if d >= 4 && every.iter().any(|p| !file_lines(orc, &f.name, f.content, *p).is_empty()) {
            o.cover.insert(format!("eligible-file-with-findings-at-depth:{:02}", d));
        }
    }
    for f in &files {
        if eligible(&f.name) {
            if CORNER_ELIGIBLE.contains(&f.name.as_str()) {
                o.cover.insert(format!("eligible-corner-name:{}", f.name));
            }
        } else {
            o.cover.insert(format!("ineligible:{}:{}", ineligible_class(&f.name), match f.content {
                Content::Src(_) => "valid-solidity-with-findings",
                Content::Bin => "binary",
                Content::BadUtf8 => "invalid-utf8",
                Content::Garbage => "unparseable-text",
                Content::Empty => "empty",
            }));
        }
    }
    if case.tree.has_ineligible() || files.iter().any(|f| CORNER_ELIGIBLE.contains(&f.name.as_str())) {
        o.nontrivial.push(case.tree.canonical());
    }
    for (cat, pats) in &case.sets {
        let (discs, note) = check_c16(&sc_full.path_str(), &sc_strip.path_str(), &files, *cat, pats, orc);
        o.evals += 1;
        if let Some(n) = note {
            o.notes.push(n);
        }
        for d in discs {
            o.viol.push((d, vec!["c16-case".into(), format!("@src:{}", case.tree.ser()), orc.spec(*cat, pats)]));
        }
    }
    o.sample = Some(J::obj(vec![
        ("tree", J::s(case.tree.ser())),
        ("tree_without_ineligible_files", J::s(stripped.ser())),
        ("listing_observed", J::s(sig)),
        ("origin", J::s(case.origin)),
    ]));
    o
}

fn run(mode: Mode, tier: &str, seed: u64) -> CheckResult {
    let name = if mode == Mode::C03 { "c03" } else { "c16" };
    let mut r = CheckResult::new(name);
    let prev_hook = panic::take_hook();
    install_hook();
    let orc = Oracle::build();
    let (ranks, creation_matters) = match measure_ranks(&all_pool_names()) {
        Ok(x) => x,
        Err(e) => {
            r.violate(&format!("harness:{}-scratch-io", name), &format!("cannot probe the listing order: {}", e), vec![name.to_string()], String::new(), String::new());
            panic::set_hook(prev_hook);
            return r;
        }
    };
    let misfiled: Vec<String> = PLAIN_ELIGIBLE
        .iter()
        .chain(CORNER_ELIGIBLE.iter())
        .filter(|n| !eligible(n))
        .chain(INELIGIBLE.iter().chain(PLAIN_INELIGIBLE.iter()).filter(|n| eligible(n)))
        .map(|n| n.to_string())
        .chain(DIR_NAMES.iter().filter(|d| PLAIN_ELIGIBLE.contains(d) || CORNER_ELIGIBLE.contains(d) || INELIGIBLE.contains(d) || PLAIN_INELIGIBLE.contains(d)).map(|n| n.to_string()))
        .collect();
    if !misfiled.is_empty() {
        r.violate(&format!("harness:{}-name-list-inconsistent", name), &format!("names filed under the wrong class: {:?}", misfiled), vec![name.to_string()], String::new(), String::new());
        panic::set_hook(prev_hook);
        return r;
    }
    let (cases, shapes, n) = generate(mode, tier, seed, &orc, &ranks);
    let outs = par_map(&cases, |_, c| if mode == Mode::C03 { run_case_c03(c, &orc) } else { run_case_c16(c, &orc) });
    panic::set_hook(prev_hook);

    let mut cover: BTreeMap<String, i64> = BTreeMap::new();
    let (mut realised, mut not_realised) = (0i64, 0i64);
    let mut notes: BTreeMap<String, i64> = BTreeMap::new();
    let mut sampled_origins: Vec<&str> = vec![];
    for (case, o) in cases.iter().zip(outs.into_iter()) {
        if let Some(e) = o.harness_error {
            r.violate(&format!("harness:{}-scratch-io", name), &format!("cannot build or list a scratch tree: {}", e), vec![format!("{}-case", name), format!("@src:{}", case.tree.ser())], String::new(), String::new());
            continue;
        }
        r.evaluations += o.evals;
        for id in o.nontrivial {
            r.nontrivial.insert(id);
        }
        for c in &o.cover {
            *cover.entry(c.clone()).or_insert(0) += 1;
        }
        match o.order_realised {
            Some(true) => realised += 1,
            Some(false) => not_realised += 1,
            None => {}
        }
        for nmsg in o.notes {
            *notes.entry(nmsg.chars().take(160).collect()).or_insert(0) += 1;
        }
        for (d, replay) in o.viol {
            r.violate(&d.key, &d.what, replay, d.expected, d.actual);
        }
        // samples: a few cases of different origin, preferring trees with sub-directories
        if let Some(s) = o.sample {
            let interesting = case.tree.ents.len() >= 3 && case.tree.ents.iter().any(|e| e.path.contains('/')) && (mode == Mode::C03 || case.tree.has_ineligible());
            if interesting && sampled_origins.iter().filter(|x| **x == case.origin).count() < 2 {
                sampled_origins.push(case.origin);
                r.sample(s);
            }
        }
    }
    // the interleavings count as distinct non-trivial situations; the required ones must have been observed
    for c in cover.keys() {
        if c.starts_with("root:") || c.starts_with("nested:") {
            r.nontrivial.insert(format!("interleaving:{}", c));
        }
    }
    let mut missing = vec![];
    for req in REQUIRED_INTERLEAVINGS {
        for lvl in ["root", "nested"] {
            if !cover.contains_key(&format!("{}:{}", lvl, req)) {
                missing.push(format!("{}:{}", lvl, req));
            }
        }
    }
    if mode == Mode::C03 {
        for m in &missing {
            r.violate(
                &format!("harness:c03-interleaving-not-observed:{}", m),
                "the generator never obtained this listing order from fs::read_dir: the bounded check does not cover it",
                vec!["c03".into()],
                "every relative order of files and sub-directories observed".into(),
                "not observed".into(),
            );
        }
    }
    let bound_common = format!(
        "directory trees with <= {} entries (files + directories), <= 3 levels of sub-directories: every ordered shape ({} shapes) x {} labellings (twice as many for shapes of <= 5 entries; names chosen so that fs::read_dir lists the entries in the shape's order; contents from {} fixed sources{}), plus 5 larger shapes aimed at interleavings inside a sub-directory (6-9 entries, 6 labellings each) and hand-written trees; plus deep trees: an eligible file with findings under a chain of d directories for d in {:?}, alone, with pattern-sharing sibling files at every / some intermediate levels (listed before and after the chain directory), with side branches{}; 3 creation orders (listing order, reversed, shuffled); all three categories",
        n,
        shapes,
        LABELLINGS,
        SOURCES.len(),
        if mode == Mode::C16 { " and 4 kinds of junk" } else { "" },
        deep_depths(tier),
        if mode == Mode::C16 { ", each with an ineligible junk file next to the deepest file" } else { "" }
    );
    if mode == Mode::C03 {
        r.rule = "a case is one comparison of the real analyze_dir(tree, P) with the union of the real analyze_for_*(file, _, p) over the eligible files (multiset per pattern, no empty lists, no unselected keys); distinct_nontrivial counts distinct trees in which findings for one pattern come from a sub-directory or from >= 2 entries of one directory, plus one id per listing interleaving observed through fs::read_dir".into();
        r.bound = format!("{}; pattern sets per tree and category: all, one seeded random subset, the empty set on every 7th tree", bound_common);
    } else {
        r.rule = "a case is one comparison, for one category with all its patterns, of the real analyze_dir on a tree with the real analyze_dir on the same tree without its ineligible files (equal results, no panic), plus: no ineligible name in the result, every eligible file with findings reported (confirmed on the one-file tree before it is called skipped); distinct_nontrivial counts distinct trees holding an ineligible file or an eligible file with a border-line name".into();
        r.bound = format!(
            "{}; plus every name of the list ({} eligible, {} ineligible) x every kind of content, alone at the top, alone in a sub-directory, next to other files, and 2 levels down under a directory called d.sol",
            bound_common,
            9 + CORNER_ELIGIBLE.len(),
            INELIGIBLE.len()
        );
    }
    r.exhaustive = false;
    r.extra.push(("trees".into(), J::Num(cases.len() as i64)));
    r.extra.push(("shapes_enumerated".into(), J::Num(shapes as i64)));
    r.extra.push(("deep_chain_depths".into(), J::Arr(deep_depths(tier).into_iter().map(|d| J::Num(d as i64)).collect())));
    r.extra.push(("observed_through".into(), J::s("fs::read_dir on every directory of every built tree")));
    r.extra.push(("coverage_observed".into(), J::Obj(cover.iter().map(|(k, v)| (k.clone(), J::Num(*v))).collect())));
    r.extra.push(("interleavings_required_not_observed".into(), J::arr_s(missing)));
    r.extra.push(("listing_order_as_intended".into(), J::Num(realised)));
    r.extra.push(("listing_order_other_than_intended".into(), J::Num(not_realised)));
    r.extra.push(("listing_order_depends_on_creation_order".into(), J::Bool(creation_matters)));
    r.extra.push(("creation_orders".into(), J::arr_s(["intended listing order", "reversed", "shuffled"].iter().map(|s| s.to_string()))));
    r.extra.push(("source_findings".into(), orc.describe_sources()));
    r.extra.push(("patterns_never_selected_because_a_fixed_source_makes_them_panic".into(), J::arr_s(orc.excluded.iter().map(|p| pat_name(*p)))));
    r.extra.push(("notes".into(), J::Obj(notes.into_iter().map(|(k, v)| (k, J::Num(v))).collect())));
    if mode == Mode::C16 {
        r.extra.push(("eligible_names".into(), J::arr_s(PLAIN_ELIGIBLE[..9].iter().chain(CORNER_ELIGIBLE.iter()).map(|s| s.to_string()))));
        r.extra.push(("ineligible_names".into(), J::arr_s(INELIGIBLE.iter().map(|s| s.to_string()))));
        r.extra.push(("directory_names".into(), J::arr_s(DIR_NAMES.iter().map(|s| s.to_string()))));
    }
    r.assumptions.push("the per-file entry points analyze_for_* are the oracle for single files (their correctness is other properties' business)".into());
    r.assumptions.push("eligible files hold one of the fixed parseable sources with a pragma line and no free function".into());
    r.assumptions.push("file names are valid Unicode; no symbolic links, no unreadable directories; the file system is the one under std::env::temp_dir()".into());
    if mode == Mode::C16 {
        r.assumptions.push("a file is called skipped only if it is also unreported as the only file of a tree; losses in larger trees are left to C03".into());
    }
    r
}

fn replay(mode: Mode, tree_txt: &str, spec: Option<&str>) -> Result<(bool, String), String> {
    let prev_hook = panic::take_hook();
    install_hook();
    let orc = Oracle::build();
    let res = (|| -> Result<(bool, String), String> {
        let tree = Tree::parse(tree_txt)?;
        let sets = match spec {
            Some(s) => orc.parse_spec(s)?,
            None => (0..3u8).map(|c| (c, orc.all(c))).collect(),
        };
        let case = Case { tree, desired: None, sets, origin: "replay" };
        let o = if mode == Mode::C03 { run_case_c03(&case, &orc) } else { run_case_c16(&case, &orc) };
        if let Some(e) = o.harness_error {
            return Err(e);
        }
        let mut msg = vec![];
        if let Some(s) = &o.sample {
            msg.push(s.render());
        }
        for n in &o.notes {
            msg.push(format!("note: {}", n));
        }
        for (d, _) in &o.viol {
            msg.push(format!("VIOLATED {}: {}\n  expected: {}\n  actual:   {}", d.key, d.what, d.expected, d.actual));
        }
        if o.viol.is_empty() {
            msg.push(format!("contract holds ({} comparisons)", o.evals));
        }
        Ok((o.viol.is_empty(), msg.join("\n")))
    })();
    panic::set_hook(prev_hook);
    res
}

/// Returns Some(exit code) when `cmd` belongs to this module.
pub fn dispatch(cmd: &str, rest: &[String], tier: &str, seed: u64) -> Option<i32> {
    match cmd {
        "c03" => {
            println!("{}", run(Mode::C03, tier, seed).to_json().render());
            Some(0)
        }
        "c16" => {
            println!("{}", run(Mode::C16, tier, seed).to_json().render());
            Some(0)
        }
        "c03-case" | "c16-case" => {
            if rest.is_empty() {
                eprintln!("usage: vxn {} @src:<tree> [<category>:<patterns|*>;..]", cmd);
                return Some(2);
            }
            let mode = if cmd == "c03-case" { Mode::C03 } else { Mode::C16 };
            match replay(mode, &crate::arg_or_file(&rest[0]), rest.get(1).map(|s| s.as_str())) {
                Ok((ok, msg)) => {
                    println!("{}", msg);
                    Some(if ok { 0 } else { 1 })
                }
                Err(e) => {
                    eprintln!("cannot replay: {}", e);
                    Some(2)
                }
            }
        }
        _ => c13dir::dispatch(cmd, rest, tier, seed),
    }
}

// C13 at directory level (`c13-dir`, `c13-dir-case`, helper `c13-dir-render`): src/dirs_c13.rs, a child module so
// that it can reuse the trees, sources, oracle and observation code above
#[path = "dirs_c13.rs"]
mod c13dir;
#[allow(unused_imports)]
pub use c13dir::run_c13_dir;
