//! C03, C16: executable contract of analyze_dir on enumerated directory trees
use crate::report::CheckResult;

/// Returns Some(exit code) when `cmd` belongs to this module.
pub fn dispatch(cmd: &str, rest: &[String], tier: &str, seed: u64) -> Option<i32> {
    let _ = (rest, tier, seed);
    match cmd {
        "c03" => {
            println!("{}", todo("c03").to_json().render());
            Some(0)
        }
        "c16" => {
            println!("{}", todo("c16").to_json().render());
            Some(0)
        }
        _ => None,
    }
}

#[allow(dead_code)]
fn todo(name: &str) -> CheckResult {
    let mut r = CheckResult::new(name);
    r.violate("harness:not-implemented", "check not implemented yet", vec![name.to_string()], String::new(), String::new());
    r
}
