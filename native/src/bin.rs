//! C14, C18: configuration resolution and file-system frame of the real binary.
//!
//! C14 = (a) in-process executable contract of the name tables `str_to_*` / `get_all_*` against the
//!           names scraped (on every run) from the documents, and
//!       (b) the real `solstat` binary run in scratch working directories over the combinations of
//!           --path / --toml / toml `path` / ./contracts, observed through hook H1 (VERIF-OPTS line)
//!           and through the generated report.
//! C18 = frame contract "a run modifies exactly ./solstat_report.md, by replacement", checked by
//!       recursive snapshots before/after two consecutive runs of the real binary.
//!
//! Replay payloads are small `key=value;key=value` texts (values percent-encoded), parsed here.
use crate::json::J;
use crate::report::{CheckResult, Rng};
use solstat::analyzer::{optimizations as lib_opt, qa as lib_qa, vulnerabilities as lib_vul};
use std::collections::{BTreeMap, BTreeSet};
use std::fs;
use std::os::unix::fs::{MetadataExt, PermissionsExt};
use std::path::{Path, PathBuf};
use std::process::{Command, Stdio};
use std::sync::atomic::{AtomicUsize, Ordering};

const REPORT: &str = "solstat_report.md";

// ------------------------------------------------------------------------------------------------
// small utilities

fn repo_dir() -> PathBuf {
    PathBuf::from(std::env::var("VX_REPO").unwrap_or_else(|_| "/repo".to_string()))
}

/// The binary under test. The check commands require VXN_SOLSTAT_BIN (set by vxlib/checks/bounded.py);
/// replay commands fall back to (re)building <vxn dir>/../../repo-target/release/solstat because
/// `vx replay` does not pass the variable.
fn solstat_bin(replay: bool) -> Option<PathBuf> {
    if let Ok(p) = std::env::var("VXN_SOLSTAT_BIN") {
        let p = PathBuf::from(p);
        if p.is_file() {
            return Some(p);
        }
    }
    if !replay {
        return None;
    }
    let exe = std::env::current_exe().ok()?;
    let build = exe.parent()?.parent()?.parent()?;
    let target = build.join("repo-target");
    let flags = std::env::var("RUSTFLAGS").unwrap_or_default();
    let flags = if flags.contains("solstat_verif") { flags } else { format!("{} --cfg solstat_verif", flags).trim().to_string() };
    let _ = Command::new("cargo")
        .args(["build", "--offline", "--release", "--bin", "solstat"])
        .current_dir(repo_dir())
        .env("CARGO_TARGET_DIR", &target)
        .env("RUSTFLAGS", flags)
        .stdout(Stdio::null())
        .stderr(Stdio::null())
        .status();
    let p = target.join("release").join("solstat");
    if p.is_file() {
        Some(p)
    } else {
        None
    }
}

static SCRATCH_N: AtomicUsize = AtomicUsize::new(0);

/// scratch directory `temp_dir()/vxn-<pid>-<n>`, removed on drop
struct Scratch {
    root: PathBuf,
}
impl Scratch {
    fn new() -> Scratch {
        let n = SCRATCH_N.fetch_add(1, Ordering::SeqCst);
        let base = std::env::temp_dir().join(format!("vxn-{}-{}", std::process::id(), n));
        let _ = fs::remove_dir_all(&base);
        fs::create_dir_all(&base).expect("cannot create scratch directory");
        // canonical: absolute paths handed to the binary must not go through symlinks of the temp dir
        let root = fs::canonicalize(&base).unwrap_or(base);
        Scratch { root }
    }
    fn p(&self, rel: &str) -> PathBuf {
        if rel.is_empty() || rel == "." {
            self.root.clone()
        } else {
            self.root.join(rel)
        }
    }
}
fn make_writable(p: &Path) {
    if let Ok(md) = fs::symlink_metadata(p) {
        if md.is_dir() {
            let _ = fs::set_permissions(p, fs::Permissions::from_mode(0o755));
            if let Ok(rd) = fs::read_dir(p) {
                for e in rd.flatten() {
                    make_writable(&e.path());
                }
            }
        }
    }
}
impl Drop for Scratch {
    fn drop(&mut self) {
        make_writable(&self.root);
        let _ = fs::remove_dir_all(&self.root);
    }
}

fn write_file(p: &Path, content: &[u8], mode: u32) {
    if let Some(d) = p.parent() {
        fs::create_dir_all(d).expect("mkdir");
    }
    fs::write(p, content).expect("write scratch file");
    fs::set_permissions(p, fs::Permissions::from_mode(mode)).expect("chmod");
}

struct RunOut {
    code: Option<i32>,
    timed_out: bool,
    stderr: String,
    stdout: String,
}
impl RunOut {
    fn ok(&self) -> bool {
        self.code == Some(0)
    }
    fn status(&self) -> String {
        if self.timed_out {
            "timeout (killed)".to_string()
        } else {
            match self.code {
                Some(c) => format!("exit status {}", c),
                None => "killed by a signal".to_string(),
            }
        }
    }
    fn err_tail(&self) -> String {
        let t: Vec<&str> = self.stderr.lines().filter(|l| !l.starts_with("VERIF-OPTS")).collect();
        let s = t.join(" / ");
        if s.len() > 300 {
            let mut cut = 300;
            while !s.is_char_boundary(cut) {
                cut -= 1;
            }
            s[..cut].to_string()
        } else {
            s
        }
    }
}

/// run the real binary; stdout/stderr go to files in `io` (outside every snapshotted directory)
fn run_bin(bin: &Path, cwd: &Path, args: &[String], io: &Path) -> RunOut {
    fs::create_dir_all(io).expect("mkdir io");
    let errp = io.join("stderr.txt");
    let outp = io.join("stdout.txt");
    let errf = fs::File::create(&errp).expect("stderr file");
    let outf = fs::File::create(&outp).expect("stdout file");
    let child = Command::new(bin)
        .args(args)
        .current_dir(cwd)
        .env("SOLSTAT_VERIF_DUMP_OPTS", "1")
        .env("RUST_BACKTRACE", "0")
        .stdin(Stdio::null())
        .stdout(Stdio::from(outf))
        .stderr(Stdio::from(errf))
        .spawn();
    let mut child = match child {
        Ok(c) => c,
        Err(e) => return RunOut { code: None, timed_out: false, stderr: format!("cannot spawn {:?}: {}", bin, e), stdout: String::new() },
    };
    let t0 = std::time::Instant::now();
    let mut timed_out = false;
    let code = loop {
        match child.try_wait() {
            Ok(Some(st)) => break st.code(),
            Ok(None) => {
                if t0.elapsed().as_secs() >= 60 {
                    let _ = child.kill();
                    let _ = child.wait();
                    timed_out = true;
                    break None;
                }
                std::thread::sleep(std::time::Duration::from_micros(500));
            }
            Err(_) => break None,
        }
    };
    let stderr = String::from_utf8_lossy(&fs::read(&errp).unwrap_or_default()).to_string();
    let stdout = String::from_utf8_lossy(&fs::read(&outp).unwrap_or_default()).to_string();
    RunOut { code, timed_out, stderr, stdout }
}

fn fnv64(data: &[u8]) -> u64 {
    let mut h: u64 = 0xcbf29ce484222325;
    for b in data {
        h ^= *b as u64;
        h = h.wrapping_mul(0x100000001b3);
    }
    h
}

#[derive(Clone, Debug, PartialEq, Eq)]
struct Entry {
    kind: char, // f file, d directory, l symlink, o other
    size: u64,
    mode: u32,
    hash: u64,
    mtime: (i64, i64),
}
type Snap = BTreeMap<String, Entry>;

/// recursive snapshot of `root` (relative paths); the top-level entry `skip` is left out
fn snapshot(root: &Path, skip: &str) -> Snap {
    fn go(dir: &Path, rel: &str, skip: &str, out: &mut Snap) {
        let rd = match fs::read_dir(dir) {
            Ok(r) => r,
            Err(_) => return,
        };
        for e in rd.flatten() {
            let name = e.file_name().to_string_lossy().to_string();
            if rel.is_empty() && name == skip {
                continue;
            }
            let r = if rel.is_empty() { name.clone() } else { format!("{}/{}", rel, name) };
            let p = e.path();
            let md = match fs::symlink_metadata(&p) {
                Ok(m) => m,
                Err(_) => continue,
            };
            let ft = md.file_type();
            let mode = md.permissions().mode() & 0o7777;
            if ft.is_symlink() {
                let t = fs::read_link(&p).map(|t| t.to_string_lossy().to_string()).unwrap_or_default();
                out.insert(r, Entry { kind: 'l', size: t.len() as u64, mode: 0, hash: fnv64(t.as_bytes()), mtime: (0, 0) });
            } else if ft.is_dir() {
                out.insert(r.clone(), Entry { kind: 'd', size: 0, mode, hash: 0, mtime: (0, 0) });
                go(&p, &r, skip, out);
            } else if ft.is_file() {
                let data = fs::read(&p).unwrap_or_default();
                out.insert(r, Entry { kind: 'f', size: md.len(), mode, hash: fnv64(&data), mtime: (md.mtime(), md.mtime_nsec()) });
            } else {
                out.insert(r, Entry { kind: 'o', size: 0, mode, hash: 0, mtime: (0, 0) });
            }
        }
    }
    let mut s = Snap::new();
    go(root, "", skip, &mut s);
    s
}

#[derive(Debug, PartialEq, Eq)]
enum Change {
    Created,
    Deleted,
    Content,
    TypeOrMode,
    Touched,
}
fn diff_snap(a: &Snap, b: &Snap) -> Vec<(String, Change)> {
    let mut d = vec![];
    for (k, ea) in a {
        match b.get(k) {
            None => d.push((k.clone(), Change::Deleted)),
            Some(eb) => {
                if ea.kind != eb.kind || ea.mode != eb.mode {
                    d.push((k.clone(), Change::TypeOrMode));
                } else if ea.size != eb.size || ea.hash != eb.hash {
                    d.push((k.clone(), Change::Content));
                } else if ea.mtime != eb.mtime {
                    d.push((k.clone(), Change::Touched));
                }
            }
        }
    }
    for k in b.keys() {
        if !a.contains_key(k) {
            d.push((k.clone(), Change::Created));
        }
    }
    d
}

fn pct_enc(s: &str) -> String {
    let mut o = String::new();
    for b in s.bytes() {
        if b.is_ascii_alphanumeric() || b == b'_' || b == b'.' || b == b'/' || b == b'-' || b == b'@' {
            o.push(b as char);
        } else {
            o.push_str(&format!("%{:02X}", b));
        }
    }
    o
}
fn pct_dec(s: &str) -> String {
    let b = s.as_bytes();
    let mut o = vec![];
    let mut i = 0;
    while i < b.len() {
        if b[i] == b'%' && i + 3 <= b.len() && s.is_char_boundary(i + 1) && s.is_char_boundary(i + 3) {
            if let Ok(v) = u8::from_str_radix(&s[i + 1..i + 3], 16) {
                o.push(v);
                i += 3;
                continue;
            }
        }
        o.push(b[i]);
        i += 1;
    }
    String::from_utf8_lossy(&o).to_string()
}
/// "a=1;b=x%20y" -> map (values decoded)
fn parse_kv(s: &str) -> BTreeMap<String, String> {
    let mut m = BTreeMap::new();
    for part in s.trim().split(';') {
        if let Some((k, v)) = part.split_once('=') {
            m.insert(k.trim().to_string(), pct_dec(v.trim()));
        }
    }
    m
}
fn enc_list(v: &[String]) -> String {
    v.iter().map(|s| if s.is_empty() { "%".to_string() } else { pct_enc(s) }).collect::<Vec<_>>().join(",")
}
/// the list payload is split BEFORE decoding (a comma inside a name is encoded as %2C); "" = empty list,
/// an empty *name* is encoded as "%"
fn dec_list(raw: &str) -> Vec<String> {
    if raw.is_empty() {
        return vec![];
    }
    raw.split(',').map(|x| if x == "%" { String::new() } else { pct_dec(x) }).collect()
}
/// like parse_kv but keeps the values raw (for list values)
fn parse_kv_raw(s: &str) -> BTreeMap<String, String> {
    let mut m = BTreeMap::new();
    for part in s.trim().split(';') {
        if let Some((k, v)) = part.split_once('=') {
            m.insert(k.trim().to_string(), v.trim().to_string());
        }
    }
    m
}

/// (key, what, expected, actual) of a violated contract clause
type Viol = (String, String, String, String);

fn silence_panics<T>(f: impl FnOnce() -> T) -> T {
    let old = std::panic::take_hook();
    std::panic::set_hook(Box::new(|_| {}));
    let r = f();
    std::panic::set_hook(old);
    r
}

// ------------------------------------------------------------------------------------------------
// C14 (a): the name tables

#[derive(Clone, Copy, PartialEq, Eq, PartialOrd, Ord, Debug)]
enum Cat {
    Opt,
    Vul,
    Qa,
}
const CATS: [Cat; 3] = [Cat::Opt, Cat::Vul, Cat::Qa];
impl Cat {
    fn tag(self) -> &'static str {
        match self {
            Cat::Opt => "opt",
            Cat::Vul => "vuln",
            Cat::Qa => "qa",
        }
    }
    fn from_tag(t: &str) -> Option<Cat> {
        CATS.iter().cloned().find(|c| c.tag() == t)
    }
    fn toml_key(self) -> &'static str {
        match self {
            Cat::Opt => "optimizations",
            Cat::Vul => "vulnerabilities",
            Cat::Qa => "qa",
        }
    }
    fn doc(self) -> &'static str {
        match self {
            Cat::Opt => "docs/identified-optimizations.md",
            Cat::Vul => "docs/identified-vulnerabilities.md",
            Cat::Qa => "docs/identified-quality-assurance.md",
        }
    }
    fn func(self) -> &'static str {
        match self {
            Cat::Opt => "str_to_optimization",
            Cat::Vul => "str_to_vulnerability",
            Cat::Qa => "str_to_qa",
        }
    }
}

/// the real name table: Debug name of the selected variant, None when the function panics (= rejects)
fn resolve(cat: Cat, name: &str) -> Option<String> {
    let n = name.to_string();
    std::panic::catch_unwind(move || match cat {
        Cat::Opt => format!("{:?}", lib_opt::str_to_optimization(&n)),
        Cat::Vul => format!("{:?}", lib_vul::str_to_vulnerability(&n)),
        Cat::Qa => format!("{:?}", lib_qa::str_to_qa(&n)),
    })
    .ok()
}
/// the real default list (Debug names)
fn defaults(cat: Cat) -> Vec<String> {
    match cat {
        Cat::Opt => lib_opt::get_all_optimizations().iter().map(|v| format!("{:?}", v)).collect(),
        Cat::Vul => lib_vul::get_all_vulnerabilities().iter().map(|v| format!("{:?}", v)).collect(),
        Cat::Qa => lib_qa::get_all_qa().iter().map(|v| format!("{:?}", v)).collect(),
    }
}

fn norm(name: &str) -> String {
    name.to_lowercase().replace('_', "")
}
/// spelling exceptions between a documented name and the enum variant it denotes (minimal, explicit):
/// the enum misspells "variables" in ImmutableVarialbes.
/// and docs/identified-optimizations.md calls StringErrors `string_error` (singular).
const SPELLING_EXCEPTIONS: [(&str, &str); 2] = [("immutablevariables", "ImmutableVarialbes"), ("stringerror", "StringErrors")];
fn corresponds(name: &str, variant: &str) -> bool {
    let n = norm(name);
    variant.to_lowercase() == n || SPELLING_EXCEPTIONS.iter().any(|(a, b)| *a == n && *b == variant)
}

/// first cells of the markdown table rows (header and separator rows dropped)
fn scrape_table(text: &str) -> Vec<String> {
    let lines: Vec<&str> = text.lines().collect();
    let is_sep = |l: &str| {
        let t = l.trim();
        t.starts_with('|') && t.contains("---") && t.chars().all(|c| c == '|' || c == '-' || c == ':' || c == ' ')
    };
    let mut out = vec![];
    for (i, l) in lines.iter().enumerate() {
        let t = l.trim();
        if !t.starts_with('|') || is_sep(t) {
            continue;
        }
        if i + 1 < lines.len() && is_sep(lines[i + 1]) {
            continue; // header row
        }
        let cell = t[1..].split('|').next().unwrap_or("").trim().trim_matches('`').trim().to_string();
        out.push(cell);
    }
    out
}

/// string elements of `key = [ ... ]` arrays (possibly spanning lines) in toml-like text; comments skipped
fn scrape_arrays(text: &str) -> Vec<(Cat, String)> {
    let mut out = vec![];
    let mut cleaned = String::new();
    for l in text.lines() {
        if l.trim_start().starts_with('#') {
            cleaned.push('\n');
            continue;
        }
        cleaned.push_str(l);
        cleaned.push('\n');
    }
    for cat in CATS {
        let key = cat.toml_key();
        let mut from = 0;
        while let Some(pos) = cleaned[from..].find(key) {
            let start = from + pos;
            from = start + key.len();
            let line_start = cleaned[..start].rfind('\n').map(|x| x + 1).unwrap_or(0);
            if !cleaned[line_start..start].trim().is_empty() {
                continue; // key must start its line
            }
            let rest = &cleaned[from..];
            let r = rest.trim_start();
            if !r.starts_with('=') {
                continue;
            }
            let r = r[1..].trim_start();
            if !r.starts_with('[') {
                continue;
            }
            let end = match r.find(']') {
                Some(e) => e,
                None => continue,
            };
            let body = &r[1..end];
            let mut chars = body.chars().peekable();
            while let Some(c) = chars.next() {
                if c == '"' || c == '\'' {
                    let mut s = String::new();
                    for d in chars.by_ref() {
                        if d == c {
                            break;
                        }
                        s.push(d);
                    }
                    out.push((cat, s));
                }
            }
        }
    }
    out
}

/// text inside ``` fences of a markdown document
fn fenced_blocks(text: &str) -> String {
    let mut inside = false;
    let mut o = String::new();
    for l in text.lines() {
        if l.trim_start().starts_with("```") {
            inside = !inside;
            continue;
        }
        if inside {
            o.push_str(l);
            o.push('\n');
        }
    }
    o
}

struct Documented {
    /// per category: name as written (deduplicated by lower-case form) -> sources
    names: BTreeMap<Cat, BTreeMap<String, Vec<String>>>,
    /// the arrays of the sample Solstat.toml, in file order
    sample_toml: BTreeMap<Cat, Vec<String>>,
    per_source: Vec<(String, usize)>,
    missing: Vec<String>,
}

fn scrape_documents() -> Documented {
    let repo = repo_dir();
    let mut d = Documented { names: BTreeMap::new(), sample_toml: BTreeMap::new(), per_source: vec![], missing: vec![] };
    for c in CATS {
        d.names.insert(c, BTreeMap::new());
        d.sample_toml.insert(c, vec![]);
    }
    fn add(d: &mut Documented, c: Cat, name: &str, src: &str) {
        let m = d.names.get_mut(&c).unwrap();
        let existing = m.keys().find(|k| k.to_lowercase() == name.to_lowercase()).cloned();
        let k = existing.unwrap_or_else(|| name.to_string());
        let e = m.entry(k).or_default();
        if !e.contains(&src.to_string()) {
            e.push(src.to_string());
        }
    }
    for c in CATS {
        match fs::read_to_string(repo.join(c.doc())) {
            Ok(t) => {
                let rows = scrape_table(&t);
                d.per_source.push((c.doc().to_string(), rows.len()));
                for n in rows {
                    add(&mut d, c, &n, c.doc());
                }
            }
            Err(_) => d.missing.push(c.doc().to_string()),
        }
    }
    match fs::read_to_string(repo.join("Solstat.toml")) {
        Ok(t) => {
            let v = scrape_arrays(&t);
            d.per_source.push(("Solstat.toml".to_string(), v.len()));
            for (c, n) in v {
                add(&mut d, c, &n, "Solstat.toml");
                d.sample_toml.get_mut(&c).unwrap().push(n);
            }
        }
        Err(_) => d.missing.push("Solstat.toml".to_string()),
    }
    match fs::read_to_string(repo.join("README.md")) {
        Ok(t) => {
            let v = scrape_arrays(&fenced_blocks(&t));
            d.per_source.push(("README.md (toml example)".to_string(), v.len()));
            for (c, n) in v {
                add(&mut d, c, &n, "README.md");
            }
        }
        Err(_) => d.missing.push("README.md".to_string()),
    }
    d
}

fn apply_case(name: &str, mask: &dyn Fn(usize) -> bool) -> String {
    let mut i = 0;
    name.chars()
        .map(|c| {
            if c.is_alphabetic() {
                let up = mask(i);
                i += 1;
                if up {
                    c.to_uppercase().next().unwrap_or(c)
                } else {
                    c.to_lowercase().next().unwrap_or(c)
                }
            } else {
                c
            }
        })
        .collect()
}
fn title_words(name: &str) -> String {
    let mut start = true;
    name.chars()
        .map(|c| {
            let r = if start { c.to_uppercase().next().unwrap_or(c) } else { c.to_lowercase().next().unwrap_or(c) };
            start = c == '_';
            r
        })
        .collect()
}

/// fixed casings + `budget` more (all 2^L casings when that is not more than the budget, else seeded random)
fn casings(name: &str, budget: usize, rng: &mut Rng) -> (Vec<String>, bool) {
    let letters = name.chars().filter(|c| c.is_alphabetic()).count();
    let mut v = vec![
        name.to_string(),
        apply_case(name, &|_| false),
        apply_case(name, &|_| true),
        apply_case(name, &|i| i == 0),
        title_words(name),
        apply_case(name, &|i| i % 2 == 1),
        apply_case(name, &|i| i % 2 == 0),
    ];
    let mut all = false;
    if letters < 20 && (1usize << letters) <= budget {
        all = true;
        for m in 0..(1usize << letters) {
            v.push(apply_case(name, &|i| (m >> i) & 1 == 1));
        }
    } else {
        for _ in 0..budget {
            let bits: Vec<bool> = (0..letters).map(|_| rng.below(2) == 1).collect();
            v.push(apply_case(name, &|i| bits[i]));
        }
    }
    let mut seen = BTreeSet::new();
    v.retain(|s| seen.insert(s.clone()));
    (v, all)
}

/// contract of ONE documented name in ONE spelling: accepted, and selects the corresponding variant
fn check_name(cat: Cat, documented: &str, spelling: &str) -> Option<Viol> {
    let lower = resolve(cat, &documented.to_lowercase());
    match resolve(cat, spelling) {
        None => {
            if lower.is_some() {
                Some((
                    format!("c14:name-case-sensitive:{}", documented.to_lowercase()),
                    format!("{} accepts {:?} but rejects the casing {:?}", cat.func(), documented.to_lowercase(), spelling),
                    "accepted regardless of letter case".into(),
                    "panic (name rejected)".into(),
                ))
            } else {
                Some((
                    format!("c14:documented-name-rejected:{}", documented.to_lowercase()),
                    format!("the documented {} name {:?} is rejected by {} (tried as {:?})", cat.tag(), documented, cat.func(), spelling),
                    "every documented name is accepted".into(),
                    "panic (name rejected)".into(),
                ))
            }
        }
        Some(v) => {
            if !corresponds(documented, &v) {
                Some((
                    format!("c14:wrong-variant:{}", documented.to_lowercase()),
                    format!("{}({:?}) selects {} which does not correspond to the name", cat.func(), spelling, v),
                    format!("the variant whose lower-cased name is {:?}", norm(documented)),
                    v,
                ))
            } else if lower.is_some() && lower.as_ref() != Some(&v) {
                Some((
                    format!("c14:case-changes-variant:{}", documented.to_lowercase()),
                    format!("{}({:?}) selects {} but the lower-case spelling selects {}", cat.func(), spelling, v, lower.clone().unwrap()),
                    lower.unwrap(),
                    v,
                ))
            } else {
                None
            }
        }
    }
}

/// junk / near-miss names of a category: (class, string). None of them is a documented name of `cat`.
fn junk_names(cat: Cat, doc: &Documented, n_mut: usize, rng: &mut Rng) -> Vec<(String, String)> {
    let own: BTreeSet<String> = doc.names[&cat].keys().map(|k| k.to_lowercase()).collect();
    let mut out: Vec<(String, String)> = vec![];
    for (cl, s) in [("empty", ""), ("whitespace", " "), ("whitespace", "\t"), ("keyword", "all"), ("keyword", "*"), ("keyword", "none"), ("keyword", "default"), ("keyword", "_")] {
        out.push((cl.to_string(), s.to_string()));
    }
    let names: Vec<String> = own.iter().cloned().collect();
    for n in &names {
        out.push(("trailing-space".into(), format!("{} ", n)));
        out.push(("leading-space".into(), format!(" {}", n)));
        out.push(("trailing-newline".into(), format!("{}\n", n)));
        out.push(("quoted".into(), format!("\"{}\"", n)));
        out.push(("prefixed".into(), format!("{}::{}", cat.toml_key(), n)));
        if n.contains('_') {
            out.push(("hyphen".into(), n.replace('_', "-")));
            out.push(("no-underscore".into(), n.replace('_', "")));
            out.push(("space-for-underscore".into(), n.replace('_', " ")));
            out.push(("double-underscore".into(), n.replacen('_', "__", 1)));
        }
        out.push(("plural-or-extended".into(), format!("{}s", n)));
        out.push(("extended".into(), format!("{}_", n)));
        out.push(("extended".into(), format!("_{}", n)));
        let mut t = n.clone();
        t.pop();
        out.push(("truncated".into(), t));
    }
    for v in defaults(cat) {
        out.push(("variant-name".into(), v.clone()));
    }
    for other in CATS {
        if other != cat {
            for n in doc.names[&other].keys() {
                out.push(("other-category".into(), n.to_lowercase()));
            }
        }
    }
    let alphabet: Vec<char> = "abcdefghijklmnopqrstuvwxyz0123456789_-. ".chars().collect();
    if !names.is_empty() {
        for _ in 0..n_mut {
            let mut cs: Vec<char> = rng.pick(&names).chars().collect();
            match rng.below(4) {
                0 if cs.len() > 1 => {
                    let i = rng.below(cs.len());
                    cs.remove(i);
                }
                1 if cs.len() > 1 => {
                    let i = rng.below(cs.len() - 1);
                    cs.swap(i, i + 1);
                }
                2 => {
                    let i = rng.below(cs.len() + 1);
                    cs.insert(i, *rng.pick(&alphabet));
                }
                _ => {
                    let i = rng.below(cs.len());
                    cs[i] = *rng.pick(&alphabet);
                }
            }
            out.push(("mutation".into(), cs.into_iter().collect()));
        }
    }
    let mut seen = BTreeSet::new();
    out.retain(|(_, s)| !own.contains(&s.to_lowercase()) && seen.insert(s.clone()));
    out
}

fn check_reject(cat: Cat, class: &str, s: &str) -> Option<Viol> {
    resolve(cat, s).map(|v| {
        (
            format!("c14:unknown-name-accepted:{}", class),
            format!("{}({:?}) accepts a name that is not documented for this category", cat.func(), s),
            "panic (unknown name rejected)".to_string(),
            format!("returns {}", v),
        )
    })
}

/// names of the category accepted in lower case -> variant
fn accepted_map(cat: Cat, doc: &Documented) -> BTreeMap<String, String> {
    let mut m = BTreeMap::new();
    for n in doc.names[&cat].keys() {
        if let Some(v) = resolve(cat, &n.to_lowercase()) {
            m.insert(n.to_lowercase(), v);
        }
    }
    m
}

fn check_collide(cat: Cat, a: &str, b: &str) -> Option<Viol> {
    let (va, vb) = (resolve(cat, a)?, resolve(cat, b)?);
    if va == vb && a.to_lowercase() != b.to_lowercase() {
        Some((
            format!("c14:names-collide:{},{}", a, b),
            format!("the distinct documented {} names {:?} and {:?} select the same pattern {}", cat.tag(), a, b, va),
            "distinct documented names select distinct patterns".into(),
            format!("both select {}", va),
        ))
    } else {
        None
    }
}

fn check_reachable(cat: Cat, variant: &str, doc: &Documented) -> Option<Viol> {
    if !defaults(cat).iter().any(|v| v == variant) {
        return None;
    }
    if accepted_map(cat, doc).values().any(|v| v == variant) {
        return None;
    }
    Some((
        format!("c14:default-pattern-unreachable:{}", variant),
        format!("{} runs by default but no documented name selects it", variant),
        "every pattern that runs by default can be selected by a documented name".into(),
        format!("documented+accepted names of the category: {:?}", accepted_map(cat, doc).keys().collect::<Vec<_>>()),
    ))
}

fn check_in_default(cat: Cat, name: &str) -> Option<Viol> {
    let v = resolve(cat, name)?;
    if defaults(cat).contains(&v) {
        return None;
    }
    Some((
        format!("c14:documented-pattern-not-in-default:{}", v),
        format!("{:?} selects {} which is missing from the default list (without a configuration file all patterns must run)", name, v),
        "every documented pattern is in get_all_*".into(),
        format!("{:?}", defaults(cat)),
    ))
}

fn lib_replay(kind: &str, cat: Cat, arg: &str) -> Vec<String> {
    vec!["c14-case".into(), format!("@src:kind={};cat={};arg={}", kind, cat.tag(), pct_enc(arg))]
}

fn c14_lib(r: &mut CheckResult, doc: &Documented, tier: &str, rng: &mut Rng) {
    let budget = if tier == "thorough" { 4096 } else { 256 };
    let n_mut = if tier == "thorough" { 5000 } else { 300 };
    let mut exhaustive_names = 0;
    let mut rejected = 0;
    for cat in CATS {
        let names: Vec<String> = doc.names[&cat].keys().cloned().collect();
        for n in &names {
            let (cs, all) = casings(n, budget, rng);
            if all {
                exhaustive_names += 1;
            }
            for s in &cs {
                r.evaluations += 1;
                r.nontrivial.insert(format!("name:{}:{}", cat.tag(), s));
                if let Some((k, w, e, a)) = check_name(cat, n, s) {
                    r.violate(&k, &w, lib_replay("name", cat, s), e, a);
                }
            }
            r.evaluations += 1;
            if let Some((k, w, e, a)) = check_in_default(cat, n) {
                r.violate(&k, &w, lib_replay("indefault", cat, n), e, a);
            }
        }
        let acc = accepted_map(cat, doc);
        let keys: Vec<&String> = acc.keys().collect();
        for i in 0..keys.len() {
            for j in i + 1..keys.len() {
                r.evaluations += 1;
                if let Some((k, w, e, a)) = check_collide(cat, keys[i], keys[j]) {
                    r.violate(&k, &w, lib_replay("collide", cat, &format!("{},{}", keys[i], keys[j])), e, a);
                }
            }
        }
        for v in defaults(cat) {
            r.evaluations += 1;
            if let Some((k, w, e, a)) = check_reachable(cat, &v, doc) {
                r.violate(&k, &w, lib_replay("reach", cat, &v), e, a);
            }
        }
        for (class, s) in junk_names(cat, doc, n_mut, rng) {
            r.evaluations += 1;
            rejected += 1;
            r.nontrivial.insert(format!("junk:{}:{}", cat.tag(), s));
            if let Some((k, w, e, a)) = check_reject(cat, &class, &s) {
                r.violate(&k, &w, lib_replay("reject", cat, &format!("{}|{}", class, s)), e, a);
            }
        }
    }
    r.extra.push(("names_with_all_casings_enumerated".into(), J::Num(exhaustive_names)));
    r.extra.push(("junk_names_tried".into(), J::Num(rejected)));
}

// ------------------------------------------------------------------------------------------------
// C14 (b): flag / toml / default resolution through the real binary

/// contract with findings for many patterns of all three categories; `lead` comment lines shift every line
fn probe_sol(contract: &str, lead: usize) -> String {
    let mut s = String::new();
    for i in 0..lead {
        s.push_str(&format!("// filler line {}\n", i));
    }
    s.push_str("pragma solidity 0.8.10;\n\ninterface IERC20 {\n    function transfer(address to, uint256 amount) external returns (bool);\n}\n\n");
    s.push_str(&format!("contract {} {{\n", contract));
    s.push_str(concat!(
        "    uint256 private counter;\n",
        "    address public owner;\n",
        "    uint256[] public arr;\n",
        "\n",
        "    function poke(address token, uint256 amount) external {\n",
        "        uint256 bal = address(this).balance;\n",
        "        IERC20(token).transfer(msg.sender, amount);\n",
        "        counter = bal / 2 * amount;\n",
        "        require(amount > 0 && bal > 0, \"bad amount\");\n",
        "        for (uint256 i = 0; i < arr.length; i++) {\n",
        "            arr[i] = arr[i] + 1;\n",
        "        }\n",
        "    }\n",
        "\n",
        "    constructor() {\n",
        "        owner = msg.sender;\n",
        "    }\n",
        "\n",
        "    function _hidden() private view returns (bool) {\n",
        "        return owner == address(0);\n",
        "    }\n",
        "}\n"
    ));
    s
}

/// candidate directories of a C14 working directory: (directory kind, file, leading lines)
const CANDIDATES: [(&str, &str, usize); 3] = [("contracts", "InDefault.sol", 1), ("TomlDir", "InToml.sol", 2), ("FlagDir", "InFlag.sol", 3)];

fn layout_c14(root: &Path, contracts: bool) {
    write_file(&root.join("Root.sol"), probe_sol("Root", 0).as_bytes(), 0o644);
    for (dir, file, lead) in CANDIDATES {
        if dir == "contracts" && !contracts {
            continue;
        }
        let cname = file.trim_end_matches(".sol");
        write_file(&root.join(dir).join(file), probe_sol(cname, lead).as_bytes(), 0o644);
    }
}

/// findings of every single pattern on every candidate directory, computed in-process with the library's
/// analyze_dir (the detectors are NOT what C14 is about; the selection and the directory are)
struct Oracle {
    hits: BTreeMap<(String, String), Vec<String>>, // (directory kind, "cat:Variant") -> ["File.sol:line"]
    panics: Vec<String>,
}

fn flatten<K: std::fmt::Debug>(m: std::collections::HashMap<K, Vec<(String, BTreeSet<i32>)>>) -> Vec<String> {
    let mut v = vec![];
    for (_, files) in m {
        for (f, lines) in files {
            for l in lines {
                v.push(format!("{}:{}", f, l));
            }
        }
    }
    v.sort();
    v
}

fn build_oracle() -> Oracle {
    let sc = Scratch::new();
    layout_c14(&sc.root, true);
    let mut o = Oracle { hits: BTreeMap::new(), panics: vec![] };
    for (dir, _, _) in CANDIDATES {
        let d = sc.p(dir).to_string_lossy().to_string();
        for v in lib_opt::get_all_optimizations() {
            let d2 = d.clone();
            let key = (dir.to_string(), format!("opt:{:?}", v));
            match std::panic::catch_unwind(move || flatten(lib_opt::analyze_dir(&d2, vec![v]))) {
                Ok(h) => {
                    o.hits.insert(key, h);
                }
                Err(_) => o.panics.push(key.1),
            }
        }
        for v in lib_vul::get_all_vulnerabilities() {
            let d2 = d.clone();
            let key = (dir.to_string(), format!("vuln:{:?}", v));
            match std::panic::catch_unwind(move || flatten(lib_vul::analyze_dir(&d2, vec![v]))) {
                Ok(h) => {
                    o.hits.insert(key, h);
                }
                Err(_) => o.panics.push(key.1),
            }
        }
        for v in lib_qa::get_all_qa() {
            let d2 = d.clone();
            let key = (dir.to_string(), format!("qa:{:?}", v));
            match std::panic::catch_unwind(move || flatten(lib_qa::analyze_dir(&d2, vec![v]))) {
                Ok(h) => {
                    o.hits.insert(key, h);
                }
                Err(_) => o.panics.push(key.1),
            }
        }
    }
    o
}

#[derive(Clone, Debug)]
struct BinCase {
    flag: Option<String>,  // --path value ("@ABS/x" = absolute path of x in the working directory)
    toml: bool,            // --toml conf.toml given
    verbatim: bool,        // the toml file is a verbatim copy of the repository's Solstat.toml
    tpath: Option<String>, // `path` key of the toml file (None = key absent)
    contracts: bool,       // ./contracts exists
    pre: bool,             // a solstat_report.md with junk content exists before the run
    lists: [Vec<String>; 3],
}

impl BinCase {
    fn encode(&self) -> String {
        let mut s = String::from("kind=bin");
        if let Some(f) = &self.flag {
            s.push_str(&format!(";flag={}", pct_enc(f)));
        }
        s.push_str(&format!(";toml={};verbatim={}", self.toml as u8, self.verbatim as u8));
        if let Some(t) = &self.tpath {
            s.push_str(&format!(";tpath={}", pct_enc(t)));
        }
        s.push_str(&format!(";contracts={};pre={}", self.contracts as u8, self.pre as u8));
        s.push_str(&format!(";o={};v={};q={}", enc_list(&self.lists[0]), enc_list(&self.lists[1]), enc_list(&self.lists[2])));
        s
    }
    fn decode(s: &str) -> BinCase {
        let m = parse_kv_raw(s);
        let g = |k: &str| m.get(k).map(|v| pct_dec(v));
        let l = |k: &str| dec_list(m.get(k).map(|x| x.as_str()).unwrap_or(""));
        BinCase {
            flag: g("flag"),
            toml: g("toml").as_deref() == Some("1"),
            verbatim: g("verbatim").as_deref() == Some("1"),
            tpath: g("tpath"),
            contracts: g("contracts").as_deref() == Some("1"),
            pre: g("pre").as_deref() == Some("1"),
            lists: [l("o"), l("v"), l("q")],
        }
    }
    fn replay(&self) -> Vec<String> {
        vec!["c14-case".into(), format!("@src:{}", self.encode())]
    }
}

fn toml_str(s: &str) -> String {
    let mut o = String::from("\"");
    for c in s.chars() {
        match c {
            '"' => o.push_str("\\\""),
            '\\' => o.push_str("\\\\"),
            '\n' => o.push_str("\\n"),
            '\t' => o.push_str("\\t"),
            c => o.push(c),
        }
    }
    o.push('"');
    o
}

struct ObservedOpts {
    path: String,
    lists: [Vec<String>; 3],
}
fn parse_opts_line(stderr: &str) -> Option<ObservedOpts> {
    let line = stderr.lines().find(|l| l.starts_with("VERIF-OPTS "))?;
    let rest = line.strip_prefix("VERIF-OPTS path=\"")?;
    let mut path = String::new();
    let mut it = rest.char_indices();
    let mut end = None;
    while let Some((i, c)) = it.next() {
        if c == '\\' {
            if let Some((_, d)) = it.next() {
                path.push(d);
            }
        } else if c == '"' {
            end = Some(i);
            break;
        } else {
            path.push(c);
        }
    }
    let tail = &rest[end? + 1..];
    let list = |key: &str| -> Option<Vec<String>> {
        let k = format!(" {}=[", key);
        let s = tail.find(&k)? + k.len();
        let e = tail[s..].find(']')? + s;
        let body = tail[s..e].trim();
        Some(if body.is_empty() { vec![] } else { body.split(',').map(|x| x.trim().to_string()).collect() })
    };
    Some(ObservedOpts { path, lists: [list("optimizations")?, list("vulnerabilities")?, list("qa")?] })
}

fn norm_path(p: &str, root: &Path) -> String {
    let mut s = p.to_string();
    let r = root.to_string_lossy().to_string();
    if let Some(t) = s.strip_prefix(&r) {
        s = t.trim_start_matches('/').to_string();
    }
    while let Some(t) = s.strip_prefix("./") {
        s = t.to_string();
    }
    s.trim_end_matches('/').to_string()
}

/// "- File.sol:12" lines of a report -> sorted ["File.sol:12"]
fn report_hits(report: &str) -> Vec<String> {
    let mut v = vec![];
    for l in report.lines() {
        if let Some(t) = l.strip_prefix("- ") {
            if let Some((f, n)) = t.rsplit_once(':') {
                if f.ends_with(".sol") && !n.is_empty() && n.chars().all(|c| c.is_ascii_digit()) {
                    v.push(t.to_string());
                }
            }
        }
    }
    v.sort();
    v
}

const JUNK_REPORT: &str = "JUNK-REPORT-HEAD previous content that is not a solstat report\n";

fn eval_bin_case(bin: &Path, case: &BinCase, doc: &Documented, oracle: &Oracle) -> (Vec<Viol>, String) {
    let mut viols: Vec<Viol> = vec![];
    let sc = Scratch::new();
    let cwd = sc.p("cwd");
    fs::create_dir_all(&cwd).expect("mkdir cwd");
    let cwd = fs::canonicalize(&cwd).unwrap_or(cwd);
    layout_c14(&cwd, case.contracts);
    let abs = |v: &str| -> String {
        match v.strip_prefix("@ABS/") {
            Some(t) => cwd.join(t).to_string_lossy().to_string(),
            None => v.to_string(),
        }
    };
    let mut args: Vec<String> = vec![];
    if let Some(f) = &case.flag {
        args.push("--path".into());
        args.push(abs(f));
    }
    // the lists the toml file contains
    let mut lists = case.lists.clone();
    let mut tpath = case.tpath.clone();
    if case.toml {
        let text = if case.verbatim {
            tpath = Some("./contracts".to_string());
            for (i, c) in CATS.iter().enumerate() {
                lists[i] = doc.sample_toml[c].clone();
            }
            fs::read_to_string(repo_dir().join("Solstat.toml")).unwrap_or_default()
        } else {
            let mut t = String::new();
            if let Some(p) = &tpath {
                t.push_str(&format!("path = {}\n", toml_str(&abs(p))));
            }
            for (i, c) in CATS.iter().enumerate() {
                t.push_str(&format!("{} = [{}]\n", c.toml_key(), lists[i].iter().map(|n| toml_str(n)).collect::<Vec<_>>().join(", ")));
            }
            t
        };
        if case.verbatim {
            // what the sample says about `path` is scraped, not assumed
            tpath = None;
            for l in text.lines() {
                let l = l.trim();
                if let Some(r) = l.strip_prefix("path") {
                    if let Some(v) = r.trim_start().strip_prefix('=') {
                        tpath = Some(v.trim().trim_matches(|c| c == '\'' || c == '"').to_string());
                    }
                }
            }
        }
        write_file(&cwd.join("conf.toml"), text.as_bytes(), 0o644);
        args.push("--toml".into());
        args.push("conf.toml".into());
    }
    if case.pre {
        write_file(&cwd.join(REPORT), JUNK_REPORT.as_bytes(), 0o644);
    }
    let out = run_bin(bin, &cwd, &args, &sc.p("_io"));
    let report = fs::read(cwd.join(REPORT)).ok();
    let report_untouched = if case.pre { report.as_deref() == Some(JUNK_REPORT.as_bytes()) } else { report.is_none() };
    let cmdline = format!(
        "solstat {} [toml: path={:?} {:?}] ./contracts {}",
        args.join(" "),
        if case.toml { tpath.clone() } else { None },
        if case.toml { Some(&lists) } else { None },
        if case.contracts { "exists" } else { "absent" }
    );
    let actual_run = format!("{}; report {}; stderr: {}", out.status(), if report_untouched { "untouched" } else { "written" }, out.err_tail());

    // classification of the listed names by the DOCUMENTS (not by the table under test)
    let mut unknown: Vec<String> = vec![];
    let mut depends_on_rejected_documented = false;
    let mut expected_lists: [Vec<String>; 3] = [vec![], vec![], vec![]];
    for (i, c) in CATS.iter().enumerate() {
        if case.toml {
            for n in &lists[i] {
                let documented = doc.names[c].keys().any(|k| k.to_lowercase() == n.to_lowercase());
                if !documented {
                    unknown.push(n.clone());
                } else {
                    match resolve(*c, &n.to_lowercase()) {
                        Some(v) => {
                            if !expected_lists[i].contains(&v) {
                                expected_lists[i].push(v)
                            }
                        }
                        None => depends_on_rejected_documented = true,
                    }
                }
            }
        } else {
            expected_lists[i] = defaults(*c);
        }
        expected_lists[i].sort();
    }
    if !unknown.is_empty() {
        if out.ok() {
            viols.push((
                "c14:unknown-name-accepted:binary".into(),
                format!("the run succeeds although the configuration lists the unknown name(s) {:?}: {}", unknown, cmdline),
                "non-zero exit status".into(),
                actual_run.clone(),
            ));
        }
        if !report_untouched {
            viols.push((
                "c14:unknown-name-still-writes-report".into(),
                format!("solstat_report.md is written although the configuration lists the unknown name(s) {:?}: {}", unknown, cmdline),
                "no report written, an existing one left unchanged".into(),
                actual_run.clone(),
            ));
        }
        return (viols, cmdline);
    }
    if depends_on_rejected_documented {
        // already reported by the name-table part (documented-name-rejected); nothing more to learn here
        return (viols, format!("SKIPPED (lists a documented name the table rejects) {}", cmdline));
    }

    // required precedence: --path, else toml path, else ./contracts
    let (source, expected_path) = if let Some(f) = &case.flag {
        ("flag", abs(f))
    } else if case.toml && tpath.is_some() {
        ("toml", abs(tpath.as_ref().unwrap()))
    } else {
        ("default", "./contracts".to_string())
    };
    let kind = norm_path(&expected_path, &cwd);
    let dir_key = match source {
        // --path given explicitly but spelled like the default directory: still "given"
        "flag" if kind == "contracts" && !case.flag.as_deref().unwrap_or("").starts_with("@ABS/") => "c14:flag-path-ignored:explicit-default-spelling",
        "flag" => "c14:flag-path-ignored",
        "toml" => "c14:toml-path-ignored",
        _ => "c14:wrong-default-dir",
    };
    // an empty path names no directory (read_dir("") fails): the run must fail, never fall back to another directory
    let exists = !expected_path.trim().is_empty() && cwd.join(&kind).is_dir();
    let expect_desc = format!("analysed directory = {} ({}), patterns = {:?}", expected_path, source, expected_lists);
    if !exists {
        if out.ok() || !report_untouched {
            viols.push((dir_key.into(), format!("the directory to analyse ({}) does not exist, yet the run succeeds or writes a report: {}", expected_path, cmdline), "failure, no report".into(), actual_run));
        }
        return (viols, cmdline);
    }
    if !out.ok() {
        let all_out = format!("{}\n{}", out.stdout, out.stderr);
        let key = if case.toml && case.tpath.is_none() && !case.verbatim && all_out.contains("missing field") {
            "c14:toml-without-path-rejected"
        } else if all_out.contains("`./contracts` by default") || all_out.contains("Could not read contracts from directory") {
            dir_key // the binary looked for another directory than the one required
        } else {
            "c14:valid-config-run-fails"
        };
        viols.push((key.into(), format!("the run fails although the directory to analyse exists: {}", cmdline), format!("exit status 0; {}", expect_desc), actual_run));
        return (viols, cmdline);
    }
    // observation 1: hook H1
    match parse_opts_line(&out.stderr) {
        None => viols.push(("harness:no-verif-opts-line".into(), "the binary printed no VERIF-OPTS line (built without --cfg solstat_verif?)".into(), "VERIF-OPTS line".into(), out.err_tail())),
        Some(o) => {
            if norm_path(&o.path, &cwd) != kind {
                viols.push((dir_key.into(), format!("resolved directory is {:?}: {}", o.path, cmdline), expect_desc.clone(), format!("VERIF-OPTS path={:?}", o.path)));
            }
            for i in 0..3 {
                let mut got = o.lists[i].clone();
                got.sort();
                got.dedup();
                if got != expected_lists[i] {
                    let key = if case.toml { "c14:toml-patterns-not-exact" } else { "c14:default-not-all-patterns" };
                    viols.push((key.into(), format!("resolved {} differ from the configured ones: {}", CATS[i].toml_key(), cmdline), format!("{:?}", expected_lists[i]), format!("{:?}", got)));
                }
            }
        }
    }
    // observation 2: the report
    match report {
        None => viols.push(("c14:no-report-written".into(), format!("the run succeeds but writes no solstat_report.md: {}", cmdline), "report written".into(), actual_run)),
        Some(bytes) => {
            let text = String::from_utf8_lossy(&bytes).to_string();
            let got = report_hits(&text);
            let own_file = CANDIDATES.iter().find(|(d, _, _)| *d == kind).map(|(_, f, _)| *f).unwrap_or("?");
            let foreign: BTreeSet<String> = got.iter().map(|h| h.rsplit_once(':').unwrap().0.to_string()).filter(|f| f != own_file).collect();
            let mut expected: Vec<String> = vec![];
            for (i, c) in CATS.iter().enumerate() {
                for v in &expected_lists[i] {
                    if let Some(h) = oracle.hits.get(&(kind.clone(), format!("{}:{}", c.tag(), v))) {
                        expected.extend(h.iter().cloned());
                    }
                }
            }
            expected.sort();
            // the same prediction when a pattern selected by two listed names is counted once per name
            let mut expected_per_name: Vec<String> = vec![];
            for (i, c) in CATS.iter().enumerate() {
                if case.toml {
                    for n in &lists[i] {
                        if let Some(v) = resolve(*c, &n.to_lowercase()) {
                            if let Some(h) = oracle.hits.get(&(kind.clone(), format!("{}:{}", c.tag(), v))) {
                                expected_per_name.extend(h.iter().cloned());
                            }
                        }
                    }
                }
            }
            expected_per_name.sort();
            if !foreign.is_empty() {
                viols.push((dir_key.into(), format!("the report lists files of another directory ({:?}): {}", foreign, cmdline), expect_desc, format!("report findings: {:?}", got)));
            } else if got != expected && case.toml && got == expected_per_name {
                viols.push(("c14:aliased-names-duplicate-findings".into(), format!("a pattern listed under two of its accepted names is reported once per name: {}", cmdline), format!("{:?}", expected), format!("{:?}", got)));
            } else if got != expected {
                viols.push(("c14:report-disagrees-with-selection".into(), format!("the report's findings are not those of the selected patterns on the selected directory: {}", cmdline), format!("{:?}", expected), format!("{:?}", got)));
            } else if case.pre && text.contains("JUNK-REPORT-HEAD") {
                viols.push(("c18:report-appended".into(), format!("previous report content survives: {}", cmdline), "report replaced".into(), "junk marker still present".into()));
            }
        }
    }
    (viols, cmdline)
}

fn rand_case(name: &str, rng: &mut Rng) -> String {
    let bits: Vec<bool> = (0..name.len()).map(|_| rng.below(2) == 1).collect();
    apply_case(name, &|i| bits[i])
}

fn c14_bin(r: &mut CheckResult, bin: &Path, doc: &Documented, tier: &str, rng: &mut Rng) {
    let thorough = tier == "thorough";
    let oracle = build_oracle();
    for p in &oracle.panics {
        r.violate(&format!("harness:probe-contract-panics:{}", p), "the probe contract of the C14 harness makes a detector panic (unrelated defect polluting C14)", vec!["c14".into()], "no panic".into(), "panic".into());
    }
    let acc: Vec<Vec<String>> = CATS.iter().map(|c| accepted_map(*c, doc).keys().cloned().collect()).collect();
    let pick_one = |i: usize, want: &str| -> Vec<String> {
        if acc[i].iter().any(|n| n == want) {
            vec![want.to_string()]
        } else {
            acc[i].iter().take(1).cloned().collect()
        }
    };
    // selections
    let mut sels: Vec<[Vec<String>; 3]> = vec![];
    sels.push([pick_one(0, "address_balance"), pick_one(1, "unsafe_erc20_operation"), pick_one(2, "private_vars_leading_underscore")]);
    sels.push([vec![], vec![], vec![]]);
    let sample: Vec<Vec<String>> = CATS.iter().enumerate().map(|(i, c)| doc.sample_toml[c].iter().filter(|n| acc[i].contains(&n.to_lowercase())).cloned().collect()).collect();
    sels.push([sample[0].clone(), sample[1].clone(), sample[2].clone()]);
    sels.push([acc[0].iter().map(|n| n.to_uppercase()).collect(), acc[1].iter().map(|n| n.to_uppercase()).collect(), acc[2].iter().map(|n| n.to_uppercase()).collect()]);
    let n_fixed = sels.len();
    let n_rand = if thorough { 24 } else { 2 };
    for _ in 0..n_rand {
        let mut s: [Vec<String>; 3] = [vec![], vec![], vec![]];
        for i in 0..3 {
            for n in &acc[i] {
                if rng.below(2) == 0 {
                    s[i].push(rand_case(n, rng));
                }
            }
            rng.shuffle(&mut s[i]);
        }
        sels.push(s);
    }
    let flags: Vec<Option<String>> = if thorough {
        vec![None, Some("FlagDir".into()), Some("./FlagDir/".into()), Some("@ABS/FlagDir".into())]
    } else {
        vec![None, Some("FlagDir".into())]
    };
    let tpaths: Vec<Option<String>> = if thorough {
        vec![None, Some("TomlDir".into()), Some("./contracts".into()), Some("@ABS/TomlDir".into()), Some("./TomlDir/".into()), Some("TomlDir/".into())]
    } else {
        vec![None, Some("TomlDir".into()), Some("./contracts".into()), Some("@ABS/TomlDir".into())]
    };
    // a toml path that does not exist: the run must fail (never fall back to ./contracts)
    let tpaths: Vec<Option<String>> = tpaths.into_iter().chain([Some("MissingDir".to_string()), Some(String::new())]).collect();
    let mut cases: Vec<BinCase> = vec![];
    for flag in &flags {
        for contracts in [true, false] {
            cases.push(BinCase { flag: flag.clone(), toml: false, verbatim: false, tpath: None, contracts, pre: false, lists: [vec![], vec![], vec![]] });
            cases.push(BinCase { flag: flag.clone(), toml: true, verbatim: true, tpath: None, contracts, pre: false, lists: [vec![], vec![], vec![]] });
            for (ti, tp) in tpaths.iter().enumerate() {
                for (si, s) in sels.iter().enumerate() {
                    if !thorough && ti == 3 && si != 0 && si < n_fixed {
                        continue;
                    }
                    cases.push(BinCase { flag: flag.clone(), toml: true, verbatim: false, tpath: tp.clone(), contracts, pre: false, lists: s.clone() });
                }
            }
        }
    }
    // --path given explicitly but spelled like the default directory, toml path pointing elsewhere: --path wins
    for flag in ["./contracts", "contracts", "./contracts/"] {
        for tp in ["TomlDir", "./TomlDir", "@ABS/TomlDir"] {
            for si in [0, n_fixed] {
                if si < sels.len() {
                    cases.push(BinCase { flag: Some(flag.into()), toml: true, verbatim: false, tpath: Some(tp.into()), contracts: true, pre: false, lists: sels[si].clone() });
                }
            }
        }
        cases.push(BinCase { flag: Some(flag.into()), toml: false, verbatim: false, tpath: None, contracts: true, pre: false, lists: [vec![], vec![], vec![]] });
    }
    // unknown names: one bad name among good ones
    for (i, c) in CATS.iter().enumerate() {
        let mut bad: Vec<String> = vec!["not_a_pattern".into(), String::new()];
        if let Some(n) = acc[i].iter().find(|n| n.contains('_')) {
            bad.push(n.replace('_', "-"));
            bad.push(format!("{} ", n));
        }
        let other = (i + 1) % 3;
        if let Some(n) = acc[other].first() {
            bad.push(n.clone());
        }
        if thorough {
            for (_, s) in junk_names(*c, doc, 12, rng).into_iter().filter(|(cl, _)| cl == "mutation") {
                bad.push(s);
            }
        }
        for b in bad {
            for first in [true, false] {
                for pre in [false, true] {
                    let mut lists = sels[0].clone();
                    if first {
                        lists[i].insert(0, b.clone());
                    } else {
                        lists[i].push(b.clone());
                    }
                    cases.push(BinCase { flag: Some("FlagDir".into()), toml: true, verbatim: false, tpath: Some("TomlDir".into()), contracts: true, pre, lists });
                }
            }
        }
    }
    let mut skipped = 0;
    for case in &cases {
        let (viols, desc) = eval_bin_case(bin, case, doc, &oracle);
        r.evaluations += 1;
        if desc.starts_with("SKIPPED") {
            skipped += 1;
        } else {
            r.nontrivial.insert(case.encode());
        }
        if r.samples.len() < 5 && r.evaluations % 7 == 0 {
            r.sample(J::obj(vec![("run", J::s(desc.clone())), ("violations", J::Num(viols.len() as i64))]));
        }
        for (k, w, e, a) in viols {
            r.violate(&k, &w, case.replay(), e, a);
        }
    }
    r.extra.push(("binary_runs".into(), J::Num(cases.len() as i64)));
    r.extra.push(("binary_runs_skipped".into(), J::Num(skipped)));
    let nonempty = oracle.hits.iter().filter(|((d, _), h)| d == "TomlDir" && !h.is_empty()).count();
    r.extra.push(("patterns_with_findings_on_probe".into(), J::Num(nonempty as i64)));
}

pub fn run_c14(tier: &str, seed: u64) -> CheckResult {
    let mut r = CheckResult::new("c14");
    let mut rng = Rng::new(seed);
    let doc = scrape_documents();
    for m in &doc.missing {
        r.violate(&format!("harness:document-missing:{}", m), "a document that lists pattern names cannot be read", vec!["c14".into()], "readable".into(), "missing".into());
    }
    for c in CATS {
        if doc.names[&c].is_empty() {
            r.violate(&format!("harness:no-documented-names:{}", c.tag()), "no pattern names could be scraped for this category", vec!["c14".into()], "at least one name".into(), "none".into());
        }
    }
    silence_panics(|| {
        c14_lib(&mut r, &doc, tier, &mut rng);
        match solstat_bin(false) {
            Some(bin) => c14_bin(&mut r, &bin, &doc, tier, &mut rng),
            None => r.violate("harness:no-binary", "VXN_SOLSTAT_BIN is not set or is not a file: the binary half of C14 was not run", vec!["c14".into()], "path of the solstat binary".into(), "unset".into()),
        }
    });
    r.extra.push(("documented_names".into(), J::Obj(CATS.iter().map(|c| (c.tag().to_string(), J::arr_s(doc.names[c].keys().cloned()))).collect())));
    r.extra.push(("names_per_source".into(), J::Obj(doc.per_source.iter().map(|(s, n)| (s.clone(), J::Num(*n as i64))).collect())));
    r.rule = "name table: one case = one (category, spelling) call of the real str_to_*; non-trivial = distinct spellings (documented names in fixed + seeded/all casings; junk and near-miss names that must be rejected). binary: one case = one run of the real solstat binary in a fresh working directory that holds DIFFERENT probe files in ./contracts, ./TomlDir (toml path), ./FlagDir (--path) and ./ ; non-trivial = distinct (flag, toml, toml path, ./contracts present, pattern lists) combinations; the directory and the patterns are observed twice: hook H1 (VERIF-OPTS) and the file:line entries of solstat_report.md compared with the union of the library's per-pattern findings on the expected directory".into();
    r.bound = format!(
        "{} documented names x (7 fixed casings + {} seeded casings, or all 2^letters when fewer); all pairs for distinctness; every get_all_* entry for reachability; --path in {} forms x ./contracts present/absent x (no toml | sample Solstat.toml verbatim | toml path in {} forms x {} pattern selections) + --path spelled like the default (./contracts, contracts, ./contracts/) x toml path elsewhere in 3 forms + unknown-name runs",
        doc.names.values().map(|m| m.len()).sum::<usize>(),
        if tier == "thorough" { 4096 } else { 256 },
        if tier == "thorough" { 4 } else { 2 },
        if tier == "thorough" { 6 } else { 4 },
        if tier == "thorough" { 28 } else { 6 }
    );
    r.assumptions.push("documented names = first column of the tables in docs/identified-*.md + arrays of Solstat.toml + toml arrays in README.md code blocks (scraped on every run)".into());
    r.assumptions.push("the per-pattern findings used to predict the report come from the library's own analyze_dir (detector correctness is the subject of other properties)".into());
    r.assumptions.push("a toml file without a `path` key is taken to mean 'path not set in the configuration file' (third clause of the precedence rule)".into());
    r
}

/// replay of one C14 case; returns (holds, message)
pub fn replay_c14(payload: &str) -> (bool, String) {
    let m = parse_kv(payload);
    let kind = m.get("kind").cloned().unwrap_or_default();
    let doc = scrape_documents();
    silence_panics(|| {
        let viols: Vec<Viol> = if kind == "bin" {
            let case = BinCase::decode(payload);
            match solstat_bin(true) {
                Some(bin) => {
                    let oracle = build_oracle();
                    let (v, desc) = eval_bin_case(&bin, &case, &doc, &oracle);
                    println!("{}", desc);
                    v
                }
                None => return (true, "no solstat binary (set VXN_SOLSTAT_BIN)".to_string()),
            }
        } else {
            let cat = match m.get("cat").and_then(|t| Cat::from_tag(t)) {
                Some(c) => c,
                None => return (true, "bad payload: cat".to_string()),
            };
            let arg = m.get("arg").cloned().unwrap_or_default();
            let v = match kind.as_str() {
                "name" => {
                    // the documented name this spelling belongs to
                    let d = doc.names[&cat].keys().find(|k| k.to_lowercase() == arg.to_lowercase()).cloned().unwrap_or_else(|| arg.clone());
                    check_name(cat, &d, &arg)
                }
                "indefault" => check_in_default(cat, &arg),
                "collide" => arg.split_once(',').and_then(|(a, b)| check_collide(cat, a, b)),
                "reach" => check_reachable(cat, &arg, &doc),
                "reject" => {
                    let (class, s) = arg.split_once('|').unwrap_or(("junk", arg.as_str()));
                    check_reject(cat, class, s)
                }
                _ => return (true, format!("bad payload: kind {:?}", kind)),
            };
            v.into_iter().collect()
        };
        if viols.is_empty() {
            (true, "contract holds".to_string())
        } else {
            (false, viols.iter().map(|(k, w, e, a)| format!("{}: {}\n  expected: {}\n  actual:   {}", k, w, e, a)).collect::<Vec<_>>().join("\n"))
        }
    })
}

// ------------------------------------------------------------------------------------------------
// C18: frame of a run

/// findings for exactly one pattern per category when ALL patterns run (unsafe_erc20_operation, sstore,
/// private_vars_leading_underscore): the section order of the report cannot vary (C13's defect stays out)
fn one_sol(contract: &str, lead: usize) -> String {
    let mut s = String::new();
    for i in 0..lead {
        s.push_str(&format!("// filler line {}\n", i));
    }
    s.push_str("pragma solidity 0.8.10;\n\ninterface IERC20 {\n    function transfer(address to, uint256 amount) external returns (bool);\n}\n\n");
    s.push_str(&format!("contract {} {{\n", contract));
    s.push_str("    uint256 private counter;\n\n    function poke(address token, uint256 amount) external payable {\n        IERC20(token).transfer(msg.sender, amount);\n        counter = amount;\n    }\n}\n");
    s
}
const CLEAN_SOL: &str = "pragma solidity 0.8.10;\n\ncontract Clean {\n}\n";

enum TKind {
    File(Vec<u8>, u32),
    Dir(u32),
    Link(String),
}
struct TEntry {
    rel: String,
    kind: TKind,
}

const TREE_IDS: [&str; 8] = ["single", "mixed", "nested", "two", "clean", "nosol", "decoy", "symlink"];

/// trees(n): fixed small trees + seeded random ones ("rand<seed>.<k>")
fn make_tree(id: &str, cfg_all: bool) -> Vec<TEntry> {
    let sol = |name: &str, lead: usize| -> Vec<u8> {
        if cfg_all {
            one_sol(name, lead).into_bytes()
        } else {
            probe_sol(name, lead).into_bytes()
        }
    };
    let f = |rel: &str, c: Vec<u8>, mode: u32| TEntry { rel: rel.to_string(), kind: TKind::File(c, mode) };
    let d = |rel: &str, mode: u32| TEntry { rel: rel.to_string(), kind: TKind::Dir(mode) };
    let bin: Vec<u8> = (0..=255u8).chain([0xff, 0xfe, 0x00, 0xc3]).collect();
    match id {
        "single" => vec![f("A.sol", sol("A", 0), 0o644)],
        "two" => vec![f("A.sol", sol("A", 0), 0o644), f("B.sol", sol("B", 3), 0o644)],
        "nested" => vec![
            f("A.sol", sol("A", 1), 0o644),
            f("sub/B.sol", sol("B", 2), 0o644),
            f("sub/deep/C.sol", sol("C", 5), 0o644),
            d("empty", 0o755),
        ],
        "mixed" => vec![
            f("A.sol", sol("A", 0), 0o444),
            f("notes.txt", b"plain notes\nsecond line\n".to_vec(), 0o444),
            f("data.bin", bin, 0o644),
            f("Skipped.t.sol", sol("Skipped", 7), 0o644),
            f("README.md", b"# readme of the analysed tree\n".to_vec(), 0o644),
            f("sub/B.sol", sol("B", 4), 0o444),
            f("sub/.hidden", b"x".to_vec(), 0o600),
            f("sub/empty.sol.txt", vec![], 0o644),
            d("ro", 0o555),
        ],
        "clean" => vec![f("Clean.sol", CLEAN_SOL.as_bytes().to_vec(), 0o644), f("lib/Clean2.sol", CLEAN_SOL.replace("Clean", "Clean2").into_bytes(), 0o444)],
        "nosol" => vec![f("notes.txt", b"nothing to analyse here\n".to_vec(), 0o644), d("empty", 0o755)],
        "decoy" => vec![
            f("A.sol", sol("A", 2), 0o644),
            f("sub/solstat_report.md", b"DECOY report in a sub-directory; must stay as it is\n".to_vec(), 0o644),
            f("sub/B.sol", sol("B", 0), 0o644),
            f("solstat_report.md.txt", b"DECOY with a longer name\n".to_vec(), 0o644),
            f("old_solstat_report.md", b"DECOY with a prefix\n".to_vec(), 0o444),
        ],
        "symlink" => vec![
            f("A.sol", sol("A", 1), 0o644),
            f("notes.txt", b"link target\n".to_vec(), 0o644),
            TEntry { rel: "link.txt".into(), kind: TKind::Link("notes.txt".into()) },
            TEntry { rel: "dangling.txt".into(), kind: TKind::Link("does-not-exist".into()) },
        ],
        _ => {
            // rand<seed>.<k>
            let t = id.trim_start_matches("rand");
            let (a, b) = t.split_once('.').unwrap_or((t, "0"));
            let mut rng = Rng::new(a.parse::<u64>().unwrap_or(1).wrapping_mul(1000003).wrapping_add(b.parse::<u64>().unwrap_or(0)));
            let dirs = ["", "a", "a/b", "c", "a/b/d"];
            let mut v = vec![];
            let nsol = 1 + rng.below(5);
            for i in 0..nsol {
                let dir = dirs[rng.below(dirs.len())];
                let name = format!("F{}", i);
                let rel = if dir.is_empty() { format!("{}.sol", name) } else { format!("{}/{}.sol", dir, name) };
                let lead = rng.below(9);
                let mode = if rng.below(3) == 0 { 0o444 } else { 0o644 };
                v.push(f(&rel, sol(&name, lead), mode));
            }
            for (i, extra) in ["notes.txt", "x.t.sol", "data.bin", "solstat_report.md", "Makefile"].iter().enumerate() {
                if rng.below(2) == 0 {
                    let dir = dirs[1 + rng.below(dirs.len() - 1)];
                    let content = if *extra == "x.t.sol" { sol("T", i) } else { format!("extra file {}\n", i).into_bytes() };
                    v.push(f(&format!("{}/{}", dir, extra), content, if rng.below(2) == 0 { 0o444 } else { 0o644 }));
                }
            }
            if rng.below(2) == 0 {
                v.push(d("emptydir", 0o755));
            }
            v
        }
    }
}

fn materialize(root: &Path, tree: &[TEntry]) {
    fs::create_dir_all(root).expect("mkdir tree");
    // files and links first, directory modes last (a read-only directory must be filled before)
    for e in tree {
        let p = root.join(&e.rel);
        match &e.kind {
            TKind::File(c, mode) => write_file(&p, c, *mode),
            TKind::Link(t) => {
                if let Some(d) = p.parent() {
                    fs::create_dir_all(d).expect("mkdir");
                }
                std::os::unix::fs::symlink(t, &p).expect("symlink");
            }
            TKind::Dir(_) => fs::create_dir_all(&p).expect("mkdir"),
        }
    }
    for e in tree {
        if let TKind::Dir(mode) = &e.kind {
            fs::set_permissions(root.join(&e.rel), fs::Permissions::from_mode(*mode)).expect("chmod dir");
        }
    }
}

#[derive(Clone, Debug)]
struct FrameCase {
    tree: String,
    cwd: String,   // outside | inside | parent
    pre: String,   // none | big | small | samelen | onebyte | othertree | ro-onebyte | ro-same (see PRE_STATES)
    cfg: String,   // all (no toml) | toml (one pattern per category)
    style: String, // rel | abs | default (default: only with cwd=parent, the tree is ./contracts and no --path is given)
}
impl FrameCase {
    fn encode(&self) -> String {
        format!("tree={};cwd={};pre={};cfg={};style={}", self.tree, self.cwd, self.pre, self.cfg, self.style)
    }
    fn decode(s: &str) -> FrameCase {
        let m = parse_kv(s);
        let g = |k: &str, d: &str| m.get(k).cloned().unwrap_or_else(|| d.to_string());
        FrameCase { tree: g("tree", "single"), cwd: g("cwd", "outside"), pre: g("pre", "none"), cfg: g("cfg", "all"), style: g("style", "rel") }
    }
    fn replay(&self) -> Vec<String> {
        vec!["c18-case".into(), format!("@src:{}", self.encode())]
    }
}

fn junk_report(big: bool) -> Vec<u8> {
    let mut s = String::from(JUNK_REPORT);
    if big {
        while s.len() < 600_000 {
            s.push_str("- Old.sol:1 junk junk junk junk junk junk junk junk junk junk junk junk junk junk junk junk\n");
        }
    }
    s.push_str("JUNK-REPORT-TAIL\n");
    s.into_bytes()
}

fn canonical(report: &[u8]) -> Vec<Vec<u8>> {
    let mut v: Vec<Vec<u8>> = report.split(|b| *b == b'\n').map(|l| l.to_vec()).collect();
    v.sort();
    v
}

struct FrameOutcome {
    viols: Vec<Viol>,
    first_report: Option<Vec<u8>>,
    order_only: u64,
    /// false when the requested previous-report state degenerates (e.g. the expected report is empty)
    meaningful: bool,
    desc: String,
}

/// "<tree>~ren": the same tree with every analysed .sol file renamed to another name of equal length
/// (first letter of the base name advanced by one: Alpha.sol -> Blpha.sol): a DIFFERENT tree whose
/// report has the same byte length
fn make_tree_id(id: &str, cfg_all: bool) -> Vec<TEntry> {
    match id.strip_suffix("~ren") {
        None => make_tree(id, cfg_all),
        Some(base) => {
            let mut t = make_tree(base, cfg_all);
            for e in t.iter_mut() {
                if e.rel.ends_with(".sol") && !e.rel.to_lowercase().ends_with(".t.sol") {
                    let cut = e.rel.rfind('/').map(|i| i + 1).unwrap_or(0);
                    let mut cs: Vec<char> = e.rel.chars().collect();
                    // `cut` is a byte index; tree paths are ASCII
                    let c = cs[cut];
                    cs[cut] = match c {
                        'Z' => 'A',
                        'z' => 'a',
                        c if c.is_ascii_alphabetic() => ((c as u8) + 1) as char,
                        c => c,
                    };
                    e.rel = cs.into_iter().collect();
                }
            }
            t
        }
    }
}

/// expected reports, keyed by (tree id, cfg): the first report of the history
/// (cwd outside the tree, no previous report, relative --path)
type RefCache = BTreeMap<(String, String), Option<Vec<u8>>>;

const PRE_STATES: [&str; 8] = ["none", "big", "small", "samelen", "onebyte", "othertree", "ro-onebyte", "ro-same"];

fn is_reference_case(case: &FrameCase) -> bool {
    case.cwd == "outside" && case.pre == "none" && case.style == "rel"
}

fn reference_for(bin: &Path, tree: &str, cfg: &str, cache: &mut RefCache) -> Option<Vec<u8>> {
    let key = (tree.to_string(), cfg.to_string());
    if let Some(r) = cache.get(&key) {
        return r.clone();
    }
    let rc = FrameCase { tree: tree.into(), cwd: "outside".into(), pre: "none".into(), cfg: cfg.into(), style: "rel".into() };
    let r = eval_frame_case(bin, &rc, cache).first_report;
    cache.insert(key, r.clone());
    r
}

/// one history: snapshot, run, snapshot, run, snapshot
fn eval_frame_case(bin: &Path, case: &FrameCase, cache: &mut RefCache) -> FrameOutcome {
    let is_ref = is_reference_case(case);
    // R: the report this tree must produce, obtained from an unrelated, empty working directory
    let reference: Option<Vec<u8>> = if is_ref { None } else { reference_for(bin, &case.tree, &case.cfg, cache) };
    let sc = Scratch::new();
    let cfg_all = case.cfg == "all";
    let tree = make_tree_id(&case.tree, cfg_all);
    let style = if case.style == "default" && case.cwd != "parent" { "rel" } else { case.style.as_str() };
    let (cwd_rel, tree_rel, rel_arg): (&str, &str, &str) = match case.cwd.as_str() {
        "inside" => ("tree", "tree", "."),
        "parent" => ("par", "par/contracts", "contracts"),
        _ => ("work", "tree", "../tree"),
    };
    materialize(&sc.p(tree_rel), &tree);
    fs::create_dir_all(sc.p(cwd_rel)).expect("mkdir cwd");
    if case.cwd != "inside" {
        write_file(&sc.p(cwd_rel).join("keep.txt"), b"bystander file in the working directory\n", 0o644);
        write_file(&sc.p(cwd_rel).join("old/solstat_report.md"), b"bystander report in a sub-directory of the working directory\n", 0o444);
    }
    let path_arg: Option<String> = match style {
        "default" => None,
        "abs" => Some(sc.p(tree_rel).to_string_lossy().to_string()),
        _ => Some(rel_arg.to_string()),
    };
    let mut args: Vec<String> = vec![];
    if let Some(p) = &path_arg {
        args.push("--path".into());
        args.push(p.clone());
    }
    if !cfg_all {
        let tp = path_arg.clone().unwrap_or_else(|| "./contracts".to_string());
        let text = if case.cfg == "toml-empty" {
            // a configuration that selects NO pattern: the (empty) report must still be written and replace an old one
            format!("path = {}\noptimizations = []\nvulnerabilities = []\nqa = []\n", toml_str(&tp))
        } else {
            format!(
                "path = {}\noptimizations = [\"address_balance\"]\nvulnerabilities = [\"unsafe_erc20_operation\"]\nqa = [\"private_vars_leading_underscore\"]\n",
                toml_str(&tp)
            )
        };
        write_file(&sc.p("conf.toml"), text.as_bytes(), 0o444);
        args.push("--toml".into());
        args.push("../conf.toml".into());
    }
    let report_rel = format!("{}/{}", cwd_rel, REPORT);
    // previous ./solstat_report.md
    let mut meaningful = true;
    let mut read_only = false;
    let r_bytes: Vec<u8> = reference.clone().unwrap_or_default();
    let junk: Option<Vec<u8>> = match case.pre.as_str() {
        "big" => Some(junk_report(true)),
        "small" => Some(junk_report(false)),
        "samelen" => {
            // junk of exactly len(R) bytes
            let mut j: Vec<u8> = b"JUNK-REPORT-HEAD same length as the new report\n".to_vec();
            while j.len() < r_bytes.len() {
                j.extend_from_slice(b"junk line of a report that is not the result of this run\n");
            }
            j.truncate(r_bytes.len());
            meaningful = j != r_bytes;
            Some(j)
        }
        "onebyte" | "ro-onebyte" => {
            // R with one byte changed in the middle
            let mut j = r_bytes.clone();
            if j.is_empty() {
                meaningful = false;
            } else {
                let m = j.len() / 2;
                j[m] = if j[m] == b'#' { b'*' } else { b'#' };
            }
            read_only = case.pre == "ro-onebyte";
            Some(j)
        }
        "ro-same" => {
            read_only = true;
            Some(r_bytes.clone())
        }
        "othertree" => {
            // the report of a different tree (same files under other names of equal length)
            let other = reference_for(bin, &format!("{}~ren", case.tree.trim_end_matches("~ren")), &case.cfg, cache).unwrap_or_default();
            meaningful = other != r_bytes && other.len() == r_bytes.len();
            Some(other)
        }
        _ => None,
    };
    if reference.is_none() && !is_ref {
        meaningful = false; // no expected report could be obtained (reported by the reference history itself)
    }
    if let Some(j) = &junk {
        write_file(&sc.p(&report_rel), j, if read_only { 0o444 } else { 0o644 });
    }
    let stale_class = match case.pre.as_str() {
        "samelen" => "same-length",
        "onebyte" => "one-byte-differs",
        "ro-onebyte" => "one-byte-differs-read-only",
        "othertree" => "other-tree-same-length",
        _ => "other-length",
    };
    let desc = format!("tree {} ({} entries), cwd {} , solstat {} , previous report: {}{}", case.tree, tree.len(), cwd_rel, args.join(" "), case.pre, junk.as_ref().map(|j| format!(" ({} bytes)", j.len())).unwrap_or_default());
    let mut out = FrameOutcome { viols: vec![], first_report: None, order_only: 0, meaningful, desc: desc.clone() };
    let in_tree = |rel: &str| rel == tree_rel || rel.starts_with(&format!("{}/", tree_rel));
    let mut prev = snapshot(&sc.root, "_io");
    let mut reports: Vec<Vec<u8>> = vec![];
    for run in 1..=2 {
        let o = run_bin(bin, &sc.p(cwd_rel), &args, &sc.p("_io"));
        let now = snapshot(&sc.root, "_io");
        if !o.ok() {
            if read_only && !o.timed_out && o.code.is_some() {
                // a run that cannot replace a read-only report may fail, but then loudly; nothing else may change
                for (rel, ch) in diff_snap(&prev, &now) {
                    if rel != report_rel {
                        out.viols.push(("c18:failed-run-leaves-traces".into(), format!("the failing run {} changes {} ({:?}): {}", run, rel, ch, desc), "nothing changes".into(), format!("{} {:?}", rel, ch)));
                    }
                }
                break;
            }
            out.viols.push(("c18:run-failed".into(), format!("run {} fails: {}", run, desc), "exit status 0".into(), format!("{}; stderr: {}", o.status(), o.err_tail())));
        }
        for (rel, ch) in diff_snap(&prev, &now) {
            if rel == report_rel {
                if ch == Change::Deleted || ch == Change::TypeOrMode {
                    out.viols.push(("c18:report-not-a-plain-replacement".into(), format!("run {}: ./solstat_report.md {:?}: {}", run, ch, desc), "created or content replaced".into(), format!("{:?}", ch)));
                }
                continue;
            }
            let shown = rel.strip_prefix(&format!("{}/", cwd_rel)).map(|r| format!("./{}", r)).unwrap_or_else(|| format!("<scratch>/{}", rel));
            let (key, what) = match ch {
                Change::Created => {
                    // stable class: the path relative to the working directory (paths inside a seeded random tree generalised)
                    let class = if case.tree.starts_with("rand") && in_tree(&rel) && rel != report_rel { "<inside-generated-tree>".to_string() } else { shown.clone() };
                    (format!("c18:extra-file-written:{}", class), format!("run {} creates {}", run, shown))
                }
                Change::Touched if in_tree(&rel) => ("c18:input-touched".to_string(), format!("run {} changes the modification time of the input {}", run, shown)),
                _ if in_tree(&rel) => ("c18:input-modified".to_string(), format!("run {} modifies the analysed tree: {} {:?}", run, shown, ch)),
                _ => ("c18:bystander-modified".to_string(), format!("run {} modifies a file that is neither input nor the report: {} {:?}", run, shown, ch)),
            };
            out.viols.push((key, format!("{}: {}", what, desc), format!("only ./{} differs", REPORT), format!("{} {:?}", shown, ch)));
        }
        let rep = match now.get(&report_rel) {
            Some(e) if e.kind == 'f' => fs::read(sc.p(&report_rel)).unwrap_or_default(),
            _ => {
                if o.ok() {
                    out.viols.push(("c18:no-report-written".into(), format!("run {} leaves no regular file ./solstat_report.md: {}", run, desc), "report file".into(), "absent".into()));
                }
                break;
            }
        };
        let text = String::from_utf8_lossy(&rep).to_string();
        if run == 1 && junk.is_some() {
            let j = junk.as_ref().unwrap();
            let differs_from_expected = match &reference {
                Some(r) => j != r,
                None => true,
            };
            if &rep == j && differs_from_expected && o.ok() {
                // the run reports success but the previous file is still there, byte for byte
                out.viols.push((
                    format!("c18:stale-report-kept:{}", stale_class),
                    format!("the run succeeds but ./solstat_report.md still holds the previous content: {}", desc),
                    format!("the new report ({} bytes, hash {:016x})", r_bytes.len(), fnv64(&r_bytes)),
                    format!("previous content kept ({} bytes, hash {:016x})", rep.len(), fnv64(&rep)),
                ));
            } else if text.contains("JUNK-REPORT-HEAD") {
                out.viols.push(("c18:report-appended".into(), format!("the previous content of ./solstat_report.md survives the run: {}", desc), "report replaced".into(), format!("{} bytes, previous content still at the start ({} bytes before)", rep.len(), j.len())));
            } else if text.contains("JUNK-REPORT-TAIL") {
                out.viols.push(("c18:report-not-truncated".into(), format!("the tail of a longer previous report survives the run: {}", desc), "report replaced".into(), format!("{} bytes, tail marker of the previous content present", rep.len())));
            }
        }
        if run == 2 {
            let first = &reports[0];
            if &rep != first {
                if !first.is_empty() && rep.len() > first.len() && rep.starts_with(first) {
                    out.viols.push(("c18:report-appended".into(), format!("the second run appends to the first run's report: {}", desc), format!("{} bytes", first.len()), format!("{} bytes starting with the first report", rep.len())));
                } else if canonical(&rep) == canonical(first) {
                    out.order_only += 1; // same lines in another order: C13's defect, not a frame defect
                } else {
                    out.viols.push(("c18:second-run-differs".into(), format!("the second run's report differs from the first although no input changed: {}", desc), format!("{} bytes, hash {:016x}", first.len(), fnv64(first)), format!("{} bytes, hash {:016x}", rep.len(), fnv64(&rep))));
                }
            }
        }
        reports.push(rep);
        prev = now;
    }
    if let Some(first) = reports.first() {
        out.first_report = Some(first.clone());
        // after the run the file must equal R byte for byte: the result must not depend on the working
        // directory or on what lay in it (a stale report already reported above is not reported twice)
        if let Some(r) = &reference {
            let stale_reported = out.viols.iter().any(|v| v.0.starts_with("c18:stale-report-kept"));
            if r != first && !stale_reported {
                if canonical(r) == canonical(first) {
                    out.order_only += 1;
                } else {
                    out.viols.push(("c18:result-depends-on-cwd".into(), format!("the report differs from the one obtained for the same tree from an unrelated, empty working directory: {}", desc), format!("{} bytes, hash {:016x}", r.len(), fnv64(r)), format!("{} bytes, hash {:016x}", first.len(), fnv64(first))));
                }
            }
        }
    }
    out
}

pub fn run_c18(tier: &str, seed: u64) -> CheckResult {
    let mut r = CheckResult::new("c18");
    let thorough = tier == "thorough";
    let bin = match solstat_bin(false) {
        Some(b) => b,
        None => {
            r.violate("harness:no-binary", "VXN_SOLSTAT_BIN is not set or is not a file: C18 was not run", vec!["c18".into()], "path of the solstat binary".into(), "unset".into());
            return r;
        }
    };
    let mut trees: Vec<String> = TREE_IDS.iter().map(|s| s.to_string()).collect();
    let n_rand = if thorough { 40 } else { 3 };
    for k in 0..n_rand {
        trees.push(format!("rand{}.{}", seed, k));
    }
    let cwds = ["outside", "inside", "parent"];
    let mut cases: Vec<FrameCase> = vec![];
    let mut rot = 0usize;
    for (ti, t) in trees.iter().enumerate() {
        for cfg in ["all", "toml", "toml-empty"] {
            if cfg == "toml-empty" && ti > 1 {
                continue;
            }
            for cwd in cwds {
                // quick: every previous-report state for the first three trees; for the others the
                // same-length states always, the remaining ones in rotation
                let full = thorough || ti < 3;
                let plist: Vec<&str> = if full {
                    PRE_STATES.to_vec()
                } else {
                    rot += 1;
                    let mut v = vec![];
                    if cwd == "outside" {
                        v.push("none");
                    }
                    v.push(["big", "small", "ro-onebyte", "ro-same"][rot % 4]);
                    v.push(["samelen", "onebyte", "othertree"][rot % 3]);
                    if cwd == "inside" {
                        v.push("othertree");
                    }
                    v.dedup();
                    v
                };
                for pre in plist {
                    let old_state = pre == "none" || pre == "big" || pre == "small";
                    let styles: Vec<&str> = if thorough && old_state {
                        if cwd == "parent" {
                            vec!["rel", "abs", "default"]
                        } else {
                            vec!["rel", "abs"]
                        }
                    } else if cwd == "parent" {
                        vec![if (ti + rot) % 2 == 0 { "default" } else { "rel" }]
                    } else if ti == 1 && pre == "none" {
                        vec!["rel", "abs"]
                    } else {
                        vec!["rel"]
                    };
                    for style in styles {
                        cases.push(FrameCase { tree: t.clone(), cwd: cwd.into(), pre: pre.into(), cfg: cfg.into(), style: style.into() });
                    }
                }
            }
        }
    }
    let mut cache: RefCache = BTreeMap::new();
    let mut order_only = 0;
    let mut degenerate = 0;
    let mut per_state: BTreeMap<String, i64> = BTreeMap::new();
    for case in &cases {
        let o = eval_frame_case(&bin, case, &mut cache);
        if is_reference_case(case) {
            cache.insert((case.tree.clone(), case.cfg.clone()), o.first_report.clone());
        }
        r.evaluations += 1;
        order_only += o.order_only;
        if o.first_report.is_some() && o.meaningful {
            r.nontrivial.insert(case.encode());
            *per_state.entry(case.pre.clone()).or_default() += 1;
        } else if !o.meaningful {
            degenerate += 1;
        }
        if r.samples.len() < 6 && r.evaluations % 23 == 1 {
            r.sample(J::obj(vec![("history", J::s(o.desc.clone())), ("report_bytes", J::Num(o.first_report.as_ref().map(|f| f.len() as i64).unwrap_or(-1))), ("violations", J::Num(o.viols.len() as i64))]));
        }
        for (k, w, e, a) in o.viols {
            r.violate(&k, &w, case.replay(), e, a);
        }
    }
    r.extra.push(("histories".into(), J::Num(cases.len() as i64)));
    r.extra.push(("nontrivial_histories_per_previous_report_state".into(), J::Obj(per_state.into_iter().map(|(k, v)| (k, J::Num(v))).collect())));
    r.extra.push(("degenerate_histories".into(), J::Num(degenerate)));
    r.extra.push(("order_only_differences_attributed_to_C13".into(), J::Num(order_only as i64)));
    r.rule = "one case = one history (tree, working directory relative to it, previous ./solstat_report.md, configuration): snapshot of the whole scratch area (analysed tree + working directory + bystanders: relative path, type, mode, size, FNV-1a hash, mtime of regular files), run, snapshot, run, snapshot; allowed difference: ./solstat_report.md created or its content replaced; after every run the file must equal, byte for byte, the report R obtained for the same tree from an unrelated empty working directory. Previous-report states: none, larger junk, smaller junk, junk of exactly len(R), R with one byte changed in the middle (also read-only), R itself read-only, the report of a different tree of the same length (same files renamed to names of equal length); with a read-only previous report a run may fail with a non-zero status but may not succeed and keep the old file. Non-trivial = histories in which a report was produced and the previous-report state is not degenerate (e.g. empty R). Inputs give findings for exactly ONE pattern per category (cfg=all: contracts that only trigger unsafe_erc20_operation/sstore/private_vars_leading_underscore; cfg=toml: one pattern per category selected), so the HashMap section order (C13's defect) cannot vary; should two reports still differ only in line order the difference is counted in order_only_differences_attributed_to_C13, not reported here".into();
    r.bound = format!("{} trees ({} fixed: single, read-only/mixed/binary files, nested, decoy report files, symlinks, no .sol, no findings; {} seeded random) x cwd in {{outside, analysed directory (--path .), parent}} x 8 previous-report states x {{all patterns, toml}} x path styles (quick: every state for 3 trees, a rotating subset that always contains a same-length state for the others); 2 consecutive runs each", trees.len(), TREE_IDS.len(), n_rand);
    r.assumptions.push("the snapshot covers the scratch area only (analysed tree, working directory, toml file); writes elsewhere in the file system are not observed".into());
    r.assumptions.push("run as the current user: read-only modes are recorded and compared but do not stop a privileged user from writing (as root the read-only previous report is simply replaced)".into());
    r
}

pub fn replay_c18(payload: &str) -> (bool, String) {
    let case = FrameCase::decode(payload);
    let bin = match solstat_bin(true) {
        Some(b) => b,
        None => return (true, "no solstat binary (set VXN_SOLSTAT_BIN)".to_string()),
    };
    let mut cache: RefCache = BTreeMap::new();
    let o = eval_frame_case(&bin, &case, &mut cache);
    let mut msg = o.desc.clone();
    for (k, w, e, a) in &o.viols {
        msg.push_str(&format!("\n{}: {}\n  expected: {}\n  actual:   {}", k, w, e, a));
    }
    if o.viols.is_empty() {
        msg.push_str("\ncontract holds");
    }
    (o.viols.is_empty(), msg)
}

/// Returns Some(exit code) when `cmd` belongs to this module.
pub fn dispatch(cmd: &str, rest: &[String], tier: &str, seed: u64) -> Option<i32> {
    match cmd {
        "c14" => {
            println!("{}", run_c14(tier, seed).to_json().render());
            Some(0)
        }
        "c18" => {
            println!("{}", run_c18(tier, seed).to_json().render());
            Some(0)
        }
        "c14-case" | "c18-case" => {
            if rest.is_empty() {
                eprintln!("usage: vxn {} <@src:payload|@file:path>", cmd);
                return Some(2);
            }
            let payload = crate::arg_or_file(&rest[0]);
            let (ok, msg) = if cmd == "c14-case" { replay_c14(&payload) } else { replay_c18(&payload) };
            println!("{}", msg);
            Some(if ok { 0 } else { 1 })
        }
        _ => None,
    }
}
