//! C14, C18: configuration resolution and file-system frame of the real binary
use crate::report::CheckResult;

/// Returns Some(exit code) when `cmd` belongs to this module.
pub fn dispatch(cmd: &str, rest: &[String], tier: &str, seed: u64) -> Option<i32> {
    let _ = (rest, tier, seed);
    match cmd {
        "c14" => {
            println!("{}", todo("c14").to_json().render());
            Some(0)
        }
        "c18" => {
            println!("{}", todo("c18").to_json().render());
            Some(0)
        }
        _ => None,
    }
}

#[allow(dead_code)]
fn todo(name: &str) -> CheckResult {
    let mut r = CheckResult::new(name);
    r.violate("harness:not-implemented", "check not implemented yet", vec![name.to_string()], String::new(), String::new());
    r
}
