//! C01 (bounded counterexample engine + stand-in evidence): the real `walk_node_for_targets`
//! against the oracle generated from the parse-tree type definitions.
//!
//! For every generated program, for every node n of the program (file, top-level item, member,
//! statement, expression) and for several target sets T:
//!     walk_node_for_targets(T, n) == all_nodes(n).filter(kind in T)          (as sequences)
use crate::gen::{self, Prog};
use crate::json::J;
use crate::oracle_gen as og;
use crate::report::{CheckResult, Rng};
use solstat::analyzer::ast::{self, Node, Target};
use std::collections::HashSet;

pub fn node_kind_name(n: &Node) -> String {
    let k = og::kind(n);
    for (name, t) in og::TARGET_NAMES {
        if *t == k {
            let cat = match n {
                Node::Statement(_) => "Statement",
                Node::Expression(_) => "Expression",
                Node::SourceUnit(_) => "SourceUnit",
                Node::SourceUnitPart(_) => "SourceUnitPart",
                Node::ContractPart(_) => "ContractPart",
            };
            return format!("{}::{}", cat, name);
        }
    }
    "?".into()
}

fn target_name(t: Target) -> &'static str {
    for (name, x) in og::TARGET_NAMES {
        if *x == t {
            return name;
        }
    }
    "?"
}

pub fn corpus(tier: &str, rng: &mut Rng) -> Vec<Prog> {
    // payload containing many different node kinds (so that a dropped sub-tree drops something)
    let rich = "h2(x ** 2, ++y) + (arr[0]--) * uint256(arr.length) / (x > 1 ? y : 3) - (x & 1 | 2 ^ 3) % 7";
    let small = "x ** y";
    let mut v = vec![];
    v.extend(gen::sink());
    v.extend(gen::place_types());
    v.extend(gen::place_expr_everywhere("rich", rich));
    v.extend(gen::place_expr_everywhere("plain", "x + y"));
    v.extend(gen::place_expr_everywhere("pow", small));
    v.extend(gen::place_expr_everywhere("preinc", "++x"));
    v.extend(gen::place_stmt_everywhere("stmt-try", "try this.g0(x ** 2) returns (uint r) { x = r ** 2; } catch Error(string memory why) { y = --x; } catch { x = y ** 3; }"));
    v.extend(gen::place_stmt_everywhere("stmt-for", "for (uint i = x ** 2; i < y ** 2; i = i ** 2) { ++x; }"));
    // deep nesting (within the depth the properties name: 64): a searched node far below the root must still be found
    for depth in [20usize, 45, 60] {
        let parens = format!("x = {}x ** y{};", "(".repeat(depth), ")".repeat(depth));
        v.push(Prog { src: gen::file_with_stmt(&parens), tag: format!("deep-parentheses-{}", depth) });
        let blocks = format!("{}x = x ** y;{}", "{ ".repeat(depth), " }".repeat(depth));
        v.push(Prog { src: gen::file_with_stmt(&blocks), tag: format!("deep-blocks-{}", depth) });
        let mut chain = String::from("if (x == 0) { y = 1; }");
        for k in 1..depth {
            chain.push_str(&format!(" else if (x == {}) {{ y = {}; }}", k, k));
        }
        chain.push_str(" else { y = x ** y; }");
        v.push(Prog { src: gen::file_with_stmt(&chain), tag: format!("deep-else-if-{}", depth) });
    }
    let n = if tier == "thorough" { 4000 } else { 300 };
    v.extend(gen::place_expr_two_level("rich2", rich, rng, n));
    v.extend(gen::place_expr_two_level("pow2", small, rng, n));
    v
}

/// returns Some((subtree size, description)) when the walker disagrees with the oracle on this root
fn check_node(root: &Node, tsets: &[Vec<Target>], r: &mut CheckResult) -> Option<(usize, String, String)> {
    let all = og::all_nodes(root);
    let mut bad = None;
    for ts in tsets {
        let set: HashSet<Target> = ts.iter().cloned().collect();
        let expect: Vec<Node> = all.iter().filter(|n| set.contains(&og::kind(n))).cloned().collect();
        let got = ast::walk_node_for_targets(&set, root.clone());
        r.evaluations += 1;
        if got != expect && bad.is_none() {
            let mut i = 0;
            while i < got.len() && i < expect.len() && got[i] == expect[i] {
                i += 1;
            }
            let what = if i < expect.len() && (i >= got.len() || !got[i..].contains(&expect[i])) {
                format!("misses a {}", node_kind_name(&expect[i]))
            } else if i < got.len() {
                format!("returns an unexpected, duplicated or misordered {}", node_kind_name(&got[i]))
            } else {
                "returns a sequence of the wrong length".to_string()
            };
            let tn: Vec<&str> = ts.iter().map(|t| target_name(*t)).collect();
            bad = Some((all.len(), what, tn.join(",")));
        }
    }
    bad
}

pub fn run(tier: &str, seed: u64) -> CheckResult {
    let mut r = CheckResult::new("c01");
    let mut rng = Rng::new(seed);
    let progs = corpus(tier, &mut rng);
    let mut parse_fail = vec![];
    let all_targets: Vec<Target> = og::TARGET_NAMES.iter().map(|(_, t)| *t).collect();
    for p in &progs {
        let su = match solang_parser::parse(&p.src, 0) {
            Ok((su, _)) => su,
            Err(_) => {
                parse_fail.push(p.tag.clone());
                continue;
            }
        };
        let root = Node::SourceUnit(su);
        let nodes = og::all_nodes(&root);
        // target sets: all, each kind present in the file as a singleton, two random subsets
        let mut present: Vec<Target> = vec![];
        for n in &nodes {
            let k = og::kind(n);
            if !present.contains(&k) {
                present.push(k);
            }
        }
        let mut tsets: Vec<Vec<Target>> = vec![all_targets.clone(), vec![]];
        for k in &present {
            tsets.push(vec![*k]);
        }
        for _ in 0..2 {
            let mut s = vec![];
            for t in &all_targets {
                if rng.below(3) == 0 {
                    s.push(*t);
                }
            }
            tsets.push(s);
        }
        // whole file with every target set; every sub-node as root with the full set and a random one.
        // The *smallest* failing root names the defective arm of the traversal.
        let mut failing: Vec<(usize, usize, String, String, String)> = vec![]; // (index, size, arm, what, targets)
        if let Some((sz, what, tn)) = check_node(&root, &tsets, &mut r) {
            failing.push((0, sz, node_kind_name(&root), what, tn));
        }
        let sub_sets = vec![all_targets.clone(), tsets[tsets.len() - 1].clone()];
        for (i, n) in nodes.iter().enumerate().skip(1) {
            if let Some((sz, what, tn)) = check_node(n, &sub_sets, &mut r) {
                failing.push((i, sz, node_kind_name(n), what, tn));
            }
        }
        // a failing root is *minimal* when no node inside its subtree fails on its own: it names the arm
        for (i, sz, arm, what, tn) in &failing {
            let has_inner = failing.iter().any(|(j, _, _, _, _)| j > i && *j < i + sz);
            if has_inner {
                continue;
            }
            r.violate(
                &format!("walker-arm:{}", arm),
                &format!("searching from a {} node {}", arm, what),
                vec!["c01-case".into(), format!("@src:{}", p.src), tn.clone()],
                "walk_node_for_targets == filter(all nodes of the parse tree)".into(),
                what.clone(),
            );
        }
        r.nontrivial.insert(p.tag.clone());
        if r.samples.len() < 3 {
            r.sample(J::obj(vec![("tag", J::s(p.tag.clone())), ("nodes", J::Num(nodes.len() as i64)), ("source", J::s(p.src.clone()))]));
        }
    }
    // coverage of the parse-tree positions by the corpus
    let mut uncovered = vec![];
    let mut covered = 0;
    for (i, name) in og::POSITIONS.iter().enumerate() {
        if og::COV[i].load(std::sync::atomic::Ordering::Relaxed) > 0 {
            covered += 1;
        } else {
            uncovered.push(name.to_string());
        }
    }
    r.rule = "programs = type/expression/statement payloads placed in every position template (+ seeded two-level nestings, kitchen-sink files); a case is one (root node, target set) comparison of walk_node_for_targets with the generated oracle; distinct_nontrivial counts distinct (payload, position) programs that parsed".into();
    r.bound = format!("{} programs; every node of each program as root; target sets: all, none, every singleton present, random subsets", progs.len());
    r.extra.push(("positions_total".into(), J::Num(og::POSITIONS.len() as i64)));
    r.extra.push(("positions_covered".into(), J::Num(covered)));
    r.extra.push(("positions_uncovered".into(), J::arr_s(uncovered)));
    r.extra.push(("parse_failures".into(), J::arr_s(parse_fail)));
    r.assumptions.push("bounded: corpus of generated programs only; the oracle is generated from pt.rs type definitions".into());
    r
}

/// replay: vxn c01-case <src-file> <comma separated targets>
pub fn replay(src: &str, targets: &str) -> (bool, String) {
    let su = match solang_parser::parse(src, 0) {
        Ok((su, _)) => su,
        Err(e) => return (true, format!("does not parse: {:?}", e)),
    };
    let mut set = HashSet::new();
    for name in targets.split(',') {
        for (n, t) in og::TARGET_NAMES {
            if *n == name {
                set.insert(*t);
            }
        }
    }
    let root = Node::SourceUnit(su);
    let mut msgs = vec![];
    let mut ok = true;
    for n in og::all_nodes(&root) {
        let all = og::all_nodes(&n);
        let expect: Vec<Node> = all.iter().filter(|m| set.contains(&og::kind(m))).cloned().collect();
        let got = ast::walk_node_for_targets(&set, n.clone());
        if got != expect {
            ok = false;
            msgs.push(format!(
                "root {}: walker returned {:?}, the parse tree contains {:?}",
                node_kind_name(&n),
                got.iter().map(node_kind_name).collect::<Vec<_>>(),
                expect.iter().map(node_kind_name).collect::<Vec<_>>()
            ));
            if msgs.len() > 3 {
                break;
            }
        }
    }
    (ok, msgs.join("\n"))
}

pub fn dispatch(cmd: &str, rest: &[String], tier: &str, seed: u64) -> Option<i32> {
    match cmd {
        "c01" => {
            println!("{}", run(tier, seed).to_json().render());
            Some(0)
        }
        "c01-case" => {
            let (ok, msg) = replay(&crate::arg_or_file(&rest[0]), &rest[1]);
            println!("{}", msg);
            Some(if ok { 0 } else { 1 })
        }
        _ => None,
    }
}
