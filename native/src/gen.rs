//! Solidity program generator: a grammar of templates.
//!
//! A *position* is a whole-file template with one hole (`@E@` expression, `@S@` statement, `@T@` type).
//! A *payload* is source text for the hole.  Every syntactic position class named by C01 has at least
//! one template here; `vx` reports which (type, variant, field) positions of the parse-tree type
//! table the generated corpus actually reached (measured by the generated oracle's coverage counters).
use crate::report::Rng;

pub const HEAD: &str = "pragma solidity 0.8.10;\n";

/// contract scaffold: `@M@` is a member hole
pub const SCAFFOLD: &str = "contract B0 {\n    constructor(uint q) {}\n    modifier m0(uint q) {\n        _;\n    }\n}\n\ncontract C0 is B0 {\n    uint s0;\n    uint[] a0;\n    mapping(uint => uint) mp0;\n    event Ev(uint v);\n    error Er(uint v);\n\n    constructor() B0(1) {}\n\n    function g0(uint q) public returns (uint) {\n        return q;\n    }\n\n@M@\n}\n";

pub fn file_with_member(member: &str) -> String {
    format!("{}{}", HEAD, SCAFFOLD.replace("@M@", member))
}

pub fn file_with_stmt(stmt: &str) -> String {
    file_with_member(&format!(
        "    function f0(uint x, uint y, uint[] memory arr) public returns (uint) {{\n        {}\n        return x;\n    }}",
        stmt
    ))
}

/// (name, statement template with @E@) -- expression holes in statement-level positions
pub const STMT_POS: &[(&str, &str)] = &[
    ("stmt-expr", "@E@;"),
    ("return", "if (x == 77) { return @E@; }"),
    ("if-cond", "if (@E@) { x = 1; }"),
    ("if-then", "if (x > 0) { @E@; }"),
    ("if-then-nobrace", "if (x > 0) @E@;"),
    ("if-else", "if (x > 0) { x = 2; } else { @E@; }"),
    ("else-if-cond", "if (x > 0) { x = 2; } else if (@E@) { x = 3; }"),
    ("while-cond", "while (@E@) { x = 1; }"),
    ("while-body", "while (x > 0) { @E@; }"),
    ("for-init", "for (uint i = @E@; i < 3; i++) { x = 1; }"),
    ("for-init-expr", "for (@E@; x < 3; x++) { y = 1; }"),
    ("for-cond", "for (uint i = 0; @E@; i++) { x = 1; }"),
    ("for-next", "for (uint i = 0; i < 3; @E@) { x = 1; }"),
    ("for-body", "for (uint i = 0; i < 3; i++) { @E@; }"),
    ("for-body-nobrace", "for (uint i = 0; i < 3; i++) @E@;"),
    ("do-body", "do { @E@; } while (x > 0);"),
    ("do-cond", "do { x = 1; } while (@E@);"),
    ("emit-arg", "emit Ev(@E@);"),
    ("revert-arg", "if (x == 78) { revert Er(@E@); }"),
    ("revert-named-arg", "if (x == 79) { revert Er({v: @E@}); }"),
    ("revert-string", "if (x == 80) { revert(@E@); }"),
    ("vardef-init", "uint z = @E@;"),
    ("tuple-assign", "(uint p1, uint p2) = (@E@, 2);"),
    ("try-expr", "try this.g0(@E@) returns (uint r) { x = r; } catch { x = 0; }"),
    ("try-body", "try this.g0(1) returns (uint r) { @E@; } catch { x = 0; }"),
    ("try-body-noreturns", "try this.g0(1) { @E@; } catch { x = 0; }"),
    ("catch-simple-body", "try this.g0(1) returns (uint r) { x = r; } catch { @E@; }"),
    ("catch-bytes-body", "try this.g0(1) returns (uint r) { x = r; } catch (bytes memory lowLevel) { @E@; }"),
    ("catch-named-body", "try this.g0(1) returns (uint r) { x = r; } catch Error(string memory reason) { @E@; }"),
    ("catch-second-clause", "try this.g0(1) returns (uint r) { x = r; } catch Error(string memory reason) { x = 1; } catch (bytes memory lowLevel) { @E@; }"),
    ("unchecked-block", "unchecked { @E@; }"),
    ("nested-block", "{ { @E@; } }"),
    ("call-block-value", "this.g0{value: @E@}(1);"),
    ("call-block-two", "this.g0{gas: 1, value: @E@}(1);"),
    ("deep-nest", "if (x > 0) { while (y > 0) { for (uint i = 0; i < 2; i++) { unchecked { @E@; } } } }"),
];

/// (name, expression template with @E@) -- operand positions of every operator; placed via `stmt-expr`
pub const EXPR_POS: &[(&str, &str)] = &[
    ("add-l", "(@E@) + y"), ("add-r", "y + (@E@)"),
    ("sub-l", "(@E@) - y"), ("sub-r", "y - (@E@)"),
    ("mul-l", "(@E@) * y"), ("mul-r", "y * (@E@)"),
    ("div-l", "(@E@) / y"), ("div-r", "y / (@E@)"),
    ("mod-l", "(@E@) % y"), ("mod-r", "y % (@E@)"),
    ("pow-l", "(@E@) ** y"), ("pow-r", "y ** (@E@)"),
    ("shl-l", "(@E@) << y"), ("shl-r", "y << (@E@)"),
    ("shr-l", "(@E@) >> y"), ("shr-r", "y >> (@E@)"),
    ("band-l", "(@E@) & y"), ("band-r", "y & (@E@)"),
    ("bor-l", "(@E@) | y"), ("bor-r", "y | (@E@)"),
    ("bxor-l", "(@E@) ^ y"), ("bxor-r", "y ^ (@E@)"),
    ("lt-l", "(@E@) < y"), ("lt-r", "y < (@E@)"),
    ("gt-l", "(@E@) > y"), ("gt-r", "y > (@E@)"),
    ("le-l", "(@E@) <= y"), ("le-r", "y <= (@E@)"),
    ("ge-l", "(@E@) >= y"), ("ge-r", "y >= (@E@)"),
    ("eq-l", "(@E@) == y"), ("eq-r", "y == (@E@)"),
    ("ne-l", "(@E@) != y"), ("ne-r", "y != (@E@)"),
    ("and-l", "(@E@) && true"), ("and-r", "true && (@E@)"),
    ("or-l", "(@E@) || true"), ("or-r", "true || (@E@)"),
    ("not", "!(@E@)"), ("complement", "~(@E@)"), ("neg", "-(@E@)"),
    ("delete", "delete (@E@)"),
    ("preinc", "++(@E@)"), ("predec", "--(@E@)"), ("postinc", "(@E@)++"), ("postdec", "(@E@)--"),
    ("paren", "((@E@))"),
    ("ternary-c", "(@E@) ? x : y"), ("ternary-t", "x > 0 ? (@E@) : y"), ("ternary-f", "x > 0 ? y : (@E@)"),
    ("assign-r", "x = (@E@)"), ("assign-l", "(@E@) = x"),
    ("assign-add-r", "x += (@E@)"), ("assign-sub-r", "x -= (@E@)"), ("assign-mul-r", "x *= (@E@)"),
    ("assign-div-r", "x /= (@E@)"), ("assign-mod-r", "x %= (@E@)"), ("assign-or-r", "x |= (@E@)"),
    ("assign-and-r", "x &= (@E@)"), ("assign-xor-r", "x ^= (@E@)"), ("assign-shl-r", "x <<= (@E@)"),
    ("assign-shr-r", "x >>= (@E@)"), ("assign-add-l", "(@E@) += x"),
    ("call-arg0", "g0(@E@)"), ("call-arg1", "h2(1, @E@)"), ("call-callee", "(@E@)(1)"),
    ("named-arg", "g0({q: @E@})"), ("named-callee", "(@E@)({q: 1})"),
    ("index", "arr[@E@]"), ("index-base", "(@E@)[0]"),
    ("slice-lo", "arr[(@E@):]"), ("slice-hi", "arr[:(@E@)]"), ("slice-base", "(@E@)[1:2]"),
    ("member-base", "(@E@).length"),
    ("array-literal", "[(@E@), 1]"),
    ("type-call", "uint256(@E@)"), ("payable-call", "payable(@E@)"), ("address-call", "address(@E@)"),
    ("new-arg", "new B0(@E@)"),
    ("call-block-callee", "(@E@){value: 1}(1)"),
    ("unary-plus-ish", "x + +(@E@)"),
];

/// (name, member template with @E@) -- expression holes in declaration-level positions
pub const MEMBER_POS: &[(&str, &str)] = &[
    ("state-init", "    uint t1 = @E@;"),
    ("constant-init", "    uint constant K1 = @E@;"),
    ("modifier-arg", "    function h1(uint x, uint y) public m0(@E@) {}"),
    ("modifier-arg-2nd", "    function h1(uint x, uint y) public m0(1) m0(@E@) returns (uint) { return x; }"),
    ("modifier-body", "    modifier m1(uint x, uint y) {\n        @E@;\n        _;\n    }"),
    ("array-type-len", "    uint[@E@] arr1;"),
    ("fallback-body", "    fallback() external {\n        uint x; uint y;\n        @E@;\n    }"),
    ("receive-body", "    receive() external payable {\n        uint x; uint y;\n        @E@;\n    }"),
    ("private-fn-body", "    function _p1(uint x, uint y) private {\n        @E@;\n    }"),
];

/// whole-file templates (top level positions) with @E@
pub const FILE_POS: &[(&str, &str)] = &[
    ("base-arg-on-contract", "pragma solidity 0.8.10;\ncontract B0 { constructor(uint q) {} }\ncontract D0 is B0(@E@) {\n    uint x; uint y;\n}\n"),
    ("base-arg-on-ctor", "pragma solidity 0.8.10;\ncontract B0 { constructor(uint q) {} }\ncontract D0 is B0 {\n    uint x; uint y;\n    constructor() B0(@E@) {}\n}\n"),
    ("free-fn-body", "pragma solidity 0.8.10;\nfunction ff(uint x, uint y) pure returns (uint) {\n    return @E@;\n}\n"),
    ("free-fn-modifier-ish", "pragma solidity 0.8.10;\nfunction ff(uint x, uint y) m9(@E@) returns (uint) {\n    return x;\n}\n"),
    ("file-constant", "pragma solidity 0.8.10;\nuint constant x = 3;\nuint constant y = 4;\nuint constant KK = @E@;\n"),
    ("library-fn", "pragma solidity 0.8.10;\nlibrary L0 {\n    function lf(uint x, uint y) internal returns (uint) {\n        return @E@;\n    }\n}\n"),
    ("abstract-ctor", "pragma solidity 0.8.10;\nabstract contract A0 {\n    uint x; uint y;\n    constructor() {\n        @E@;\n    }\n}\n"),
    ("second-contract", "pragma solidity 0.8.10;\ncontract First { function a() public {} }\ncontract Second {\n    uint x; uint y;\n    function b() public {\n        @E@;\n    }\n}\n"),
    ("interface-then-contract", "pragma solidity 0.8.10;\ninterface I0 { function a() external; }\ncontract Second {\n    uint x; uint y;\n    function b() public {\n        @E@;\n    }\n}\n"),
];

/// whole-file templates with a type hole @T@
pub const TYPE_POS: &[(&str, &str)] = &[
    ("param-type", "pragma solidity 0.8.10;\ncontract C { function f(@T@ p) internal {} }\n"),
    ("return-type", "pragma solidity 0.8.10;\ncontract C { function f() internal returns (@T@ r) {} }\n"),
    ("state-type", "pragma solidity 0.8.10;\ncontract C { @T@ v; }\n"),
    ("struct-field", "pragma solidity 0.8.10;\ncontract C { struct S { uint a; @T@ b; } }\n"),
    ("file-struct-field", "pragma solidity 0.8.10;\nstruct S { uint a; @T@ b; }\n"),
    ("event-param", "pragma solidity 0.8.10;\ncontract C { event E(uint a, @T@ b); }\n"),
    ("file-event-param", "pragma solidity 0.8.10;\nevent E(uint a, @T@ b);\n"),
    ("error-param", "pragma solidity 0.8.10;\ncontract C { error E(uint a, @T@ b); }\n"),
    ("file-error-param", "pragma solidity 0.8.10;\nerror E(uint a, @T@ b);\n"),
    ("mapping-value", "pragma solidity 0.8.10;\ncontract C { mapping(uint => @T@) m; }\n"),
    ("mapping-nested", "pragma solidity 0.8.10;\ncontract C { mapping(uint => mapping(address => @T@)) m; }\n"),
    ("using-for", "pragma solidity 0.8.10;\nlibrary L { }\ncontract C { using L for @T@; }\n"),
    ("file-using-for", "pragma solidity 0.8.10;\nlibrary L { }\nusing L for @T@;\n"),
    ("local-type", "pragma solidity 0.8.10;\ncontract C { function f() internal { @T@ v; } }\n"),
    ("catch-param-type", "pragma solidity 0.8.10;\ncontract C { function g() public {} function f() public { try this.g() {} catch (@T@ p) {} } }\n"),
    ("try-returns-type", "pragma solidity 0.8.10;\ncontract C { function g() public returns (uint) {} function f() public { try this.g() returns (@T@ p) {} catch {} } }\n"),
    ("fn-type-param", "pragma solidity 0.8.10;\ncontract C { function(@T@) external returns (uint) fp; }\n"),
    ("fn-type-return", "pragma solidity 0.8.10;\ncontract C { function(uint) external returns (@T@) fp; }\n"),
    ("list-decl", "pragma solidity 0.8.10;\ncontract C { function f() internal { (@T@ a, uint b) = (1, 2); } }\n"),
    ("new-array", "pragma solidity 0.8.10;\ncontract C { function f() internal { new @T@[](3); } }\n"),
    ("free-fn-param", "pragma solidity 0.8.10;\nfunction ff(@T@ p) pure {}\n"),
];

pub const TYPE_PAYLOADS: &[&str] = &[
    "uint256", "uint8", "int64", "bool", "address", "address payable", "bytes32", "bytes1", "bytes", "string",
    "uint128[]", "uint8[4]", "uint[2][]", "Foo", "Foo.Bar",
];
pub const TYPE_PAYLOADS_FIXEDLEN: &[&str] = &["uint[x + 1]", "uint[2 ** 3]", "uint[K * 2]"];

/// statement holes (payload is a whole statement)
pub const STMT_HOLES: &[(&str, &str)] = &[
    ("body", "@S@"),
    ("if-then", "if (x > 0) { @S@ }"),
    ("else", "if (x > 0) { x = 1; } else { @S@ }"),
    ("while", "while (x > 0) { @S@ }"),
    ("for", "for (uint i = 0; i < 2; i++) { @S@ }"),
    ("do", "do { @S@ } while (x > 0);"),
    ("unchecked", "unchecked { @S@ }"),
    ("try-body", "try this.g0(1) returns (uint r) { @S@ } catch { x = 0; }"),
    ("catch-body", "try this.g0(1) returns (uint r) { x = r; } catch { @S@ }"),
    ("catch-named", "try this.g0(1) returns (uint r) { x = r; } catch Error(string memory reason) { @S@ }"),
    ("block", "{ @S@ }"),
];

pub struct Prog {
    pub src: String,
    pub tag: String,
}

pub fn place_expr_everywhere(payload_name: &str, payload: &str) -> Vec<Prog> {
    let mut out = vec![];
    for (n, t) in STMT_POS {
        out.push(Prog { src: file_with_stmt(&t.replace("@E@", payload)), tag: format!("{}@{}", payload_name, n) });
    }
    for (n, t) in EXPR_POS {
        let e = t.replace("@E@", payload);
        out.push(Prog { src: file_with_stmt(&format!("{};", e)), tag: format!("{}@expr:{}", payload_name, n) });
    }
    for (n, t) in MEMBER_POS {
        out.push(Prog { src: file_with_member(&t.replace("@E@", payload)), tag: format!("{}@member:{}", payload_name, n) });
    }
    for (n, t) in FILE_POS {
        out.push(Prog { src: t.replace("@E@", payload), tag: format!("{}@file:{}", payload_name, n) });
    }
    out
}

pub fn place_stmt_everywhere(payload_name: &str, stmt: &str) -> Vec<Prog> {
    STMT_HOLES
        .iter()
        .map(|(n, t)| Prog { src: file_with_stmt(&t.replace("@S@", stmt)), tag: format!("{}@stmt:{}", payload_name, n) })
        .collect()
}

pub fn place_types() -> Vec<Prog> {
    let mut out = vec![];
    for (n, t) in TYPE_POS {
        for p in TYPE_PAYLOADS {
            out.push(Prog { src: t.replace("@T@", p), tag: format!("type:{}@{}", p, n) });
        }
        if *n == "state-type" || *n == "struct-field" || *n == "local-type" || *n == "param-type" {
            for p in TYPE_PAYLOADS_FIXEDLEN {
                out.push(Prog { src: t.replace("@T@", p), tag: format!("type:{}@{}", p, n) });
            }
        }
    }
    out
}

/// two-level composition: payload in expression position `e` placed in statement position `s`
pub fn place_expr_two_level(payload_name: &str, payload: &str, rng: &mut Rng, n: usize) -> Vec<Prog> {
    let mut out = vec![];
    for _ in 0..n {
        let (en, et) = rng.pick(EXPR_POS);
        let (en2, et2) = rng.pick(EXPR_POS);
        let (sn, st) = rng.pick(STMT_POS);
        let e = et2.replace("@E@", &et.replace("@E@", payload));
        out.push(Prog { src: file_with_stmt(&st.replace("@E@", &e)), tag: format!("{}@{}>{}>{}", payload_name, sn, en2, en) });
    }
    out
}

/// A "kitchen sink" of complete files exercising declaration forms that the hole templates do not.
pub const SINK: &[(&str, &str)] = &[
    ("sink-decls", r#"// SPDX-License-Identifier: MIT
pragma solidity >=0.8.0 <0.9.0;
pragma experimental ABIEncoderV2;
import "./a.sol";
import * as X from "./b.sol";
import {A as B1, C1} from "./c.sol";
enum Color { Red, Green }
struct P { uint128 a; uint128 b; address c; }
type Price is uint128;
error TopErr(uint code, string why);
event TopEv(address indexed who, uint amount);
uint constant TOP = 10 ** 18;
function freeFn(uint a, uint b) pure returns (uint) { return a * b + TOP; }
using {freeFn} for uint global;
interface IThing { function poke(uint v) external returns (bool); event Poked(uint v); }
library Lib { function twice(uint v) internal pure returns (uint) { return v * 2; } struct LS { uint z; } }
abstract contract Base { uint internal baseVal; constructor(uint v) { baseVal = v; } modifier onlyPos(uint v) { require(v > 0, "pos"); _; } function virt() public virtual returns (uint); }
contract Main is Base(1 + 2), IThing {
    using Lib for uint;
    enum Inner { A, B }
    struct Pack { uint8 a; uint256 b; uint8 c; bytes4 d; bool e; address f; }
    type Id is uint64;
    error Bad(uint code);
    event Did(uint indexed a, bytes32 b) anonymous;
    uint public constant C = 5;
    uint immutable imm;
    uint private _priv;
    uint[] public list;
    mapping(address => mapping(uint => Pack)) nested;
    function(uint) external returns (uint) fptr;
    bytes32 constant H = keccak256("x");
    ;
    constructor() Base(3 * 4) onlyPos(2 ** 3) { imm = 7; }
    receive() external payable {}
    fallback() external payable {}
    function virt() public override returns (uint) { return baseVal; }
    function poke(uint v) external override onlyPos(v + 1) returns (bool) {
        uint[] memory arr = new uint[](v);
        (uint a, uint b) = (v, v + 1);
        (, uint c) = (1, 2);
        for (uint i = 0; i < arr.length; ++i) { arr[i] = i ** 2; }
        uint k = 0;
        do { k++; } while (k < 3);
        while (k > 0) { --k; if (k == 1) continue; else break; }
        try this.poke{gas: 5000 + v}(v - 1) returns (bool ok) { ok = !ok; } catch Error(string memory reason) { revert(reason); } catch (bytes memory) { revert Bad({code: v * 2}); }
        emit Did(a, bytes32(b));
        assembly { let z := add(1, 2) sstore(0, z) }
        assembly "evmasm" { let y := mul(2, 3) }
        unchecked { c += v.twice(); }
        delete list;
        list.push(a > b ? a : b);
        bytes memory data = abi.encodeWithSelector(this.poke.selector, v);
        uint sl = uint(uint8(data[0])) + data[1:3].length;
        fptr = this.virt2;
        nested[msg.sender][0].b = 1 ether + 2 gwei + 3 wei + 1 days;
        address payable who = payable(address(this));
        who.transfer(address(this).balance);
        string memory sx = "a" "b";
        bytes memory hx = hex"00ff" hex"aa";
        uint h = 0x1F + 1e3 + 1.5e1 + 0.5 ether;
        if (a == b || (a != c && !(a < b))) { return true; } else if (a >= b) { return false; }
        return (a & b | c ^ ~a) << 2 >> 1 > 0;
    }
    function virt2(uint q) external returns (uint) { return q % 3; }
}
"#),
    ("sink-old", r#"pragma solidity ^0.4.24;
library SafeMath { function add(uint a, uint b) internal pure returns (uint) { uint c = a + b; require(c >= a); return c; } }
contract Old {
    using SafeMath for uint;
    uint total;
    address owner;
    function Old() public { owner = msg.sender; }
    function kill() public { if (msg.sender == owner) selfdestruct(owner); }
    function bump(uint v) public { total = total.add(v); }
    function () public payable {}
}
"#),
];

pub fn sink() -> Vec<Prog> {
    SINK.iter().map(|(n, s)| Prog { src: s.to_string(), tag: n.to_string() }).collect()
}
