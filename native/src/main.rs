//! vxn: native harness (bounded contract checks, counterexample search, replay) over the real library.
mod bin;
#[cfg(not(feature = "binonly"))]
mod c01;
#[cfg(not(feature = "binonly"))]
mod c10;
#[cfg(not(feature = "binonly"))]
mod det;
#[cfg(not(feature = "binonly"))]
mod dirs;
#[cfg(not(feature = "binonly"))]
pub mod gen;
pub mod json;
#[cfg(not(feature = "binonly"))]
mod lines;
#[cfg(not(feature = "binonly"))]
#[allow(non_snake_case, unused_variables, unreachable_patterns, dead_code)]
pub mod oracle_gen;
#[cfg(not(feature = "binonly"))]
mod rep;
pub mod report;

use std::env;

/// "@file:<path>" reads the payload from a file; "@src:<text>" is inline text
pub fn arg_or_file(a: &str) -> String {
    if let Some(p) = a.strip_prefix("@file:") {
        std::fs::read_to_string(p).expect("cannot read payload file")
    } else if let Some(t) = a.strip_prefix("@src:") {
        t.to_string()
    } else {
        a.to_string()
    }
}

fn main() {
    let args: Vec<String> = env::args().collect();
    if args.len() < 2 {
        eprintln!("usage: vxn <check> [--tier quick|thorough] [--seed N] | vxn <replay-cmd> args..");
        std::process::exit(2);
    }
    let mut tier = env::var("VERIF_TIER").unwrap_or_else(|_| "quick".to_string());
    let mut seed: u64 = env::var("VERIF_SEED").ok().and_then(|s| s.parse().ok()).unwrap_or(1);
    let mut i = 2;
    let mut rest = vec![];
    while i < args.len() {
        match args[i].as_str() {
            "--tier" if i + 1 < args.len() => {
                tier = args[i + 1].clone();
                i += 2;
            }
            "--seed" if i + 1 < args.len() => {
                seed = args[i + 1].parse().unwrap_or(1);
                i += 2;
            }
            _ => {
                rest.push(args[i].clone());
                i += 1;
            }
        }
    }
    let cmd = args[1].as_str();
    #[cfg(not(feature = "binonly"))]
    let mods: [fn(&str, &[String], &str, u64) -> Option<i32>; 7] =
        [c01::dispatch, c10::dispatch, rep::dispatch, dirs::dispatch, bin::dispatch, lines::dispatch, det::dispatch];
    #[cfg(feature = "binonly")]
    let mods: [fn(&str, &[String], &str, u64) -> Option<i32>; 1] = [bin::dispatch];
    for m in mods.iter() {
        if let Some(code) = m(cmd, &rest, &tier, seed) {
            std::process::exit(code);
        }
    }
    eprintln!("unknown command {}", cmd);
    std::process::exit(2);
}
