//! vxn: native harness (bounded contract checks, counterexample search, replay) over the real library.
mod c01;
mod gen;
mod json;
#[allow(non_snake_case, unused_variables, unreachable_patterns)]
mod oracle_gen;
mod report;

use std::env;

fn arg_or_file(a: &str) -> String {
    // "@file:<path>" reads the payload from a file; "@src:<text>" is inline text
    if let Some(p) = a.strip_prefix("@file:") {
        std::fs::read_to_string(p).expect("cannot read payload file")
    } else if let Some(t) = a.strip_prefix("@src:") {
        t.to_string()
    } else {
        a.to_string()
    }
}

fn main() {
    let args: Vec<String> = env::args().collect();
    if args.len() < 2 {
        eprintln!("usage: vxn <check> [--tier quick|thorough] [--seed N] | vxn <replay-cmd> args..");
        std::process::exit(2);
    }
    let mut tier = "quick".to_string();
    let mut seed: u64 = env::var("VERIF_SEED").ok().and_then(|s| s.parse().ok()).unwrap_or(1);
    let mut i = 2;
    let mut rest = vec![];
    while i < args.len() {
        match args[i].as_str() {
            "--tier" => {
                tier = args[i + 1].clone();
                i += 2;
            }
            "--seed" => {
                seed = args[i + 1].parse().unwrap_or(1);
                i += 2;
            }
            _ => {
                rest.push(args[i].clone());
                i += 1;
            }
        }
    }
    // a panic inside a check must not look like a pass
    let cmd = args[1].as_str();
    match cmd {
        "c01" => println!("{}", c01::run(&tier, seed).to_json().render()),
        "c01-case" => {
            let (ok, msg) = c01::replay(&arg_or_file(&rest[0]), &rest[1]);
            println!("{}", msg);
            std::process::exit(if ok { 0 } else { 1 });
        }
        _ => {
            eprintln!("unknown command {}", cmd);
            std::process::exit(2);
        }
    }
}
