//! C04..C09, C19 bounded parts: executable transcription of DESIGN.md section 8
use crate::report::CheckResult;

/// Returns Some(exit code) when `cmd` belongs to this module.
pub fn dispatch(cmd: &str, rest: &[String], tier: &str, seed: u64) -> Option<i32> {
    let _ = (rest, tier, seed);
    match cmd {
        "c04" => {
            println!("{}", todo("c04").to_json().render());
            Some(0)
        }
        "c05" => {
            println!("{}", todo("c05").to_json().render());
            Some(0)
        }
        "c06" => {
            println!("{}", todo("c06").to_json().render());
            Some(0)
        }
        "c07" => {
            println!("{}", todo("c07").to_json().render());
            Some(0)
        }
        "c08" => {
            println!("{}", todo("c08").to_json().render());
            Some(0)
        }
        "c09" => {
            println!("{}", todo("c09").to_json().render());
            Some(0)
        }
        "c19" => {
            println!("{}", todo("c19").to_json().render());
            Some(0)
        }
        _ => None,
    }
}

#[allow(dead_code)]
fn todo(name: &str) -> CheckResult {
    let mut r = CheckResult::new(name);
    r.violate("harness:not-implemented", "check not implemented yet", vec![name.to_string()], String::new(), String::new());
    r
}
