//! C04..C09, C19 bounded parts: executable transcription of DESIGN.md section 8, run against the real
//! detector functions of solstat.
//!
//!   det.rs         detector table, guarded execution (catch_unwind), contract check, replay, dispatch
//!   det_oracle.rs  `expected(det, source unit) -> {must, may}` (start offsets), built on oracle_gen::all_nodes
//!   det_corpus.rs  corpora: payloads x position templates, declaration-level templates, version matrix
//!   det_checks.rs  the checks c04, c05, c06, c07, c08, c09, c19
//!
//! Contract per (program, detector):   must  ⊆  { start(l) : l ∈ detector(program) }  ⊆  may
//! A panic inside solstat is a C04 violation and makes the pair inconclusive for the other properties.
use solang_parser::pt;
use std::collections::{BTreeSet, HashSet};
use std::sync::Mutex;

#[path = "det_checks.rs"]
pub mod checks;
#[path = "det_corpus.rs"]
pub mod corpus;
#[path = "det_oracle.rs"]
pub mod oracle;

use solstat::analyzer::{optimizations as opt, qa, vulnerabilities as vuln};

#[derive(Clone, Copy, PartialEq, Eq, PartialOrd, Ord, Debug, Hash)]
pub enum Det {
    AddressBalance,
    AddressZero,
    BoolEqualsBool,
    AssignUpdateArrayValue,
    CacheArrayLength,
    IncrementDecrement,
    MultipleRequire,
    OptimalComparison,
    ShiftMath,
    SolidityKeccak256,
    SolidityMath,
    PayableFunction,
    PrivateConstant,
    PrivateVarsLeadingUnderscore,
    PrivateFuncLeadingUnderscore,
    ConstructorOrder,
    UnsafeErc20Operation,
    DivideBeforeMultiply,
    FloatingPragma,
    UnprotectedSelfdestruct,
    ConstantVariables,
    ImmutableVariables,
    MemoryToCalldata,
    Sstore,
    SafeMathPre080,
    SafeMathPost080,
    StringErrors,
    ShortRevertString,
    PackStorageVariables,
    PackStructVariables,
}

type DetFn = fn(pt::SourceUnit) -> HashSet<pt::Loc>;

/// (detector, name as in solstat's pattern table, property that specifies it, the REAL function)
pub const DETS: &[(Det, &str, &str, DetFn)] = &[
    (Det::AddressBalance, "address_balance", "c05", opt::address_balance::address_balance_optimization),
    (Det::AddressZero, "address_zero", "c05", opt::address_zero::address_zero_optimization),
    (Det::BoolEqualsBool, "bool_equals_bool", "c05", opt::bool_equals_bool::bool_equals_bool_optimization),
    (Det::AssignUpdateArrayValue, "assign_update_array_value", "c05", opt::assign_update_array_value::assign_update_array_optimization),
    (Det::CacheArrayLength, "cache_array_length", "c05", opt::cache_array_length::cache_array_length_optimization),
    (Det::IncrementDecrement, "increment_decrement", "c05", opt::increment_decrement::increment_decrement_optimization),
    (Det::MultipleRequire, "multiple_require", "c05", opt::multiple_require::multiple_require_optimization),
    (Det::OptimalComparison, "optimal_comparison", "c05", opt::optimal_comparison::optimal_comparison_optimization),
    (Det::ShiftMath, "shift_math", "c05", opt::shift_math::shift_math_optimization),
    (Det::SolidityKeccak256, "solidity_keccak256", "c05", opt::solidity_keccak256::solidity_keccak256_optimization),
    (Det::SolidityMath, "solidity_math", "c05", opt::solidity_math::solidity_math_optimization),
    (Det::PayableFunction, "payable_function", "c06", opt::payable_function::payable_function_optimization),
    (Det::PrivateConstant, "private_constant", "c06", opt::private_constant::private_constant_optimization),
    (Det::PrivateVarsLeadingUnderscore, "private_vars_leading_underscore", "c06", qa::private_vars_leading_underscore::private_vars_leading_underscore),
    (Det::PrivateFuncLeadingUnderscore, "private_func_leading_underscore", "c06", qa::private_func_leading_underscore::private_func_leading_underscore),
    (Det::ConstructorOrder, "constructor_order", "c06", qa::constructor_order::constructor_order_qa),
    (Det::UnsafeErc20Operation, "unsafe_erc20_operation", "c07", vuln::unsafe_erc20_operation::unsafe_erc20_operation_vulnerability),
    (Det::DivideBeforeMultiply, "divide_before_multiply", "c07", vuln::divide_before_multiply::divide_before_multiply_vulnerability),
    (Det::FloatingPragma, "floating_pragma", "c07", vuln::floating_pragma::floating_pragma_vulnerability),
    (Det::UnprotectedSelfdestruct, "unprotected_selfdestruct", "c07", vuln::unprotected_selfdestruct::unprotected_selfdestruct_vulnerability),
    (Det::ConstantVariables, "constant_variables", "c08", opt::constant_variables::constant_variable_optimization),
    (Det::ImmutableVariables, "immutable_variables", "c08", opt::immutable_variables::immutable_variables_optimization),
    (Det::MemoryToCalldata, "memory_to_calldata", "c08", opt::memory_to_calldata::memory_to_calldata_optimization),
    (Det::Sstore, "sstore", "c08", opt::sstore::sstore_optimization),
    (Det::SafeMathPre080, "safe_math_pre_080", "c09", opt::safe_math::safe_math_pre_080_optimization),
    (Det::SafeMathPost080, "safe_math_post_080", "c09", opt::safe_math::safe_math_post_080_optimization),
    (Det::StringErrors, "string_errors", "c09", opt::string_errors::string_error_optimization),
    (Det::ShortRevertString, "short_revert_string", "c09", opt::short_revert_string::short_revert_string_optimization),
    (Det::PackStorageVariables, "pack_storage_variables", "c10", opt::pack_storage_variables::pack_storage_variables_optimization),
    (Det::PackStructVariables, "pack_struct_variables", "c10", opt::pack_struct_variables::pack_struct_variables_optimization),
];

impl Det {
    pub fn name(self) -> &'static str {
        DETS.iter().find(|d| d.0 == self).unwrap().1
    }
    pub fn prop(self) -> &'static str {
        DETS.iter().find(|d| d.0 == self).unwrap().2
    }
    pub fn real(self) -> DetFn {
        DETS.iter().find(|d| d.0 == self).unwrap().3
    }
    pub fn from_name(n: &str) -> Option<Det> {
        DETS.iter().find(|d| d.1 == n).map(|d| d.0)
    }
    pub fn of_prop(p: &str) -> Vec<Det> {
        DETS.iter().filter(|d| d.2 == p).map(|d| d.0).collect()
    }
    pub fn all() -> Vec<Det> {
        DETS.iter().map(|d| d.0).collect()
    }
}

// ---------------------------------------------------------------------------------------------
// guarded execution of the real code
// ---------------------------------------------------------------------------------------------
static LAST_PANIC: Mutex<String> = Mutex::new(String::new());

/// silence the default "thread panicked" output and remember the last message
pub fn install_panic_hook() {
    std::panic::set_hook(Box::new(|info| {
        let msg = if let Some(s) = info.payload().downcast_ref::<&str>() {
            s.to_string()
        } else if let Some(s) = info.payload().downcast_ref::<String>() {
            s.clone()
        } else {
            "non-string panic payload".to_string()
        };
        let at = info.location().map(|l| format!(" at {}:{}", l.file(), l.line())).unwrap_or_default();
        if let Ok(mut g) = LAST_PANIC.lock() {
            *g = format!("{}{}", msg, at);
        }
    }));
}

/// short, stable class of a panic message
pub fn panic_class(msg: &str) -> &'static str {
    if msg.contains("on a `None` value") {
        "unwrap-none"
    } else if msg.contains("ParseIntError") || msg.contains("PosOverflow") || msg.contains("InvalidDigit") {
        "number-parse"
    } else if msg.contains("on an `Err` value") {
        "unwrap-err"
    } else if msg.contains("index out of bounds") || msg.contains("out of range") {
        "index-out-of-bounds"
    } else if msg.contains("overflow") {
        "arithmetic-overflow"
    } else if msg.contains("divide by zero") || msg.contains("remainder with a divisor of zero") {
        "division-by-zero"
    } else if msg.contains("not implemented") || msg.contains("unreachable") {
        "unimplemented"
    } else if msg.contains("is not a") || msg.contains("Node is not") || msg.contains("Could not") {
        "expect-failed"
    } else {
        "other"
    }
}

pub enum Run {
    Ok(BTreeSet<usize>),
    /// (class, full message)
    Panic(&'static str, String),
}

pub fn run_real(d: Det, su: &pt::SourceUnit) -> Run {
    let f = d.real();
    let input = su.clone();
    match std::panic::catch_unwind(std::panic::AssertUnwindSafe(move || f(input))) {
        Ok(locs) => Run::Ok(locs.iter().map(oracle::st).collect()),
        Err(_) => {
            let msg = LAST_PANIC.lock().map(|g| g.clone()).unwrap_or_default();
            Run::Panic(panic_class(&msg), msg)
        }
    }
}

/// the real detector's locations as (start, end) pairs
pub fn run_real_locs(d: Det, su: &pt::SourceUnit) -> Result<Vec<(usize, usize)>, (&'static str, String)> {
    let f = d.real();
    let input = su.clone();
    match std::panic::catch_unwind(std::panic::AssertUnwindSafe(move || f(input))) {
        Ok(locs) => {
            let mut v: Vec<(usize, usize)> = locs.iter().map(|l| (oracle::st(l), oracle::en(l))).collect();
            v.sort();
            Ok(v)
        }
        Err(_) => {
            let msg = LAST_PANIC.lock().map(|g| g.clone()).unwrap_or_default();
            Err((panic_class(&msg), msg))
        }
    }
}

pub struct Verdict {
    pub expect: oracle::Expect,
    pub reported: BTreeSet<usize>,
    /// must \ reported
    pub missed: Vec<usize>,
    /// reported \ may
    pub unexpected: Vec<usize>,
    pub panic: Option<(&'static str, String)>,
}

impl Verdict {
    pub fn holds(&self) -> bool {
        self.panic.is_none() && self.missed.is_empty() && self.unexpected.is_empty()
    }
}

/// the contract  must ⊆ reported ⊆ may  for one (program, detector)
pub fn check_contract(d: Det, su: &pt::SourceUnit) -> Verdict {
    let expect = oracle::expected(d, su);
    match run_real(d, su) {
        Run::Panic(c, m) => Verdict { expect, reported: BTreeSet::new(), missed: vec![], unexpected: vec![], panic: Some((c, m)) },
        Run::Ok(reported) => {
            let missed = expect.must.difference(&reported).cloned().collect();
            let unexpected = reported.difference(&expect.may).cloned().collect();
            Verdict { expect, reported, missed, unexpected, panic: None }
        }
    }
}

pub fn line_of(src: &str, off: usize) -> usize {
    src.as_bytes().iter().take(off.min(src.len())).filter(|b| **b == b'\n').count() + 1
}

pub fn fmt_offsets(src: &str, s: &BTreeSet<usize>) -> String {
    let v: Vec<String> = s.iter().map(|o| format!("{}(line {})", o, line_of(src, *o))).collect();
    format!("[{}]", v.join(", "))
}

// ---------------------------------------------------------------------------------------------
// replay:  vxn det-case <prop> <detector> @src:<text>      exit 1 iff the contract is violated
// ---------------------------------------------------------------------------------------------
pub fn replay(prop: &str, det_name: &str, src: &str) -> (bool, String) {
    install_panic_hook();
    let su = match solang_parser::parse(src, 0) {
        Ok((su, _)) => su,
        Err(e) => return (true, format!("source does not parse (outside the property's domain): {:?}", e)),
    };
    if prop == "c09" && det_name == "safe_math" {
        return checks::replay_never_both(&su, src);
    }
    let d = match Det::from_name(det_name) {
        Some(d) => d,
        None => return (true, format!("unknown detector {}", det_name)),
    };
    match prop {
        "c04" => match run_real(d, &su) {
            Run::Ok(r) => (true, format!("{} returned normally: {}", det_name, fmt_offsets(src, &r))),
            Run::Panic(c, m) => (false, format!("{} panicked ({}): {}", det_name, c, m)),
        },
        "c19" => checks::replay_c19(d, src),
        "c02-loc" => {
            let w = checks::wrong_node_locations(d, &su);
            if w.is_empty() {
                (true, format!("{}: every reported location is the start of the construct named by section 8 (or the case is a plain miss / extra report, which is not C02's business)", det_name))
            } else {
                let lines: Vec<String> = w
                    .iter()
                    .map(|x| format!("reports {}..{} (line {}) which lies inside / around the expected construct at offset {} (line {}) that is itself not reported", x.0, x.1, line_of(src, x.0), x.2, line_of(src, x.2)))
                    .collect();
                (false, format!("{}: {}", det_name, lines.join("; ")))
            }
        }
        _ => {
            let v = check_contract(d, &su);
            if let Some((c, m)) = &v.panic {
                return (true, format!("{} panicked ({}): {} -- inconclusive for {} (this is a C04 violation)", det_name, c, m, prop));
            }
            let mut msg = format!(
                "{}: reported {}  must {}  may {}",
                det_name,
                fmt_offsets(src, &v.reported),
                fmt_offsets(src, &v.expect.must),
                fmt_offsets(src, &v.expect.may)
            );
            for o in &v.missed {
                msg.push_str(&format!("\n  MISSED   offset {} line {}: {}", o, line_of(src, *o), oracle::describe_offset(&su, *o, Some(d))));
            }
            for o in &v.unexpected {
                msg.push_str(&format!("\n  UNEXPECTED offset {} line {}: {}", o, line_of(src, *o), oracle::describe_offset(&su, *o, Some(d))));
            }
            (v.holds(), msg)
        }
    }
}

fn emit(r: crate::report::CheckResult) -> Option<i32> {
    println!("{}", r.to_json().render());
    Some(0)
}

/// run `f` on a thread with a large stack (the harness' own recursion over deep trees must not be the limit)
fn big_stack<T: Send + 'static>(f: impl FnOnce() -> T + Send + 'static) -> T {
    std::thread::Builder::new().stack_size(256 << 20).spawn(f).expect("spawn").join().expect("harness thread died")
}

/// Returns Some(exit code) when `cmd` belongs to this module.
pub fn dispatch(cmd: &str, rest: &[String], tier: &str, seed: u64) -> Option<i32> {
    let tier = tier.to_string();
    match cmd {
        "c04" => emit(big_stack(move || checks::run_c04(&tier, seed))),
        "c05" => emit(big_stack(move || checks::run_expr_level("c05", &tier, seed))),
        "c06" => emit(big_stack(move || checks::run_decl_level("c06", &tier, seed))),
        "c07" => emit(big_stack(move || checks::run_decl_level("c07", &tier, seed))),
        "c08" => emit(big_stack(move || checks::run_decl_level("c08", &tier, seed))),
        "c09" => emit(big_stack(move || checks::run_c09(&tier, seed))),
        "c19" => emit(big_stack(move || checks::run_c19(&tier, seed))),
        "c02-loc" => emit(big_stack(move || checks::run_c02_loc(&tier, seed))),
        "c17-pragma" => emit(big_stack(move || checks::run_c17_pragma(&tier, seed))),
        "c17-pragma-case" => {
            if rest.len() < 3 {
                eprintln!("usage: vxn c17-pragma-case <detector> @src:<text with comment> @src:<text without>");
                return Some(2);
            }
            let d = match Det::from_name(&rest[0]) {
                Some(d) => d,
                None => return Some(2),
            };
            let (a, b) = (crate::arg_or_file(&rest[1]), crate::arg_or_file(&rest[2]));
            let (ok, msg) = big_stack(move || checks::c17_pragma_pair(d, &a, &b));
            println!("{}", msg);
            Some(if ok { 0 } else { 1 })
        }
        "det-case" => {
            if rest.len() < 3 {
                eprintln!("usage: vxn det-case <c02-loc|c04|c05|c06|c07|c08|c09|c19> <detector> @src:<text>|@file:<path>");
                return Some(2);
            }
            let (prop, det, src) = (rest[0].clone(), rest[1].clone(), crate::arg_or_file(&rest[2]));
            let (ok, msg) = big_stack(move || replay(&prop, &det, &src));
            println!("{}", msg);
            Some(if ok { 0 } else { 1 })
        }
        // debugging aids (not used by vx)
        "det-dump" => {
            let src = crate::arg_or_file(&rest[0]);
            match solang_parser::parse(&src, 0) {
                Ok((su, _)) => println!("{:#?}", su),
                Err(e) => println!("ERR {:?}", e),
            }
            Some(0)
        }
        "det-corpus" => {
            // det-corpus <prop> : print the tags (and optionally sources) of the corpus
            let prop = rest.get(0).cloned().unwrap_or_else(|| "c05".into());
            let full = rest.get(1).map(|s| s == "full").unwrap_or(false);
            let mut rng = crate::report::Rng::new(seed);
            for c in corpus::corpus_for(&prop, &tier, &mut rng) {
                println!("{} [{}] {} @{}", c.focus.map(|d| d.name()).unwrap_or("-"), c.kind.name(), c.class, c.pos);
                if full {
                    println!("{}\n----", c.src);
                }
            }
            Some(0)
        }
        _ => None,
    }
}
