//! Minimal JSON writer (no external crates: the harness must not perturb solstat's dependency graph).
use std::fmt::Write;

#[derive(Clone, Debug)]
pub enum J {
    Null,
    Bool(bool),
    Num(i64),
    Str(String),
    Arr(Vec<J>),
    Obj(Vec<(String, J)>),
}

impl J {
    pub fn s<T: Into<String>>(t: T) -> J {
        J::Str(t.into())
    }
    pub fn obj(kv: Vec<(&str, J)>) -> J {
        J::Obj(kv.into_iter().map(|(k, v)| (k.to_string(), v)).collect())
    }
    pub fn arr_s<I: IntoIterator<Item = String>>(it: I) -> J {
        J::Arr(it.into_iter().map(J::Str).collect())
    }
    pub fn render(&self) -> String {
        let mut o = String::new();
        self.w(&mut o);
        o
    }
    fn w(&self, o: &mut String) {
        match self {
            J::Null => o.push_str("null"),
            J::Bool(b) => o.push_str(if *b { "true" } else { "false" }),
            J::Num(n) => {
                let _ = write!(o, "{}", n);
            }
            J::Str(s) => esc(s, o),
            J::Arr(a) => {
                o.push('[');
                for (i, x) in a.iter().enumerate() {
                    if i > 0 {
                        o.push(',');
                    }
                    x.w(o);
                }
                o.push(']');
            }
            J::Obj(kv) => {
                o.push('{');
                for (i, (k, v)) in kv.iter().enumerate() {
                    if i > 0 {
                        o.push(',');
                    }
                    esc(k, o);
                    o.push(':');
                    v.w(o);
                }
                o.push('}');
            }
        }
    }
}

fn esc(s: &str, o: &mut String) {
    o.push('"');
    for c in s.chars() {
        match c {
            '"' => o.push_str("\\\""),
            '\\' => o.push_str("\\\\"),
            '\n' => o.push_str("\\n"),
            '\r' => o.push_str("\\r"),
            '\t' => o.push_str("\\t"),
            c if (c as u32) < 0x20 => {
                let _ = write!(o, "\\u{:04x}", c as u32);
            }
            c => o.push(c),
        }
    }
    o.push('"');
}
