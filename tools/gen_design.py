#!/usr/bin/env python3
"""Assemble /verif/DESIGN.md from docs_src/*.md plus the data-driven sections:
§12 from known_findings.json + `git log` of /repo, §13 from seeded/*/meta.json + build/sweep*.json (+ harmless sweep)."""
import glob
import json
import os
import subprocess

HERE = os.path.dirname(os.path.dirname(os.path.abspath(__file__)))


def esc(s):
    return (s or "").replace("|", "\\|").replace("\n", " ")


def s12():
    kf = json.load(open(os.path.join(HERE, "known_findings.json")))["findings"]
    log = subprocess.check_output("git -C /repo log --reverse --format='%h %s' 0bc0a46..HEAD", shell=True, text=True).strip()
    rows = ["| %s | `%s` | %s | `%s` |" % (f["property"], f["commit"], esc(f["what"]), esc(f["input"])[:160]) for f in kf if f.get("status") == "fixed"]
    known = ["| %s | %s | `%s` | %s | %s |" % (f["property"], esc(f["what"]), esc(f["input"])[:400], ", ".join("`%s`" % x for x in f["keys"][:3]) + (" … (%d keys)" % len(f["keys"]) if len(f["keys"]) > 3 else ""), esc(f.get("why_not_repaired", "")))
             for f in kf if f.get("status") == "known"]
    return open(os.path.join(HERE, "docs_src", "s12_head.md")).read().replace("KNOWNROWS", "\n".join(known)).replace("ROWS", "\n".join(rows)).replace("GITLOG", log)


def s13():
    metas = {}
    for d in sorted(glob.glob(os.path.join(HERE, "seeded", "C*_*"))):
        m = json.load(open(os.path.join(d, "meta.json")))
        metas[os.path.basename(d)] = m
    sweep = {}
    for f in sorted(glob.glob(os.path.join(HERE, "docs_src", "sweep*.json"))):
        for r in json.load(open(f)):
            if r["id"] == "unchanged":
                continue
            sweep.setdefault(r["id"], []).append(r)
    rows = []
    caught = 0
    for mid, m in metas.items():
        rs = sweep.get(mid, [])
        hits = [r for r in rs if r.get("rc") == 1]
        und = [r for r in rs if r.get("rc") == 2]
        if hits:
            caught += 1
            by = ", ".join("%s%s" % (r["check"], " (obligation, no input)" if r.get("no_input") and r.get("no_input") == r.get("violations") else "") for r in hits)
            first = hits[0].get("first", "").replace("failed: ", "")
        elif und:
            by = "UNDECIDED by " + ", ".join(r["check"] for r in und)
            first = und[0].get("first", "")
        elif rs:
            by = "**missed**"
            first = ""
        else:
            by = "(not swept yet)"
            first = ""
        rows.append("| %s | %s | %s | %s |" % (mid, esc(m.get("what"))[:200], by, esc(first)[:140]))
    harmless = ""
    hp = os.path.join(HERE, "docs_src", "sweep_harmless.json")
    if os.path.exists(hp):
        hs = json.load(open(hp))
        ids = sorted(set(r["id"] for r in hs))
        fa = sorted(set((r["id"], r["check"]) for r in hs if r["rc"] == 1))
        un = sorted(set((r["id"], r["check"]) for r in hs if r["rc"] == 2))
        harmless = ("\n**False-alarm control.** %d behaviour-preserving refactorings written by three further sub-agents (renamed locals, "
                    "reordered independent statements / match arms, `is_some()+unwrap()` → `if let`, merged or split or-patterns, extracted "
                    "helpers, dropped redundant clones, loop → iterator, `return v;` ↔ tail expression, flipped conditions, `i = i + 1` → `i += 1`, "
                    "`x %% 2 == 1` → `x %% 2 != 0`, introduced locals; kept under `/verif/harmless/`; the third batch targets the functions brought "
                    "under contract last: `get_line_number`, `analyze_for_*`, `get_all_*`, the halving loop, `get_*_report_section`) were swept "
                    "with the checks of the properties anchored in the touched files (`tools/sweep_harmless.py`): **%d VIOLATION lines** "
                    "(false alarms: %s); %d (refactoring, check) pairs ended UNDECIDED (exit 2) because the new code uses a construct Verus does "
                    "not accept (a loop turned into an iterator-adapter chain) or calls an extracted helper that has no contract: %s. "
                    "Earlier sweeps had more: role-based anchors (§3.4), tolerant statement anchors and the tail anchor `^while` removed them.\n" % (
                        len(ids), len(fa), fa or "none", len(un), ", ".join("%s/%s" % x for x in un)))
    txt = open(os.path.join(HERE, "docs_src", "s13_head.md")).read()
    txt = txt.replace("NSEEDED", str(len(metas))).replace("NCAUGHT", str(caught)).replace("ROWS", "\n".join(rows)).replace("HARMLESS", harmless)
    return txt


def main():
    parts = [open(os.path.join(HERE, "docs_src", n)).read() for n in ("head.md", "s8.md", "tail.md", "s11.md")]
    out = parts[0] + parts[1] + parts[2] + parts[3] + s12() + s13()
    open(os.path.join(HERE, "DESIGN.md"), "w").write(out)
    print("DESIGN.md: %d lines" % len(out.splitlines()))


if __name__ == "__main__":
    main()
