#!/usr/bin/env python3
"""Run the checks against every seeded change under /verif/seeded, in a scratch copy of the repository.

usage: sweep_seeded.py [<repo-worktree>] [<id-filter>]   (default worktree: $VP_RUN_REPO, else a fresh git worktree)
Prints one line per (seeded id, check) and a summary; writes build/sweep.json.
Also runs every check once on the UNCHANGED worktree first (false-alarm control).
"""
import glob, json, os, subprocess, sys, time

HERE = os.path.dirname(os.path.dirname(os.path.abspath(__file__)))
# which checks are expected to notice a change seeded for property X (own check first)
ALSO = {"C06": ["C02"], "C05": ["C02"], "C02": ["C05"], "C15": ["C03"], "C19": ["C06", "C10", "C07"], "C12": ["C11", "C03"], "C04": [], "C08": [], "C01": []}


def sh(cmd, cwd=None, env=None, timeout=3600):
    p = subprocess.run(cmd, shell=True, cwd=cwd, capture_output=True, text=True, timeout=timeout, env=env)
    return p.returncode, p.stdout + p.stderr


def main():
    wt = sys.argv[1] if len(sys.argv) > 1 and sys.argv[1] else os.environ.get("VP_RUN_REPO")
    filt = sys.argv[2] if len(sys.argv) > 2 else ""
    if not wt:
        wt = "/tmp/sweep_wt"
        sh("git -C /repo worktree remove --force %s" % wt)
        print(sh("git -C /repo worktree add -f %s HEAD" % wt)[1][-200:])
    env = dict(os.environ, VX_REPO=wt)
    os.makedirs(os.path.join(HERE, "build"), exist_ok=True)
    results = []
    sh("git checkout -q -- . && git clean -fdq -e target", cwd=wt)
    import re as _re
    ids = sorted(d for d in glob.glob(os.path.join(HERE, "seeded", "C*_*")) if os.path.exists(os.path.join(d, "patch.diff")) and (filt in d or (filt.startswith("re:") and _re.search(filt[3:], os.path.basename(d)))))
    props = sorted(set(os.path.basename(d).split("_")[0] for d in ids))
    if not filt:
        for p in props:
            t = time.time()
            rc, out = sh("./vx check %s --tier quick" % p, cwd=HERE, env=env)
            print("CONTROL unchanged %s rc=%d %.0fs" % (p, rc, time.time() - t), flush=True)
            results.append({"id": "unchanged", "check": p, "rc": rc})
    for d in ids:
        mid = os.path.basename(d)
        prop = mid.split("_")[0]
        sh("git checkout -q -- . && git clean -fdq -e target", cwd=wt)
        patch = os.path.join(d, "rebased.diff") if os.path.exists(os.path.join(d, "rebased.diff")) else os.path.join(d, "patch.diff")
        rc, out = sh("git apply %s" % patch, cwd=wt)
        if rc != 0:
            print("%s patch-does-not-apply" % mid, flush=True)
            results.append({"id": mid, "check": prop, "rc": None, "note": "patch does not apply"})
            continue
        for chk in [prop] + ALSO.get(prop, []):
            t = time.time()
            rc, out = sh("./vx check %s --tier quick" % chk, cwd=HERE, env=env)
            lines = [l for l in out.splitlines() if l.startswith(("VIOLATION", "UNDECIDED", "  failed"))]
            nf = sum(1 for l in lines if l.startswith("VIOLATION") and l.rstrip().endswith("no-failing-input-found"))
            nv = sum(1 for l in lines if l.startswith("VIOLATION"))
            first = next((l.strip() for l in lines if l.startswith("  failed")), "")
            print("%s on %s: rc=%d violations=%d (without input: %d) %.0fs | %s" % (mid, chk, rc, nv, nf, time.time() - t, first[:160]), flush=True)
            results.append({"id": mid, "check": chk, "rc": rc, "violations": nv, "no_input": nf, "first": first[:300]})
            if rc == 1 and chk == prop:
                break
    sh("git checkout -q -- . && git clean -fdq -e target", cwd=wt)
    json.dump(results, open(os.environ.get("SWEEP_OUT") or os.path.join(HERE, "build", "sweep.json"), "w"), indent=1)
    caught = sorted(set(r["id"] for r in results if r["rc"] == 1 and r["id"] != "unchanged"))
    allids = sorted(set(r["id"] for r in results if r["id"] != "unchanged"))
    print("SUMMARY caught %d of %d: missed = %s" % (len(caught), len(allids), [i for i in allids if i not in caught]))
    print("SUMMARY control alarms: %s" % [r["check"] for r in results if r["id"] == "unchanged" and r["rc"] != 0])


def _evidence_guard(fn):
    """a sweep runs the checks on CHANGED trees: keep the evidence files of the unchanged tree as they were"""
    import shutil, tempfile
    ev = os.path.join(HERE, "evidence")
    keep = tempfile.mkdtemp(prefix="ev_keep_", dir=os.path.join(HERE, "build"))
    for p in glob.glob(os.path.join(ev, "*.json")):
        shutil.copy2(p, keep)
    try:
        fn()
    finally:
        for p in glob.glob(os.path.join(keep, "*.json")):
            shutil.copy2(p, ev)
        shutil.rmtree(keep, ignore_errors=True)


if __name__ == "__main__":
    os.makedirs(os.path.join(HERE, "build"), exist_ok=True)
    _evidence_guard(main)
