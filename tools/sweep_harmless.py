#!/usr/bin/env python3
"""False-alarm control: apply each behaviour-preserving refactoring under /verif/harmless to a scratch worktree and run
the checks of the properties anchored in the touched files. A VIOLATION line (exit 1) is a false alarm; exit 2
(UNDECIDED: lost anchor / ghost text no longer type-checks) is tolerated but reported."""
import glob, json, os, re, subprocess, sys, time

HERE = os.path.dirname(os.path.dirname(os.path.abspath(__file__)))
MAP = [
    (r"analyzer/ast\.rs", ["C01"]),
    (r"analyzer/utils\.rs", ["C10", "C09", "C08", "C02"]),
    (r"optimizations/(address_balance|address_zero|assign_update|bool_equals|cache_array|multiple_require|optimal_comparison|shift_math|solidity_keccak|solidity_math|increment_decrement)", ["C05"]),
    (r"optimizations/pack_", ["C10"]),
    (r"optimizations/(payable_function|private_constant)|qa/(constructor_order|private_)", ["C06"]),
    (r"optimizations/(safe_math|string_errors|short_revert)", ["C09"]),
    (r"optimizations/(constant_variables|immutable_variables|memory_to_calldata|sstore)", ["C08"]),
    (r"vulnerabilities/(unsafe_erc20|divide_before|floating_pragma|unprotected_selfdestruct)", ["C07"]),
    (r"/mod\.rs", ["C03", "C16", "C02", "C14", "C15"]),
    (r"report/", ["C11", "C12", "C13"]),
    (r"opts\.rs", ["C14", "C18"]),
]


def sh(cmd, cwd=None, env=None, timeout=3600):
    p = subprocess.run(cmd, shell=True, cwd=cwd, capture_output=True, text=True, timeout=timeout, env=env)
    return p.returncode, p.stdout + p.stderr


def main():
    wt = os.environ.get("VP_RUN_REPO") or (sys.argv[1] if len(sys.argv) > 1 and sys.argv[1] else None)
    if not wt:
        wt = "/tmp/sweep_wt_h"
        sh("git -C /repo worktree remove --force %s" % wt)
        sh("git -C /repo worktree add -f %s HEAD" % wt)
    env = dict(os.environ, VX_REPO=wt)
    res = []
    filt = sys.argv[2] if len(sys.argv) > 2 else ""
    for d in sorted(glob.glob(os.path.join(HERE, "harmless", "H*"))):
        hid = os.path.basename(d)
        if filt not in hid:
            continue
        sh("git checkout -q -- . && git clean -fdq -e target", cwd=wt)
        rc, out = sh("git apply %s" % os.path.join(d, "patch.diff"), cwd=wt)
        if rc != 0:
            print("%s patch-does-not-apply" % hid, flush=True)
            continue
        files = re.findall(r"^\+\+\+ b/(.*)$", open(os.path.join(d, "patch.diff")).read(), re.M)
        checks = []
        for f in files:
            for rx, cs in MAP:
                if re.search(rx, f):
                    checks += [c for c in cs if c not in checks]
        for c in checks or ["C04"]:
            t = time.time()
            rc, out = sh("./vx check %s --tier quick" % c, cwd=HERE, env=env)
            first = next((l.strip() for l in out.splitlines() if l.startswith(("VIOLATION", "UNDECIDED", "  failed"))), "")
            print("%s (%s) on %s: rc=%d %.0fs | %s" % (hid, ",".join(files), c, rc, time.time() - t, first[:200]), flush=True)
            res.append({"id": hid, "check": c, "rc": rc, "first": first[:300]})
    sh("git checkout -q -- . && git clean -fdq -e target", cwd=wt)
    json.dump(res, open(os.path.join(HERE, "build", "sweep_harmless.json"), "w"), indent=1)
    print("SUMMARY false alarms (rc=1): %s" % sorted(set((r["id"], r["check"]) for r in res if r["rc"] == 1)))
    print("SUMMARY undecided (rc=2): %s" % sorted(set((r["id"], r["check"]) for r in res if r["rc"] == 2)))


def _evidence_guard(fn):
    """a sweep runs the checks on CHANGED trees: keep the evidence files of the unchanged tree as they were"""
    import shutil, tempfile
    ev = os.path.join(HERE, "evidence")
    keep = tempfile.mkdtemp(prefix="ev_keep_", dir=os.path.join(HERE, "build"))
    for p in glob.glob(os.path.join(ev, "*.json")):
        shutil.copy2(p, keep)
    try:
        fn()
    finally:
        for p in glob.glob(os.path.join(keep, "*.json")):
            shutil.copy2(p, ev)
        shutil.rmtree(keep, ignore_errors=True)


if __name__ == "__main__":
    os.makedirs(os.path.join(HERE, "build"), exist_ok=True)
    _evidence_guard(main)
