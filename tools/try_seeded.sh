#!/bin/bash
# usage: tools/try_seeded.sh <patch.diff> <Cnn> [<Cnn>...]   -- apply a seeded change to /repo, run checks, undo
set -u
patch=$1; shift
cd /repo || exit 2
if ! git diff --quiet; then echo "/repo working tree not clean"; exit 2; fi
git apply "$patch" || { echo "patch does not apply"; exit 2; }
cd /verif
rm -rf build/evidence_backup && cp -r evidence build/evidence_backup
for p in "$@"; do
  echo "=== $p on $(basename $(dirname $patch))"
  timeout 1800 ./vx check $p --tier ${TIER:-quick} 2>&1 | grep -E "^(VIOLATION|UNDECIDED|OK|KNOWN|  failed)" | cut -c1-300 | head -${MAXL:-5}
  echo "exit=${PIPESTATUS[0]}"
done
rm -rf evidence && mv build/evidence_backup evidence
git -C /repo checkout -- . ; git -C /repo status --short | head -3
