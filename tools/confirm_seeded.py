#!/usr/bin/env python3
"""Confirm seeded changes delivered by sub-agents in a scratch worktree of /repo's HEAD and import them
into /verif/seeded/<id>/ (patch.diff, demo, meta.json with what was run).

usage: confirm_seeded.py <out-root> [<name-filter>]     e.g. /tmp/mut/out
"""
import glob, json, os, shutil, subprocess, sys, re

WT = "/tmp/confirm_wt"
SEEDED = "/verif/seeded"

def sh(cmd, cwd=None, timeout=1800):
    p = subprocess.run(cmd, shell=True, cwd=cwd, capture_output=True, text=True, timeout=timeout)
    return p.returncode, p.stdout + p.stderr

def main():
    root = sys.argv[1]
    filt = sys.argv[2] if len(sys.argv) > 2 else ""
    if not os.path.isdir(WT):
        rc, out = sh("git -C /repo worktree add -f %s HEAD" % WT)
        print(out[-300:])
    else:
        sh("git -C %s checkout -q --detach %s" % (WT, subprocess.check_output("git -C /repo rev-parse HEAD", shell=True, text=True).strip()))
    head = subprocess.check_output("git -C %s rev-parse --short HEAD" % WT, shell=True, text=True).strip()
    dirs = sorted(d for d in glob.glob(os.path.join(root, "*", "C*_*")) if os.path.isdir(d) and filt in d)
    summary = []
    for d in dirs:
        mid = os.path.basename(d)
        patch = os.path.join(d, "patch.diff")
        if os.path.exists(os.path.join(SEEDED, mid, "rebased.diff")):
            patch = os.path.join(SEEDED, mid, "rebased.diff")
        demos = [f for f in glob.glob(os.path.join(d, "demo*.rs"))]
        meta = json.load(open(os.path.join(d, "meta.json")))
        sh("git checkout -q -- . && git clean -fdq -e target", cwd=WT)
        rc, out = sh("git apply --check %s" % patch, cwd=WT)
        rec = {"id": mid, "property": meta.get("property"), "head": head}
        if rc != 0:
            rec["status"] = "patch-does-not-apply"
            summary.append(rec); print(rec, flush=True); continue
        sh("git apply %s" % patch, cwd=WT)
        rc, out = sh("cargo test --workspace --no-fail-fast --offline 2>&1 | grep -E '^test result' ", cwd=WT)
        passed = sum(int(x) for x in re.findall(r"ok\. (\d+) passed", out))
        failed = sum(int(x) for x in re.findall(r"(\d+) failed", out))
        rec["suite_with_change"] = "%d passed, %d failed" % (passed, failed)
        os.makedirs(os.path.join(WT, "tests"), exist_ok=True)
        tname = "demo_" + mid.lower()
        shdemo = os.path.join(d, "demo.sh")
        if not demos and os.path.exists(shdemo):
            # shell demo driving the built binary (exit status 0 = property holds); binary path through SOLSTAT_BIN
            env_bin = "SOLSTAT_BIN=%s/target/debug/solstat" % WT
            # deliveries that hard-code the sub-agent's worktree binary: make the path overridable
            import re as _re
            txt = open(shdemo).read()
            txt2 = _re.sub(r"(?m)^BIN=/tmp/mut/wt_\w+/target/debug/solstat\s*$", "BIN=${SOLSTAT_BIN:?set SOLSTAT_BIN to the solstat binary under test}", txt)
            if txt2 != txt:
                shdemo = os.path.join("/tmp", "confirm_demo_%s.sh" % mid)
                open(shdemo, "w").write(txt2)
            sh("cargo build --offline 2>&1 | tail -1", cwd=WT)
            rc1, out1 = sh("%s bash %s %s/target/debug/solstat" % (env_bin, shdemo, WT), cwd=WT)
            rec["demo_with_change"] = "fails" if rc1 != 0 else "passes"
            sh("git apply -R %s" % patch, cwd=WT)
            sh("cargo build --offline 2>&1 | tail -1", cwd=WT)
            rc2, out2 = sh("%s bash %s %s/target/debug/solstat" % (env_bin, shdemo, WT), cwd=WT)
            rec["demo_without_change"] = "passes" if rc2 == 0 else "fails"
            ok = passed >= 70 and failed == 0 and rec["demo_with_change"] == "fails" and rec["demo_without_change"] == "passes"
            rec["status"] = "confirmed" if ok else "NOT-confirmed"
            if ok:
                dst = os.path.join(SEEDED, mid)
                os.makedirs(dst, exist_ok=True)
                shutil.copyfile(patch, os.path.join(dst, "patch.diff"))
                shutil.copyfile(shdemo, os.path.join(dst, "demo.sh"))
                m2 = {"id": mid, "property": meta.get("property"), "what": meta.get("what"), "needs": meta.get("needs"),
                      "demo_cmd": "cargo build --offline in the worktree; SOLSTAT_BIN=<worktree>/target/debug/solstat bash demo.sh <worktree>/target/debug/solstat (exit 0 = property holds)",
                      "confirmed_at_repo_commit": head,
                      "ran": ["git apply patch.diff (scratch worktree /tmp/confirm_wt of /repo HEAD %s)" % head,
                              "cargo test --workspace --no-fail-fast --offline -> %s" % rec["suite_with_change"],
                              "bash demo.sh with the change -> %s" % rec["demo_with_change"],
                              "git apply -R ; cargo build ; bash demo.sh without the change -> %s" % rec["demo_without_change"]],
                      "origin": "fresh sub-agent given only the property text and a scratch worktree"}
                json.dump(m2, open(os.path.join(dst, "meta.json"), "w"), indent=1)
            summary.append(rec); print(rec, flush=True); continue
        if not demos:
            rec["status"] = "no-demo"; summary.append(rec); print(rec, flush=True); continue
        shutil.copyfile(demos[0], os.path.join(WT, "tests", tname + ".rs"))
        rc1, out1 = sh("cargo test --offline --test %s 2>&1 | tail -5" % tname, cwd=WT)
        rec["demo_with_change"] = "fails" if rc1 != 0 or "FAILED" in out1 or "failed" in out1.split("test result")[-1] and " 0 failed" not in out1 else "passes"
        sh("git apply -R %s" % patch, cwd=WT)
        rc2, out2 = sh("cargo test --offline --test %s 2>&1 | tail -5" % tname, cwd=WT)
        rec["demo_without_change"] = "passes" if (" 0 failed" in out2 and "test result: ok" in out2) else "fails"
        ok = passed >= 70 and failed == 0 and rec["demo_with_change"] == "fails" and rec["demo_without_change"] == "passes"
        rec["status"] = "confirmed" if ok else "NOT-confirmed"
        if ok:
            dst = os.path.join(SEEDED, mid)
            os.makedirs(dst, exist_ok=True)
            shutil.copyfile(patch, os.path.join(dst, "patch.diff"))
            shutil.copyfile(demos[0], os.path.join(dst, "demo.rs"))
            m2 = {"id": mid, "property": meta.get("property"), "what": meta.get("what"), "needs": meta.get("needs"),
                  "demo_cmd": "copy demo.rs to <worktree>/tests/%s.rs ; cargo test --offline --test %s" % (tname, tname),
                  "confirmed_at_repo_commit": head,
                  "ran": ["git apply patch.diff (scratch worktree /tmp/confirm_wt of /repo HEAD %s)" % head,
                          "cargo test --workspace --no-fail-fast --offline -> %s" % rec["suite_with_change"],
                          "cargo test --offline --test %s with the change -> %s" % (tname, rec["demo_with_change"]),
                          "git apply -R ; same demo without the change -> %s" % rec["demo_without_change"]],
                  "origin": "fresh sub-agent given only the property text and a scratch worktree"}
            json.dump(m2, open(os.path.join(dst, "meta.json"), "w"), indent=1)
        summary.append(rec)
        print(rec, flush=True)
    sh("git checkout -q -- . && git clean -fdq -e target", cwd=WT)
    json.dump(summary, open("/verif/build/confirm_summary.json", "w"), indent=1)

if __name__ == "__main__":
    main()
