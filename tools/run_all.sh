#!/bin/bash
# run every claimed check (quick tier by default) on the current /repo tree and validate the evidence files
cd /verif
tier=${1:-quick}
if ! git -C /repo diff --quiet; then echo "WARNING: /repo working tree is not clean"; fi
for p in $(python3 -c "import json;print(' '.join(c['property_id'] for c in json.load(open('MANIFEST.json'))['checks']))"); do
  s=$(date +%s)
  out=$(timeout 3600 ./vx check $p --tier $tier 2>&1); rc=$?
  e=$(date +%s)
  echo "$p rc=$rc $((e-s))s $(echo "$out" | grep -E '^(VIOLATION|UNDECIDED|KNOWN)' | head -3 | cut -c1-200)"
done
python3-vt - <<'PY'
import json, jsonschema, glob
s=json.load(open('/root/.vp/EVIDENCE.schema.json'))
for f in sorted(glob.glob('/verif/evidence/*.json')):
    e=json.load(open(f))
    try:
        jsonschema.validate(e,s)
        c=e['coverage']
        bad = e['level']=='proof' and c.get('obligations')!=c.get('discharged')
        print(f.split('/')[-1], 'ok' if not bad else 'MISMATCH', e['level'], c.get('obligations'), c.get('discharged'), c.get('evaluations'), c.get('distinct_nontrivial'))
    except Exception as ex: print(f,'INVALID',str(ex)[:200])
PY
