#!/usr/bin/env python3
"""Regenerate /verif/MANIFEST.json from the table below (kept in one place so it stays valid)."""
import json
import os

HERE = os.path.dirname(os.path.dirname(os.path.abspath(__file__)))

CHECKS = {
    "C01": dict(
        level="proof",
        text="Deductive proof (Verus) that the real walk_node_for_targets, the four *_as_target tables, Node::as_target and the extract_* entry points satisfy `result == filter(pre-order enumeration of all nodes, kind in targets)` for every tree, root kind and target set; the enumeration and the kind oracle are generated from the parse-tree type definitions. A bounded search on the compiled code supplies counterexamples for replay and is not counted as proof.",
        design="§4.1, §5, §9 C01",
        note="Trusted: Verus/Z3, vstd specs of Vec/HashSet/Option, derived Clone/Eq/Hash (external_derive), pt.rs == compiled pt.rs (checksum), recursion termination not proved, stack depth not modelled.",
        technique="contract-based deductive verification (Verus) of the real ast.rs, per-arm obligations; bounded native search only for counterexamples",
    ),
}

NOT_YET = {}


def main():
    props = [json.loads(l) for l in open(os.path.join(HERE, "properties.jsonl"))]
    checks = []
    na = []
    for p in props:
        pid = p["id"]
        if pid in CHECKS:
            c = CHECKS[pid]
            checks.append({
                "property_id": pid,
                "quick_cmd": "./vx check %s --tier quick" % pid,
                "thorough_cmd": "./vx check %s --tier thorough" % pid,
                "evidence_file": "/verif/evidence/%s.json" % pid,
                "replay_cmd_template": "./vx replay {path}",
                "engine": "vx",
                "level_claimed": {"category": c["level"], "text": c["text"], "design_ref": c["design"]},
                "level_note": c["note"],
                "technique": c["technique"],
            })
        else:
            na.append({"property_id": pid, "reason": NOT_YET.get(pid, "check not built yet in this session (work in progress; see DESIGN.md §0 for the planned decision procedure)")})
    m = {
        "version": 1,
        "setup_cmd": "./vx setup",
        "hooks": {
            "guard": "solstat_verif",
            "enable": "RUSTFLAGS=\"--cfg solstat_verif\" (set by vx when it builds /repo through the native harness)",
            "baseline_off_cmd": "cd /repo && cargo test --workspace --no-fail-fast --offline",
            "source_commits": [],
            "add_only": True,
        },
        "engines": [
            {"name": "vx", "path": "/verif/vx", "serves_properties": sorted(CHECKS),
             "kind_free_text": "Python driver: mechanical extraction of /repo items into single-file Verus units with marked insertions (contracts, invariants, ghost code), parallel Verus queries, obligation naming, native harness (cargo crate linking the real library) for bounded stand-ins, counterexample search and replay"},
        ],
        "checks": checks,
        "not_applicable": na,
        "notes": "Technique family: contract-based deductive verification of the real code. See DESIGN.md.",
    }
    json.dump(m, open(os.path.join(HERE, "MANIFEST.json"), "w"), indent=1)
    print("wrote MANIFEST.json: %d checks, %d not_applicable" % (len(checks), len(na)))


if __name__ == "__main__":
    main()
