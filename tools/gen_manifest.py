#!/usr/bin/env python3
"""Regenerate /verif/MANIFEST.json from the table below (kept in one place so it stays valid)."""
import json
import os

HERE = os.path.dirname(os.path.dirname(os.path.abspath(__file__)))

CHECKS = {
    "C01": dict(
        level="proof",
        text="Deductive proof (Verus) that the real walk_node_for_targets, the four *_as_target tables, Node::as_target and the extract_* entry points satisfy `result == filter(pre-order enumeration of all nodes, kind in targets)` for every tree, root kind and target set, and that the walker's recursion terminates (measure: number of nodes below the root); the enumeration and the kind oracle are generated from the parse-tree type definitions. A bounded search on the compiled code supplies counterexamples for replay and is not counted as proof.",
        design="§4.1, §5, §9 C01",
        note="Trusted: Verus/Z3, vstd specs of Vec/HashSet/Option, derived Clone/Eq/Hash (external_derive), pt.rs == compiled pt.rs (checksum), stack depth not modelled (termination of the recursion IS proved: decreases all_nodes(node).len()).",
        technique="contract-based deductive verification (Verus) of the real ast.rs, per-arm obligations; bounded native search only for counterexamples",
    ),
}

BOUNDED_NOTE = "BOUNDED stand-in, never counted as proved: no deductive verifier installed here models %s (DESIGN.md §0, §11). The check executes the contract, stated as an executable postcondition, on the real compiled code over the generated cases only."

def bounded(text, why, design):
    return dict(level="exploration", text=text, design=design, note=BOUNDED_NOTE % why,
                technique="bounded check of an executable contract on the real code (stand-in permitted by the contract-verification family where no verifier reaches the function); exhaustive where stated")

CHECKS.update({
    "C10": dict(
        level="proof",
        text="Deductive proof (Verus) that the real get_type_size equals the size table, the real storage_slots_used equals Solidity's greedy layout for all sequences of sizes 8..256 (no overflow), struct_can_be_packed and both pack_* detectors report exactly the definitions whose declared order uses more slots than the ascending sort; three property lemmas (reported => a strictly better permutation exists; optimal order => not reported; sorting saves a slot => reported). Bounded native search (slot counter exhaustive up to length 5/6 over the 32 byte-granular sizes) supplies counterexamples and is not counted as proof.",
        design="§8 C10, §9 C10",
        note="Trusted: Verus/Z3, vstd, slice::sort contract (ascending permutation), clone contracts, walker contract (proved in unit ast), parser invariants on type sizes (requires-clauses, checked bounded).",
        technique="contract-based deductive verification (Verus) of the real utils.rs / pack_*.rs functions + lemmas; bounded native search only for counterexamples",
    ),
    "C03": bounded("Executable postcondition of analyze_dir (result == multiset union of the per-file results over eligible files at any depth, no empty lists) on every directory-tree shape with <= 5 (quick) / 7 (thorough) entries and depth <= 3, every files/sub-directory listing interleaving observed through fs::read_dir, all three categories; every case with a first-level directory is also run on a root whose first-level directories are symbolic links; patterns in declaration, reversed and shuffled order; file contents from 10 sources (with and without pragma, only file-level definitions, the suicide alias, white space only); chains to depth 16/48.", "the file system (fs::read_dir, PathBuf), HashMap iteration or recursion through directories", "§9 C03"),
    "C16": bounded("Executable contract of the file filter inside analyze_dir: result == result with ineligible files removed, no ineligible file (any valid-Unicode name, any bytes) is read or makes the run panic, every eligible name is analysed; corner-case name lists x content kinds x positions in the tree.", "the file system or str::to_lowercase/ends_with on OS strings", "§9 C16"),
    "C11": dict(level="other",
        text="Verus (unit sections): the three pattern -> report-section tables (get_optimization_report_section, get_vulnerability_report_section, get_qa_report_section) are PROVED to return, for every pattern, the text of the section module documented for that pattern. BOUNDED for the rendering itself: executable postconditions of generate_*_report / generate_report: reading the '- file:line' entries back reproduces the findings; each list is preceded by its own pattern's section; a section appears iff the pattern has a finding. Every single pattern x 21 file/line shapes exhaustively + seeded random maps.",
        design="§9 C11-C13",
        note="Trusted: Verus/Z3, vstd; section modules are external_body stubs. BOUNDED, never counted as proved: generate_*_report / generate_report (String concatenation -- Verus internal error on String + &str --, closures passed to sort_by_key / any, by-value iteration over HashMap and BTreeSet, integer to_string).",
        technique="contract-based deductive verification (Verus) of the section tables; bounded executable-contract (read-back) check of the rendering functions on the real code"),
    "C12": dict(level="other",
        text="Verus (unit sections): get_vulnerability_report_section is PROVED to return for every vulnerability pattern the severity named in the property (selfdestruct high, divide-before-multiply medium, ERC20 and pragma low) together with that pattern's own section. BOUNDED for the rest: executable postconditions on totals and headings; ALL 16 subsets of the four vulnerability patterns x all 21 file/line shapes per pattern enumerated completely (234,256 maps) + all 64 category-state combinations of the whole report + seeded random maps.",
        design="§9 C11-C13",
        note="Trusted: Verus/Z3, vstd; section modules are external_body stubs. BOUNDED, never counted as proved: the counting and heading logic of generate_vulnerability_report / generate_optimization_report / generate_report (String concatenation, by-value iteration over HashMap, integer to_string).",
        technique="contract-based deductive verification (Verus) of the severity table; bounded executable-contract check (exhaustive over the stated finite space) of totals and headings on the real code"),
    "C13": bounded("Relational check: the same findings set rendered from fresh HashMap instances (different hash seeds), permuted insertion orders of patterns and of (file, lines) vectors, and child processes must give byte-identical text equal to the canonical rendering; plus c13-dir, end to end: the same directory content created in 4/6 different orders (listing orders observed, not assumed), analysed by the real analyze_dir with the patterns in declaration / reversed / shuffled order and rendered by the real generate_*_report, also in a fresh process: all texts byte-identical.", "HashMap iteration order / per-process hash seeds", "§9 C11-C13"),
    "C14": dict(level="other",
        text="Verus (unit dispatch): the default lists get_all_optimizations / get_all_vulnerabilities / get_all_qa are PROVED to contain every variant of their enum (without a configuration file all patterns run), and analyze_for_* are PROVED to hand each pattern to the detector documented for it (variant -> detector table written from the documentation; the detector must be defined in the module file named after the pattern). The name tables str_to_optimization / str_to_vulnerability / str_to_qa are PROVED (unit names) to return, for every name whose lower-cased form is documented, the pattern documented under that name, with lemmas `every documented name selects its own pattern` and `every pattern has a documented name`. BOUNDED for the rest: executable contract of str_to_* over every documented name (scraped from docs/, README.md, Solstat.toml on each run) x casings, junk names rejected (the `unknown name fails` clause cannot be stated in Verus); precedence --path > toml path > ./contracts and exact pattern selection observed through hook H1 and the report of the real binary; unknown name => non-zero exit and no report.",
        design="§9 C14",
        note="Trusted: Verus/Z3, vstd; detectors are external_body stubs in unit dispatch. str::to_lowercase is an uninterpreted function in unit names. BOUNDED, never counted as proved: the must-fail clause for unknown names, Opts::new and main (clap, toml, process exit status) -- exercised through the built binary over the generated cases only.",
        technique="contract-based deductive verification (Verus) of str_to_*, get_all_* and the analyze_for_* dispatch; bounded executable-contract check of the name tables and of the binary for everything clap/toml/process-level"),
    "C02": dict(level="other",
        text="Verus: get_line_number is PROVED to return 1 + the number of line feeds that precede the offset, for every text and every offset that is not itself a line feed (unit lines, over a trusted model of the regex crate for the pattern \\n); analyze_for_optimization / _vulnerability / _qa are PROVED to return exactly { line_of(start of l) | l reported by the pattern's detector } (unit dispatch: parse, dispatch, by-value iteration of the location set, pt's Loc::start, BTreeSet insertion). Which node's location each detector reports is part of the proved detector contracts of C05-C07/C09 (loc_P). BOUNDED: get_line_number EXHAUSTIVE over all texts of <= 7 characters over {a, LF, CR, e-acute} x all admissible offsets (109,227 cases) + seeded long texts (this is also the only check of the regex model itself); analyze_for_* line sets over programs x 15 layouts x 30 detectors; c02-loc (wrong-node location) for the detectors not under a Verus contract.",
        design="§9 C02",
        note="Trusted: Verus/Z3, vstd (BTreeSet specs), the regex-crate model (external_body: for `\\n` the captures are the line feeds, one group each, increasing offsets), solang_parser::parse as an uninterpreted partial function, HashSet by-value iteration model, precondition that reported locations are Loc::File offsets of token starts and that a text has < 2^31-16 line feeds. The bounded parts are never counted as proved.",
        technique="contract-based deductive verification (Verus) of get_line_number and analyze_for_* against the line model; bounded executable-contract check (exhaustive on short texts) as counterexample engine and for the regex model"),
    "C17": dict(level="other",
        text="Verus (unit blind, lemmas over the proved contracts): for parse trees that are equal up to the values of their Loc fields (relation eqv_<T>, generated from the parse-tree type definitions) the node enumerations correspond (generated lemma per node type, proved), hence so do the results of the tree search (lemma_walk_eqv; with C01 of the real walker); each of the 12 predicates of the hits-form detectors of unit det_expr (address_balance, address_zero, bool_equals_bool, assign_update_array_value, multiple_require, optimal_comparison, shift_math, solidity_keccak256, solidity_math, unsafe_erc20_operation, floating_pragma, divide_before_multiply) is PROVED to give the same verdict on corresponding nodes, so the same positions of the search result are flagged (lemma_c17_same_positions_flagged). BOUNDED: that a token-preserving re-layout changes the parse tree only in its locations (parser assumption), comments / string contents, all other detectors and the line arithmetic: relational check over token-preserving re-layouts (one token per line as reference, CRLF, random white space, code-like comments, multi-byte comments, string contents neutralised): the same tokens start flagged constructs, for 30 detectors.",
        design="§9 C17",
        note="Trusted: Verus/Z3, vstd; the detector postconditions of unit det_expr and the walker contract of unit ast (proved there). BOUNDED, never counted as proved: the lexer/parser (an unverified dependency) and everything listed as bounded in the text.",
        technique="contract-based deductive verification (Verus): relational lemmas (equality up to locations) over the proved detector contracts; bounded relational check of the real analysis over re-layouts for the parser-dependent part"),
    "C15": dict(level="other",
        text="Verus (unit dispatch): analyze_for_* are PROVED to return a set that is a function of (text, file number, pattern) alone -- `is_lines_of(r@, text, locs(pattern, parse_tree(text, file_number)))` -- given that the parser and each detector are functions of their arguments (proved for the detectors with set-valued contracts in the det_* units; frame scan for statics / thread_locals / interior mutability for the rest). BOUNDED for everything about the run around a call: each (file, pattern) evaluated alone, repeated, with different file numbers, after the 29 other patterns in seeded permuted orders, from 8 concurrently running threads (also deeply nested files), from the same String buffer holding different texts one after the other, in a fresh process, and inside analyze_dir with arbitrary siblings (native c03); results compared. Thread interleavings are sampled by the OS scheduler, not explored.",
        design="§9 C15",
        note="Trusted: Verus/Z3, vstd, parser as an uninterpreted function, detector stubs in unit dispatch. BOUNDED, never counted as proved: threads (neither Verus without its permission types nor Kani), process state, analyze_dir.",
        technique="contract-based deductive verification (Verus): functional postconditions make the result a function of the arguments; bounded relational check for threads / directory position / process state"),
    "C05": dict(level="other",
        text="All 11 detectors are PROVED with Verus to report exactly hits(pat_P, loc_P) over the complete node enumeration of C01 (address_balance, address_zero, bool_equals_bool, assign_update_array_value, cache_array_length, increment_decrement [= all ++/-- locations minus the prefix forms nested in statements of unchecked blocks; trusted model of by-value HashSet iteration], multiple_require, optimal_comparison, shift_math, solidity_keccak256, solidity_math), with lemmas canon_P => pat_P => match_P tying pat_P to DESIGN §8 where they differ. shift_math's helper number_literal_is_power_of_two is split mechanically (R6): its halving loop -- digit vector of ANY length -> is the value a power of two -- is PROVED in unit pow2 (terminates, no index or arithmetic error, result == is_pow2(decimal value)); ONE piece is bounded only: the statements before that loop (digit filtering, exponent handling, leading-zero removal: iterator adapters and str::parse, outside Verus); the callers are proved against an uninterpreted spec_pow2_literal and the helper as a whole is checked by the native corpus on every 2^k, 2^k+-1 (k <= 300), separators, leading zeros and exponent forms. The native corpus is also the counterexample engine for the proved functions.",
        design="§4.2, §8 C05, §9",
        note="Trusted: Verus/Z3, vstd, walker contract (proved, C01), assumed std string contracts, tuple equality componentwise, HashSet::extend is union, trusted HashSet iteration model, R5 desugaring of for+continue (multiple_require). The helper part is bounded.",
        technique="contract-based deductive verification (Verus) of the real detector functions against hits/pat/loc specs; bounded executable-contract check for the one helper body outside Verus' reach"),
    "C07": dict(level="proof",
        text="All four vulnerability detectors are PROVED with Verus against DESIGN §8: unsafe_erc20_operation, floating_pragma, divide_before_multiply (both left-spine loops, with termination) and unprotected_selfdestruct together with its five helpers (_is_public_or_external, _is_selfdestruct, _contains_protection_modifiers, _contains_msg_sender_conditions, _is_msg_sender): the result is the union over contracts and member functions of the selfdestruct/suicide calls of every exposed (body, not constructor, public/external) function that has no `only` modifier and passes no msg.sender check to a non-conversion call. The contract_part().unwrap() site is discharged by the generated, proved structural lemma. The bounded native check (58 guard forms x containers x nestings) is the counterexample engine and is not counted.",
        design="§8 C07, §9 C05-C07",
        note="Trusted: Verus/Z3, vstd, walker contract (proved, C01), assumed std contracts (string equality on character sequences; str::contains('^') / contains(\"only\") uninterpreted predicates; clone returns an equal value; Box::as_ref; FunctionTy equality structural; identity into()), R5 desugaring of for+continue.",
        technique="contract-based deductive verification (Verus) of the four real detector functions and their helpers; bounded native corpus only for counterexamples"),
    "C06": dict(level="proof",
        text="All five declaration-level detectors are PROVED with Verus against DESIGN §8: payable_function (incl. the contract_part().unwrap() site, discharged by a GENERATED and PROVED structural lemma: no SourceUnit/SourceUnitPart node lies strictly below a top-level item), private_constant, private_vars_leading_underscore, private_func_leading_underscore, constructor_order (per-contract prefix contract: a constructor is reported iff an earlier member of the SAME contract is a function other than constructor/modifier). The results are unions over the contract nodes of the complete enumeration (C01), so members of other contracts cannot influence a verdict. The bounded native declaration matrix is the counterexample engine and is not counted.",
        design="§8 C06, §9 C05-C07",
        note="Trusted: Verus/Z3, vstd, walker contract (proved, C01), assumed std contracts (str::starts_with as an uninterpreted predicate of the name, clone returns an equal value, FunctionTy equality structural, Expression::loc() == generated spec twin of the pt.rs impl), R5 desugaring of for+continue, parser invariant: a type expression is not an empty string/hex literal.",
        technique="contract-based deductive verification (Verus) of the five real detector functions; bounded native matrix only for counterexamples"),
    "C08": dict(level="proof",
        text="All functions the four detectors depend on are PROVED with Verus: get_32_byte_storage_variables == sv_table (fold over the contracts' member variables: type expression, not a mapping, minus constant/immutable as requested; labelled `continue 'outer` through the R5 desugaring), sstore == hits(plain assignment whose target identifier is a key of sv_table(true,true)), constant_variables == locations of sv_table(true,false) after removing every name that is the direct target of one of the 15 write forms found by the complete enumeration (C01), memory_to_calldata == per function (not a constructor, with body) the named `memory` parameters minus those assigned directly or through a chain of index accesses, immutable_variables == names of sv_table(true,true) that receive a value-typed plain assignment in a constructor body, minus every name written in any non-constructor function. Lemmas: a written name is never in the final table; an unwritten table name always is; an assigned parameter is never suggested. The bounded native corpus (40 write positions x 15 write forms ...) is the counterexample engine and is not counted.",
        design="§8 C08, §9 C08",
        note="Trusted: Verus/Z3, vstd, walker contract (proved, C01), a TRUSTED MODEL of by-value iteration over std HashMap (sequence of remaining entries without duplicates holding exactly the map's entries; order unspecified), String keys obey the hash key model and are equal when their characters are, assumed std contracts (string equality, clone returns an equal value, pt::Type / FunctionTy equality structural, identity into()), R5 desugaring. The property's side condition (state-variable names unique and not shadowed) is what lets name-keyed tables stand for variables.",
        technique="contract-based deductive verification (Verus) of the real table builder, the four detectors and their helpers (trusted iterator model for HashMap); bounded native corpus only for counterexamples"),
    "C09": dict(level="other",
        text="Mixed: the version GATES are PROVED with Verus (safe_math_optimization and its two wrappers report all SafeMath sites iff v < (0,8,0) resp. v >= (0,8,0) as lexicographic triples and the file attaches SafeMath, never both [lemma]; string_errors reports the require-string literals iff v >= (0,8,4), short_revert_string those of byte length >= 32 iff v < (0,8,4); nothing without a version) relative to spec_version(file); the regex-based extractor get_solidity_version_from_source_unit that computes v is outside Verus (external crate) and is run on every version triple 0.0.0..1.2.40 (on boundary versions: x 6 operator spellings x 15 placements of the pragma statement -- other pragmas before / after, after a definition, at the end of the file, comments and white space inside the pragma value, a version-like experimental pragma -- x 4 bodies = exhaustive over the stated domain).",
        design="§8 C09, §9",
        note="Trusted: Verus/Z3, vstd, walker contract (C01), assumed std contracts (string equality, String::len as uninterpreted byte length, HashSet::extend is union, SourceUnit::clone); parser invariant: string literal expressions are non-empty. The extractor part is bounded (exhaustive on the stated finite domain in thorough tier).",
        technique="contract-based deductive verification (Verus) of the gate functions; exhaustive-over-stated-domain native run of the regex extractor"),
    "C04": dict(level="other",
        text="Mixed: panic-freedom (every unwrap/expect/index/arithmetic site, callee preconditions, loop termination where a decreases clause is given, and termination of the recursive tree search) is a Verus obligation for every function under contract, for all inputs: the walker, the kind tables and accessors (unit ast), ALL 30 detectors with their helpers (units slots, det_expr, det_decl, det_gate, det_vuln, det_state, det_incdec, pow2), get_line_number (unit lines) and the three analyze_for_* entry points with pt's Loc::start (unit dispatch). Two pieces reachable from analyze_for_* are outside the contracts and bounded only: the statements before the halving loop of number_literal_is_power_of_two and the regex-based version extractor. All 30 detectors are additionally run under catch_unwind on the totality corpus (no pragma, unreadable versions, free functions, literals to 2^300 with separators/exponents, zero-argument calls, 300 definitions, depth 60) in a build with and a build without overflow checks (bounded).",
        design="§9 C04",
        note="Trusted as for C01/C05/C10; stack exhaustion on deep nesting is not modelled (property bounds nesting at 64). Parser invariants (non-empty string-literal vectors, type sizes) enter as requires-clauses.",
        technique="contract-based deductive verification (Verus: callee preconditions, overflow, bounds) for the functions under contract; bounded totality run for the rest"),
    "C19": dict(level="other",
        text="Mixed: for every detector proved in hits-form (unit det_expr) composition over top-level items follows from the proved lemma lemma_hits_concat (hits distributes over concatenation) together with all_nodes(file) = [file] + concatenation of all_nodes(item) (generated spec); all 28 non-SafeMath detectors are additionally checked whole-file vs. all-but-one-item-blanked on ordered pairs of 17 item kinds and seeded triples/quadruples (bounded).",
        design="§9 C19",
        note="Trusted as for C05. The bounded part is bounded. THREE KNOWN FINDINGS (known_findings.json, DESIGN §12): constant_variables, immutable_variables and sstore identify state variables by name over the whole file, so same-named variables of unrelated contracts interfere; the check prints KNOWN-FINDING lines for exactly the listed (detector, program) keys and reports every other interference.",
        technique="Verus lemma over the proved detector contracts + bounded relational check on the real code"),
    "C18": bounded("Frame contract of a run of the real binary ('modifies exactly ./solstat_report.md, by replacement') checked by recursive before/after snapshots over trees x working directories x previous-report states, two runs in a row.", "the file system or process effects", "§9 C18"),
})

NOT_YET = {}


def main():
    props = [json.loads(l) for l in open(os.path.join(HERE, "properties.jsonl"))]
    checks = []
    na = []
    for p in props:
        pid = p["id"]
        if pid in CHECKS:
            c = CHECKS[pid]
            checks.append({
                "property_id": pid,
                "quick_cmd": "./vx check %s --tier quick" % pid,
                "thorough_cmd": "./vx check %s --tier thorough" % pid,
                "evidence_file": "/verif/evidence/%s.json" % pid,
                "replay_cmd_template": "./vx replay {path}",
                "engine": "vx",
                "level_claimed": {"category": c["level"], "text": c["text"], "design_ref": c["design"]},
                "level_note": c["note"],
                "technique": c["technique"],
            })
        else:
            na.append({"property_id": pid, "reason": NOT_YET.get(pid, "check not built yet in this session (work in progress; see DESIGN.md §0 for the planned decision procedure)")})
    m = {
        "version": 1,
        "setup_cmd": "./vx setup",
        "hooks": {
            "guard": "solstat_verif",
            "enable": "RUSTFLAGS=\"--cfg solstat_verif\" (set by vx when it builds /repo through the native harness)",
            "baseline_off_cmd": "cd /repo && cargo test --workspace --no-fail-fast --offline",
            "source_commits": ["c17e9c0"],
            "add_only": True,
        },
        "engines": [
            {"name": "vx", "path": "/verif/vx", "serves_properties": sorted(CHECKS),
             "kind_free_text": "Python driver: mechanical extraction of /repo items into single-file Verus units with marked insertions (contracts, invariants, ghost code), parallel Verus queries, obligation naming, native harness (cargo crate linking the real library) for bounded stand-ins, counterexample search and replay"},
        ],
        "checks": checks,
        "not_applicable": na,
        "notes": "Technique family: contract-based deductive verification of the real code. See DESIGN.md.",
    }
    json.dump(m, open(os.path.join(HERE, "MANIFEST.json"), "w"), indent=1)
    print("wrote MANIFEST.json: %d checks, %d not_applicable" % (len(checks), len(na)))


if __name__ == "__main__":
    main()
