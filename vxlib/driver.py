"""Shared machinery of the checks: running Verus jobs, the native harness, known findings,
replay files, evidence and verdict lines."""
import concurrent.futures as cf
import hashlib
import json
import os
import re
import shutil
import subprocess
import sys
import time

from . import common as C, unit as U, verus as V, ptspec

VERIF = C.VERIF
BUILD = os.path.join(VERIF, "build")
EVID = os.path.join(VERIF, "evidence")
REPLAYS = os.path.join(VERIF, "replays")
NATIVE = os.path.join(VERIF, "native")
NATIVE_TARGET = os.path.join(BUILD, "native-target")
KNOWN = os.path.join(VERIF, "known_findings.json")

STANDING_TRUST = [
    "Verus 0.2026.09.13 and its Z3 are sound; vstd's specifications of Vec, Option, HashSet, HashMap, Seq, Set and vec::IntoIter are faithful",
    "the pt.rs type definitions copied into the unit are those compiled into solstat (solang-parser version and checksum compared with /repo/Cargo.lock on every run)",
    "derived Clone/PartialEq/Eq/Hash impls are left unverified (#[verifier::external_derive]); used facts: Node::clone returns an equal value; Target/Loc obey the hash key model",
    "machine integers: usize is at least 32 bits; stack depth is not modelled",
]


def ensure_dirs():
    for d in (BUILD, EVID, REPLAYS):
        os.makedirs(d, exist_ok=True)


# ------------------------------------------------------------------ Verus jobs

class Job:
    def __init__(self, name, unit, extra=(), rlimit=None):
        self.name, self.unit, self.extra, self.rlimit = name, unit, list(extra), rlimit
        self.result = None
        self.failures = []

    def path(self):
        return os.path.join(BUILD, "units", self.name + ".rs")


def _owner_fn(unit, loc):
    """name of the repo item that contains a repo location"""
    for sp in unit.splices:
        it = sp.item
        if it.path == loc.get("file"):
            src = it.src
            start_line = src.count("\n", 0, it.start) + 1
            end_line = src.count("\n", 0, it.end) + 1
            if start_line <= loc["line"] <= end_line:
                return "%s %s" % (it.kind, it.name)
    return "?"


def run_job(job):
    os.makedirs(os.path.dirname(job.path()), exist_ok=True)
    text = job.unit.render()
    open(job.path(), "w").write(text)
    r = V.run(job.path(), extra=job.extra, rlimit=job.rlimit)
    job.result = r
    job.failures = []
    for e in r["errors"]:
        cls = V.classify(e)
        if e["line"] and os.path.abspath(e["file"] or "") == os.path.abspath(job.path()) or (e["line"] and (e["file"] or "").endswith(job.name + ".rs")):
            loc = job.unit.locate(e["line"], e["col"])
        else:
            loc = {"kind": "unknown"}
        if loc["kind"] == "inserted" and (loc.get("tag") or "").startswith("ob:"):
            ob = loc["tag"][3:]
        elif loc["kind"] == "inserted" and (loc.get("tag") or "").startswith("R5:") and "." in (loc.get("tag") or ""):
            ob = "inv:" + loc["tag"][3:]
        elif loc["kind"] == "inserted" and loc.get("tag") == "contract":
            ob = "post-or-contract"
        elif loc["kind"] == "repo" and "termination" in (e["msg"] or ""):
            ob = "decreases:%s" % _owner_fn(job.unit, loc).split()[-1]
        elif loc["kind"] == "repo":
            owner = _owner_fn(job.unit, loc)
            ob = "%s:%s@%s:%d" % ("body" if cls != "definite" else "site", owner, os.path.relpath(loc["file"], C.REPO), loc["line"])
        else:
            ob = "unlocated"
        job.failures.append({"obligation": "%s/%s" % (job.unit.name, ob), "class": cls, "msg": e["msg"], "where": loc,
                             "text": e["text"][:3000], "job": job.name})
    if not r.get("success") and not job.failures:
        job.failures.append({"obligation": "%s/?" % job.unit.name, "class": "tool", "msg": "verus did not report success and no error was parsed",
                             "where": {}, "text": r.get("stderr_tail", "")[-3000:], "job": job.name})
    return job


def run_jobs(jobs, workers=None):
    workers = workers or max(1, min(len(jobs), int(os.environ.get("VX_JOBS", "15"))))
    with cf.ThreadPoolExecutor(max_workers=workers) as ex:
        return list(ex.map(run_job, jobs))


def scan_assumptions(unit_text):
    """Mechanical scan for every trusted construct in an assembled unit."""
    found = {}
    pats = {
        "assume(": r"\bassume\s*\(",
        "admit(": r"\badmit\s*\(",
        "external_body": r"#\[verifier::external_body\]",
        "assume_specification": r"\bassume_specification\b",
        "external_derive": r"#\[verifier::external_derive\]",
        "exec_allows_no_decreases_clause": r"exec_allows_no_decreases_clause",
        "external_type_specification": r"external_type_specification",
        "uninterp spec fn": r"\buninterp\s+spec\s+fn",
    }
    for k, p in pats.items():
        n = len(re.findall(p, unit_text))
        if n:
            found[k] = n
    return found


# ------------------------------------------------------------------ native harness

def _native_dir():
    """The harness crate names /repo in its Cargo.toml. When VX_REPO points elsewhere (sweeps over seeded
    changes in a scratch worktree) a copy of the crate with the path rewritten is used, with its own target dir."""
    if os.path.abspath(C.REPO) == "/repo":
        return NATIVE, NATIVE_TARGET
    tagname = hashlib.sha256(os.path.abspath(C.REPO).encode()).hexdigest()[:10]
    d = os.path.join(BUILD, "native-" + tagname)
    os.makedirs(os.path.join(d, "src"), exist_ok=True)
    for f in os.listdir(os.path.join(NATIVE, "src")):
        src = os.path.join(NATIVE, "src", f)
        dst = os.path.join(d, "src", f)
        if not os.path.exists(dst) or open(src).read() != open(dst).read():
            shutil.copyfile(src, dst)
    toml = open(os.path.join(NATIVE, "Cargo.toml")).read().replace('path = "/repo"', 'path = "%s"' % os.path.abspath(C.REPO))
    tp = os.path.join(d, "Cargo.toml")
    if not os.path.exists(tp) or open(tp).read() != toml:
        open(tp, "w").write(toml)
    return d, os.path.join(BUILD, "native-target-" + tagname)


def build_native(profile="release", binonly=False):
    """(Re)build the native harness against the repo working tree. Returns path of the binary.
    binonly: only the module that drives the built solstat binary (fallback of C14 / C18 when a change to the library's
    public API keeps the other modules from compiling)."""
    ensure_dirs()
    ctx = C.Ctx()
    eg = ptspec.ExecGen(ctx.tt)
    gen = eg.module(ctx.targets)
    gp = os.path.join(NATIVE, "src", "oracle_gen.rs")
    if not os.path.exists(gp) or open(gp).read() != gen:
        open(gp, "w").write(gen)
    ndir, ntarget = _native_dir()
    shutil.copyfile(os.path.join(C.REPO, "Cargo.lock"), os.path.join(ndir, "Cargo.lock"))
    env = dict(os.environ, CARGO_TARGET_DIR=ntarget, CARGO_NET_OFFLINE="true")
    flags = env.get("RUSTFLAGS", "")
    if "solstat_verif" not in flags:
        env["RUSTFLAGS"] = (flags + " --cfg solstat_verif").strip()
    cmd = ["cargo", "build", "--offline", "--profile", profile]
    if binonly:
        cmd += ["--features", "binonly"]
        ntarget = ntarget + "-binonly"
        env["CARGO_TARGET_DIR"] = ntarget
    t0 = time.time()
    p = subprocess.run(cmd, cwd=ndir, env=env, capture_output=True, text=True)
    if p.returncode != 0:
        raise BuildError("native harness does not build against the repo:\n" + p.stderr[-4000:])
    return os.path.join(ntarget, profile, "vxn"), round(time.time() - t0, 1)


class BuildError(Exception):
    pass


REPO_TARGET = os.path.join(BUILD, "repo-target")


def build_repo_binary():
    """Build the real `solstat` binary from /repo's working tree with hooks enabled (--cfg solstat_verif).
    Uses its own target dir under /verif/build so /repo/target is left alone."""
    ensure_dirs()
    rt = REPO_TARGET if os.path.abspath(C.REPO) == "/repo" else REPO_TARGET + "-" + hashlib.sha256(os.path.abspath(C.REPO).encode()).hexdigest()[:10]
    env = dict(os.environ, CARGO_TARGET_DIR=rt, CARGO_NET_OFFLINE="true")
    flags = env.get("RUSTFLAGS", "")
    if "solstat_verif" not in flags:
        env["RUSTFLAGS"] = (flags + " --cfg solstat_verif").strip()
    p = subprocess.run(["cargo", "build", "--offline", "--release", "--bin", "solstat"], cwd=C.REPO, env=env, capture_output=True, text=True)
    if p.returncode != 0:
        raise BuildError("solstat binary does not build:\n" + p.stderr[-4000:])
    return os.path.join(rt, "release", "solstat")


def run_native(binary, check, tier, seed, extra=(), timeout=3600, env=None):
    cmd = [binary, check, "--tier", tier, "--seed", str(seed)] + list(extra)
    t0 = time.time()
    e = dict(os.environ, VX_REPO=C.REPO)
    if env:
        e.update(env)
    p = subprocess.run(cmd, capture_output=True, text=True, timeout=timeout, cwd=VERIF, env=e)
    wall = time.time() - t0
    try:
        res = json.loads(p.stdout.strip().splitlines()[-1])
    except Exception:
        res = {"check": check, "evaluations": 0, "distinct_nontrivial": 0, "violations": [
            {"key": "harness-crash:" + check, "what": "native check crashed (rc=%s): %s" % (p.returncode, (p.stderr or p.stdout)[-1500:]),
             "replay": [check], "expected": "", "actual": ""}], "samples": [], "assumptions": [], "rule": "", "bound": ""}
    res["wall_s"] = round(wall, 2)
    res["cmd"] = " ".join(cmd)
    return res


# ------------------------------------------------------------------ known findings

def load_known():
    if not os.path.exists(KNOWN):
        return []
    return json.load(open(KNOWN)).get("findings", [])


def match_known(prop, key):
    """A violation is a known finding iff an entry with status 'known' for this property lists its key
    (exact, or as a regular expression anchored at both ends)."""
    for f in load_known():
        if f.get("property") != prop or f.get("status") != "known":
            continue
        for k in f.get("keys", []):
            if k == key or re.fullmatch(k, key):
                return f
    return None


# ------------------------------------------------------------------ verdicts

class Verdict:
    def __init__(self, prop, tier, seed):
        ensure_dirs()
        self.prop, self.tier, self.seed = prop, tier, seed
        self.violations = []     # dicts: key, what, obligation, verifier_output, counterexample(argv)|None
        self.known = []
        self.undecided = []
        self.t0 = time.time()

    def add_violation(self, key, what, obligation=None, verifier_output=None, counterexample=None, expected=None, actual=None):
        if "harness:" in key:
            # the harness could not do its job (environment, scratch file system, missing document ...): never an alarm
            self.add_undecided("harness problem %s: %s" % (key, what[:300]))
            return
        k = match_known(self.prop, key)
        rec = {"key": key, "what": what, "obligation": obligation, "verifier_output": verifier_output,
               "counterexample": counterexample, "expected": expected, "actual": actual}
        if k is not None:
            if not any(x["key"] == key for x in self.known):
                self.known.append(rec)
        else:
            if not any(x["key"] == key for x in self.violations):
                self.violations.append(rec)

    def add_undecided(self, what):
        self.undecided.append(what)

    def finish(self, evidence):
        """write evidence + replay files, print verdict lines, return exit code"""
        ensure_dirs()
        evidence["property_id"] = self.prop
        evidence["tier"] = self.tier
        evidence["seed"] = self.seed
        evidence["wall_s"] = round(time.time() - self.t0, 2)
        evidence["violations"] = len(self.violations)
        evidence.setdefault("coverage", {})["known_findings_hit"] = [k["key"] for k in self.known]
        if self.undecided:
            evidence["coverage"]["undecided"] = self.undecided
        json.dump(evidence, open(os.path.join(EVID, self.prop + ".json"), "w"), indent=1)
        for k in self.known:
            print("KNOWN-FINDING: property=%s %s" % (self.prop, k["what"]))
        for v in self.violations:
            h = hashlib.sha256((v["key"] + json.dumps(v.get("counterexample"))).encode()).hexdigest()[:10]
            path = os.path.join(REPLAYS, "%s-%s.json" % (self.prop, h))
            rec = dict(v)
            rec["property"] = self.prop
            rec["tier"] = self.tier
            rec["seed"] = self.seed
            json.dump(rec, open(path, "w"), indent=1)
            tail = "" if v.get("counterexample") else " no-failing-input-found"
            print("VIOLATION property=%s replay=%s%s" % (self.prop, path, tail))
            print("  failed: %s" % v["what"])
        for u in self.undecided:
            print("UNDECIDED property=%s %s" % (self.prop, u))
        if self.violations:
            return 1
        if self.undecided:
            return 2
        print("OK property=%s tier=%s (%.1fs)" % (self.prop, self.tier, time.time() - self.t0))
        return 0


def replay(path):
    """Re-execute a replay file's counterexample against the real code. exit 1 = reproduces."""
    rec = json.load(open(path))
    print("property: %s" % rec.get("property"))
    print("failed:   %s" % rec.get("what"))
    if rec.get("obligation"):
        print("obligation: %s" % rec["obligation"])
    if rec.get("verifier_output"):
        print("--- verifier output ---\n%s" % rec["verifier_output"])
    ce = rec.get("counterexample")
    if not ce:
        print("no concrete failing input was found for this obligation (no-failing-input-found)")
        return 0
    try:
        binary, _ = build_native()
    except BuildError:
        binary, _ = build_native(binonly=True)
    argv = []
    tmpfiles = []
    for a in ce:
        if a.startswith("@src:") and len(a) > 200:
            p = os.path.join(BUILD, "replay_payload_%d.txt" % len(tmpfiles))
            open(p, "w").write(a[5:])
            tmpfiles.append(p)
            argv.append("@file:" + p)
        else:
            argv.append(a)
    env = dict(os.environ)
    if argv and argv[0].startswith(("c14", "c18")):
        # these counterexamples run the solstat binary itself: rebuild it from /repo's working tree
        env["VXN_SOLSTAT_BIN"] = build_repo_binary()
    p = subprocess.run([binary] + argv, capture_output=True, text=True, cwd=VERIF, env=env)
    print("--- replay on the real code: %s ---" % " ".join(x if len(x) < 80 else x[:77] + "..." for x in argv))
    print(p.stdout.strip())
    if p.returncode == 1:
        print("REPRODUCED")
        return 1
    print("not reproduced (rc=%d)" % p.returncode)
    return 0


# ------------------------------------------------------------------ generic: one detector-level unit

def run_det_unit(ctx, unit_name, only=None):
    """Assemble + verify unit `unit_name`. Returns (coverage, failed: {obligation: [failure]}, undecided: [str])."""
    from . import unit_det
    undec = []
    try:
        u = unit_det.build(ctx, unit_name, only)
    except (C.LostAnchor, C.Unsupported) as e:
        return ({"unit": unit_name, "obligations": 0, "discharged": 0}, {}, ["unit %s could not be assembled: %s" % (unit_name, e)])
    fid = u.fidelity_report()
    if not fid["ok"]:
        bad = [i for i in fid["items"] if not i["ok"]]
        return ({"unit": unit_name, "obligations": 0, "discharged": 0}, {}, ["unit %s: fidelity check failed: %r" % (unit_name, bad[:2])])
    job = Job(unit_name, u)
    run_job(job)
    r = job.result
    failed = {}
    for f in job.failures:
        failed.setdefault(f["obligation"], []).append(f)
    obs = {unit_name + "/" + o[0]: o[1] for o in u.obligations}
    # a failure located in copied code (precondition / overflow / index site) is an obligation of its own
    for ob in failed:
        obs.setdefault(ob, "panic-freedom / callee precondition at this site")
    fns = [f for f in r.get("functions", []) if not f["function"].startswith("vstd::")]
    cov = {
        "unit": unit_name,
        "obligations": len(obs),
        "discharged": len([o for o in obs if o not in failed]),
        "verus_functions_verified": r.get("verified"),
        "verus_errors": r.get("n_errors"),
        "solver_ms": r.get("smt_ms"),
        "total_ms": r.get("total_ms"),
        "checker_cmd": r.get("cmd"),
        "functions_under_contract": sorted(set(o.split(":", 1)[1] for o in obs if o.startswith(unit_name + "/post:"))),
        "lemmas": sorted(o.split(":", 1)[1] for o in obs if o.startswith(unit_name + "/lemma:")),
        "obligation_list": sorted(obs),
        "failed_obligations": sorted(failed),
        "trusted_constructs_in_unit": scan_assumptions(u.render()),
        "fidelity": {"items": len(fid["items"]), "all_token_streams_equal": True,
                     "sha256": {i["item"]: i["sha256"][:16] for i in fid["items"] if i["file"].startswith(C.REPO)}},
        "slow_functions": [f for f in fns if f["ms"] > 5000],
    }
    if r.get("timed_out"):
        undec.append("unit %s: verus timed out" % unit_name)
    return cov, failed, undec


def merge_cov(covs):
    out = {"obligations": 0, "discharged": 0, "solver_ms": 0, "units": {}}
    for c in covs:
        out["obligations"] += c.get("obligations", 0)
        out["discharged"] += c.get("discharged", 0)
        out["solver_ms"] += c.get("solver_ms") or 0
        out["units"][c.get("unit", "?")] = c
    return out


def _ob_function(ob):
    """'slots/post:storage_slots_used' -> 'storage_slots_used'; 'slots/site:fn foo@file:12' -> 'foo'"""
    tail = ob.split("/", 1)[1] if "/" in ob else ob
    m = re.match(r"(?:post|inv|lemma|assert|arm):([A-Za-z0-9_]+)", tail)
    if m:
        return m.group(1)
    m = re.match(r"(?:site|body):(?:fn|impl)\s+([A-Za-z0-9_]+)", tail)
    if m:
        return m.group(1)
    return None


def combine(vd, failed, nat, key_to_functions=None, undecided_prefix=""):
    """Turn failed Verus obligations + native violations into violations / undecided.
    A failed obligation is a VIOLATION when Verus refuted it definitely or when the bounded search found a
    concrete failing input for the same function; otherwise it is undecided (never an alarm)."""
    nat_v = list(nat.get("violations", [])) if nat else []
    used = set()
    for ob, fs in sorted(failed.items()):
        fn = _ob_function(ob)
        definite = [f for f in fs if f["class"] == "definite"]
        text = "\n".join(f["text"] for f in fs)[:6000]
        ce = None
        for i, v in enumerate(nat_v):
            if i in used:
                continue
            fns = key_to_functions(v["key"]) if key_to_functions else None
            if (fns is not None and fn in fns) or (fns is None and fn and fn in v["key"]):
                ce = v
                used.add(i)
                break
        if definite or ce:
            vd.add_violation(ob, "obligation %s: %s" % (ob, (definite or fs)[0]["msg"]) + ((" -- " + ce["what"]) if ce else ""),
                             obligation=ob, verifier_output=text, counterexample=ce["replay"] if ce else None,
                             expected=ce.get("expected") if ce else None, actual=ce.get("actual") if ce else None)
        else:
            vd.add_undecided("%s%s: %s (no definite refutation and no failing input found)" % (undecided_prefix, ob, fs[0]["msg"][:160]))
    for i, v in enumerate(nat_v):
        if i not in used:
            vd.add_violation(v["key"], v["what"], obligation="bounded executable contract (no failing proof obligation)", counterexample=v.get("replay"),
                             expected=v.get("expected"), actual=v.get("actual"))


def run_vacuity_probes(ctx, unit_name):
    """Thorough tier: every `assert(false)` placed right after a function's preconditions, or after one of its loops,
    must FAIL; one that verifies means a contradictory requires-clause or invariant (the proof would be vacuous).
    One variant per probe position (function start, loop ordinal 0, 1, ...), because a failed assert is assumed afterwards."""
    from . import unit_det
    tab = unit_det.load_table(unit_name)
    nloops = max([len(e.get("loops", [])) for e in tab.FUNCTIONS] + [0])
    expected, hit, errors = [], set(), []
    variants = ["start"] + list(range(nloops))

    def one(which):
        probe = {"which": which, "tags": []}
        try:
            u = unit_det.build(C.Ctx(), unit_name, None, probe=probe)
        except (C.LostAnchor, C.Unsupported) as e:
            return probe["tags"], set(), str(e)
        path = os.path.join(BUILD, "units", "%s_probe_%s.rs" % (unit_name, which))
        os.makedirs(os.path.dirname(path), exist_ok=True)
        open(path, "w").write(u.render())
        r = V.run(path, extra=["--multiple-errors", "60"])
        h = set()
        for e in r["errors"]:
            if e["line"] and "assertion failed" in e["msg"]:
                loc = u.locate(e["line"], e["col"])
                if loc.get("kind") == "inserted" and (loc.get("tag") or "").startswith("probe:"):
                    h.add(loc["tag"])
        return probe["tags"], h, None

    with cf.ThreadPoolExecutor(max_workers=6) as ex:
        for tags, h, err in ex.map(one, variants):
            expected += tags
            hit |= h
            if err:
                errors.append(err)
    missing = [p for p in expected if p not in hit]
    # a probe that was not reported may have been swallowed by a resource-limit answer for its function in the
    # whole-unit run: re-run that function alone; only an isolated run WITHOUT any error for it means "vacuous"
    vac, inconclusive = [], []
    for tag in missing:
        m = re.match(r"probe:(?:start|after-loop):([A-Za-z0-9_]+)", tag)
        which = "start" if tag.startswith("probe:start") else int(tag.rsplit(".", 1)[1])
        path = os.path.join(BUILD, "units", "%s_probe_%s.rs" % (unit_name, which))
        if not m or not os.path.exists(path):
            vac.append(tag)
            continue
        r = V.run(path, extra=["--multiple-errors", "60", "--verify-root", "--verify-function", m.group(1)], rlimit=40)
        probe = {"which": which, "tags": []}
        u = unit_det.build(C.Ctx(), unit_name, None, probe=probe)
        got = False
        for e in r["errors"]:
            if e["line"] and "assertion failed" in e["msg"]:
                loc = u.locate(e["line"], e["col"])
                if loc.get("kind") == "inserted" and loc.get("tag") == tag:
                    got = True
        if got:
            hit.add(tag)
        elif r["errors"]:
            inconclusive.append(tag)
        else:
            vac.append(tag)
    return {"unit": unit_name, "expected": len(expected), "failed_as_expected": len(hit), "vacuous": vac, "inconclusive": inconclusive, "errors": errors}
