"""vx setup: tool presence + first build of the native harness (offline)."""
import shutil
import subprocess
import sys

from . import driver as D, common as C


def main():
    ok = True
    for tool in ("verus", "cargo", "python3"):
        p = shutil.which(tool)
        print("%-8s %s" % (tool, p or "MISSING"))
        ok = ok and bool(p)
    try:
        info = C.Ctx().solang
        print("solang-parser %s checksum_ok=%s pt_rs_matches_crate=%s" % (info["version"], info["crate_checksum_ok"], info.get("pt_rs_matches_crate")))
    except Exception as e:
        print("cannot locate solang-parser source: %s" % e)
        ok = False
    try:
        b, t = D.build_native()
        print("native harness built in %ss: %s" % (t, b))
    except Exception as e:
        print(str(e)[-2000:])
        ok = False
    return 0 if ok else 1
