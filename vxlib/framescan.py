"""Frame scan (deductive half of C15): the proved postconditions have the form `result == F(arguments)`; that makes a
call independent of history/threads only if the analysed code keeps no state outside its arguments. This scan lists
every construct in /repo/src/analyzer that could hold such state."""
import glob
import os
import re

from . import rs, common as C

SUSPECT = [
    (r"\bstatic\b(?!\s*')", "static item"),
    (r"\bthread_local\b", "thread_local!"),
    (r"\blazy_static\b|\bOnceCell\b|\bOnceLock\b|\bLazyLock\b", "lazily initialised global"),
    (r"\bRefCell\b|\bCell\s*<|\bUnsafeCell\b", "interior mutability"),
    (r"\bMutex\b|\bRwLock\b|\bAtomic[A-Z]\w*\b", "shared mutable state"),
    (r"\bunsafe\b", "unsafe code"),
    (r"\bstd::env::|\benv::var\b", "environment access"),
]


def scan(repo=None):
    repo = repo or C.REPO
    hits = []
    files = sorted(glob.glob(os.path.join(repo, "src/analyzer/**/*.rs"), recursive=True))
    for f in files:
        src = open(f).read()
        toks = rs.tokenize(src)
        text_by_line = {}
        for t in toks:
            if t.kind in ("ident", "punct"):
                ln = src.count("\n", 0, t.start) + 1
                text_by_line.setdefault(ln, []).append(t.text)
        for ln, ts in text_by_line.items():
            line = " ".join(ts).replace(" :: ", "::").replace(" <", "<")
            for rx, what in SUSPECT:
                if re.search(rx, line):
                    hits.append("%s:%d: %s" % (os.path.relpath(f, repo), ln, what))
    return {"files_scanned": len(files), "state_outside_arguments": hits}
