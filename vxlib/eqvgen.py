"""Generated relational spec for C17: `eqv_<T>(a, b)` = a and b are the same parse tree up to the values of their
`Loc` fields (what a token-preserving re-layout of the source changes), and the generated, PROVED lemmas

    eqv_<T>(a, b)  ==>  the node enumerations correspond:  an_<T>(a).len() == an_<T>(b).len()  and
                        eqv_Node(an_<T>(a)[i], an_<T>(b)[i]) for every i

Generated from the parse-tree type table with the same traversal as the all_nodes spec (SpecGen.segs), so the
proof structure mirrors the spec structure.  Nothing here is trusted: every lemma is discharged by Verus."""
from .ptspec import NODE_TYPES

HEAD = """
// ---------------------------------------------------------------- generated: equality up to locations (PROVED lemmas)
pub open spec fn eqv_Node(a: Node, b: Node) -> bool {
    match (a, b) {
        (Node::Statement(x), Node::Statement(y)) => eqv_Statement(x, y),
        (Node::Expression(x), Node::Expression(y)) => eqv_Expression(x, y),
        (Node::SourceUnit(x), Node::SourceUnit(y)) => eqv_SourceUnit(x, y),
        (Node::SourceUnitPart(x), Node::SourceUnitPart(y)) => eqv_SourceUnitPart(x, y),
        (Node::ContractPart(x), Node::ContractPart(y)) => eqv_ContractPart(x, y),
        _ => false,
    }
}
/// two node sequences correspond position by position
pub open spec fn nodes_eqv(s: Seq<Node>, t: Seq<Node>) -> bool {
    s.len() == t.len() && forall|i: int| 0 <= i < s.len() ==> eqv_Node(#[trigger] s[i], t[i])
}
pub proof fn lemma_neq_add(s1: Seq<Node>, t1: Seq<Node>, s2: Seq<Node>, t2: Seq<Node>)
    requires nodes_eqv(s1, t1), nodes_eqv(s2, t2)
    ensures nodes_eqv(s1 + s2, t1 + t2)
{
    assert forall|i: int| 0 <= i < (s1 + s2).len() implies eqv_Node(#[trigger] (s1 + s2)[i], (t1 + t2)[i]) by {
        if i < s1.len() { assert((s1 + s2)[i] == s1[i] && (t1 + t2)[i] == t1[i]); }
        else { assert((s1 + s2)[i] == s2[i - s1.len()] && (t1 + t2)[i] == t2[i - s1.len()]); }
    }
}
pub proof fn lemma_neq_one(x: Node, y: Node)
    requires eqv_Node(x, y)
    ensures nodes_eqv(seq![x], seq![y])
{}
pub proof fn lemma_neq_empty()
    ensures nodes_eqv(Seq::<Node>::empty(), Seq::<Node>::empty())
{}
"""

PRIMS = {"String", "bool", "u8", "u16", "u32", "u64", "usize", "i32", "i64", "str", "char"}
EMPTY = "Seq::<Node>::empty()"


class EqvGen:
    def __init__(self, tt, specgen):
        self.tt = tt
        self.sg = specgen
        self.cnt = 0
        self.vec = {}     # mangle -> element type
        self.vec_done = set()

    # ------------------------------------------------------------ eqv specs
    def E(self, a, b, t):
        tt = self.tt
        t = tt.resolve(t)
        if t[0] == "tuple":
            parts = [self.E("%s.%d" % (a, i), "%s.%d" % (b, i), e) for i, e in enumerate(t[1])]
            return "(" + " && ".join(parts) + ")" if parts else "true"
        name, args = t[1], t[2]
        if name == "Loc":
            return "true"
        if name == "Box":
            return self.E("(*%s)" % a, "(*%s)" % b, args[0])
        if name == "Option":
            self.cnt += 1
            x, y = "x%d" % self.cnt, "y%d" % self.cnt
            return "(match (%s, %s) { (Some(%s), Some(%s)) => %s, (None, None) => true, _ => false })" % (a, b, x, y, self.E(x, y, args[0]))
        if name == "Vec":
            m = tt.mangle(args[0])
            self.vec.setdefault(m, args[0])
            return "(%s@.len() == %s@.len() && eqv_vec_%s(%s@, %s@, %s@.len() as int))" % (a, b, m, a, b, a)
        if name in tt.types:
            return "eqv_%s(%s, %s)" % (name, a, b)
        return "(%s == %s)" % (a, b)

    def type_spec(self, n):
        d = self.tt.types[n]
        if d[0] == "alias":
            return ""
        if d[0] == "struct":
            if d[1] == "tuple":
                conj = [self.E("a.%s" % f, "b.%s" % f, ft) for f, ft in d[2]]
            else:
                conj = [self.E("a.%s" % f, "b.%s" % f, ft) for f, ft in d[2]]
            body = " && ".join(conj) if conj else "true"
        else:
            arms = []
            for vn, kind, fs in d[1]:
                if kind == "unit":
                    arms.append("        pt::%s::%s => b is %s," % (n, vn, vn))
                    continue
                if kind == "tuple":
                    pa = "(" + ", ".join("p%s" % f for f, _ in fs) + ")"
                    pb = "(" + ", ".join("q%s" % f for f, _ in fs) + ")"
                else:
                    pa = "{ " + ", ".join("%s: p%s" % (f, f) for f, _ in fs) + " }"
                    pb = "{ " + ", ".join("%s: q%s" % (f, f) for f, _ in fs) + " }"
                conj = [self.E("p%s" % f, "q%s" % f, ft) for f, ft in fs]
                arms.append("        pt::%s::%s%s => (match b { pt::%s::%s%s => %s, _ => false })," % (
                    n, vn, pa, n, vn, pb, " && ".join(conj) if conj else "true"))
            body = "match a {\n%s\n    }" % "\n".join(arms)
        return "pub open spec fn eqv_%s(a: pt::%s, b: pt::%s) -> bool\n    decreases a\n{\n    %s\n}\n" % (n, n, n, body)

    def spec(self):
        out = [HEAD]
        for n in self.tt.order:
            s = self.type_spec(n)
            if s:
                out.append(s)
        while True:
            todo = [m for m in self.vec if m not in self.vec_done]
            if not todo:
                break
            for m in todo:
                self.vec_done.add(m)
                et = self.vec[m]
                ty = self.tt.rust_ty(et)
                out.append(
                    "pub open spec fn eqv_vec_%s(s: Seq<%s>, t: Seq<%s>, n: int) -> bool\n    decreases s, n\n{\n"
                    "    if n <= 0 { true } else if n <= s.len() && n <= t.len() { eqv_vec_%s(s, t, n - 1) && %s } else { false }\n}\n" % (
                        m, ty, ty, m, self.E("s[n - 1]", "t[n - 1]", et)))
                out.append(
                    "pub proof fn lemma_eqv_vec_%s_index(s: Seq<%s>, t: Seq<%s>, n: int, i: int)\n    requires eqv_vec_%s(s, t, n), 0 <= i < n\n"
                    "    ensures i < s.len(), i < t.len(), %s\n    decreases n\n{\n    if i < n - 1 { lemma_eqv_vec_%s_index(s, t, n - 1, i); }\n}\n" % (
                        m, ty, ty, m, self.E("s[i]", "t[i]", et), m))
        return "\n".join(out)

    # ------------------------------------------------------------ correspondence lemmas (mirror SpecGen.segs)
    def L(self, a, b, t, ind):
        """proof statements establishing nodes_eqv(<segments of a>, <segments of b>) for a value of type t,
        given eqv of a and b in the context"""
        tt = self.tt
        pad = " " * ind
        if not tt.t_carrier(t):
            return []
        t = tt.resolve(t)
        if t[0] == "tuple":
            out = []
            for i, e in enumerate(t[1]):
                out += self.L("%s.%d" % (a, i), "%s.%d" % (b, i), e, ind)
            return out
        name, args = t[1], t[2]
        if name == "Box":
            return self.L("(*%s)" % a, "(*%s)" % b, args[0], ind)
        if name == "Option":
            self.cnt += 1
            x, y = "u%d" % self.cnt, "v%d" % self.cnt
            inner = self.L(x, y, args[0], ind + 4)
            return ["%smatch (%s, %s) { (Some(%s), Some(%s)) => {" % (pad, a, b, x, y)] + inner + ["%s} _ => {} }" % pad]
        if name == "Vec":
            h = "an_vec_" + tt.mangle(args[0])
            return ["%sassert(%s);" % (pad, self.E(a, b, t)), "%slemma_eqv_%s(%s@, %s@, %s@.len() as int);" % (pad, h, a, b, a)]
        if name in NODE_TYPES:
            return ["%sassert(eqv_%s(%s, %s));" % (pad, name, a, b), "%slemma_eqv_an_%s(%s, %s);" % (pad, name, a, b)]
        d = tt.types[name]
        if d[0] == "struct":
            out = ["%sassert(eqv_%s(%s, %s));" % (pad, name, a, b)]
            for f, ft in d[2]:
                out += self.L("%s.%s" % (a, f), "%s.%s" % (b, f), ft, ind)
            return out
        return ["%sassert(eqv_%s(%s, %s));" % (pad, name, a, b)] + self.enum_match(a, b, name, ind)

    def enum_match(self, a, b, n, ind):
        d = self.tt.types[n]
        pad = " " * ind
        self.cnt += 1
        u = self.cnt
        lines = ["%smatch %s {" % (pad, a)]
        for vn, kind, fs in d[1]:
            if kind == "unit":
                lines.append("%s    pt::%s::%s => {}" % (pad, n, vn))
                continue
            if kind == "tuple":
                pa = "(" + ", ".join("c%d_%s" % (u, f) for f, _ in fs) + ")"
                pb = "(" + ", ".join("d%d_%s" % (u, f) for f, _ in fs) + ")"
            else:
                pa = "{ " + ", ".join("%s: c%d_%s" % (f, u, f) for f, _ in fs) + " }"
                pb = "{ " + ", ".join("%s: d%d_%s" % (f, u, f) for f, _ in fs) + " }"
            body = []
            for f, t in fs:
                body += self.L("c%d_%s" % (u, f), "d%d_%s" % (u, f), t, ind + 12)
            lines.append("%s    pt::%s::%s%s => {" % (pad, n, vn, pa))
            lines.append("%s        match %s { pt::%s::%s%s => {" % (pad, b, n, vn, pb))
            lines += body
            lines.append("%s        } _ => {} }" % pad)
            lines.append("%s    }" % pad)
        lines.append("%s}" % pad)
        return lines

    def lemmas(self):
        tt = self.tt
        out = []
        for n in tt.order:
            if n not in NODE_TYPES:
                continue
            d = tt.types[n]
            if d[0] == "struct":
                body = []
                for f, ft in d[2]:
                    body += self.L("a.%s" % f, "b.%s" % f, ft, 4)
            else:
                body = self.enum_match("a", "b", n, 4)
            out.append(
                "pub proof fn lemma_eqv_an_%s(a: pt::%s, b: pt::%s)\n    requires eqv_%s(a, b)\n    ensures nodes_eqv(an_%s(a), an_%s(b))\n    decreases a\n{\n"
                "    broadcast use lemma_neq_add_b;\n    lemma_neq_empty();\n    lemma_neq_one(Node::%s(a), Node::%s(b));\n%s\n}\n" % (
                    n, n, n, n, n, n, n, n, "\n".join(body)))
        for h, v in self.sg.helpers.items():
            et = v[0]
            m = tt.mangle(et)
            ty = tt.rust_ty(et)
            body = self.L("s[n - 1]", "t[n - 1]", et, 8)
            out.append(
                "pub proof fn lemma_eqv_%s(s: Seq<%s>, t: Seq<%s>, n: int)\n    requires 0 <= n <= s.len(), n <= t.len(), eqv_vec_%s(s, t, n)\n"
                "    ensures nodes_eqv(%s(s, n), %s(t, n))\n    decreases s, n\n{\n"
                "    broadcast use lemma_neq_add_b;\n    lemma_neq_empty();\n    if n > 0 {\n        lemma_eqv_%s(s, t, n - 1);\n%s\n    }\n}\n" % (
                    h, ty, ty, m, h, h, h, "\n".join(body)))
        bc = ("pub broadcast proof fn lemma_neq_add_b(s1: Seq<Node>, t1: Seq<Node>, s2: Seq<Node>, t2: Seq<Node>)\n"
              "    requires nodes_eqv(s1, t1), nodes_eqv(s2, t2)\n    ensures #[trigger] nodes_eqv(s1 + s2, t1 + t2)\n{\n    lemma_neq_add(s1, t1, s2, t2);\n}\n")
        return bc + "\n".join(out)

    def text(self):
        return self.spec() + "\n" + self.lemmas()
