"""C03 -- directory analysis is the exact union of the per-file results (bounded: native check `c03`, module dirs.rs).

Real trees are built under the temp dir; the real analyze_dir of all three categories is compared with the union of
the real analyze_for_* results of the eligible files, under every listing interleaving observed through fs::read_dir."""
from . import bounded


def run(tier, seed):
    return bounded.run_bounded("C03", "c03", tier, seed, "analyze_dir == union of the per-file results (multiset per pattern, no empty lists)")
