"""C01 -- a pattern is found wherever it is nested: proof (Verus) of the real ast.rs walker."""
import os
import time

from .. import common as C, unit as U, unit_ast as A, verus as V, driver as D

ARMS_PER_QUERY = 3


def verus_part(ctx, tier, vd):
    """Returns (coverage dict, jobs). Adds violations/undecided to vd."""
    plan = A.plan_walker(ctx)
    helpers = A.probe_loop_types(ctx, plan, D.BUILD)
    labels = [a["label"] for a in plan["arms"]]
    size = 1 if tier == "thorough" else ARMS_PER_QUERY
    groups = [labels[i:i + size] for i in range(0, len(labels), size)]
    jobs = []
    obligations = None
    for gi, g in enumerate(groups):
        u, _ = A.build(ctx, check_arms=set(g), helpers=helpers, plan=plan)
        obligations = u.obligations
        jobs.append(D.Job("ast_g%02d" % gi, u, extra=["--verify-root", "--verify-function", "walk_node_for_targets"]))
    # termination of the recursion: a variant of its own (same text, `decreases all_nodes(node).len()`, size invariants only)
    term, _ = A.build(ctx, check_arms=None, helpers=helpers, plan=plan, mode="term")
    term_job = D.Job("ast_term", term, extra=["--verify-root", "--verify-function", "walk_node_for_targets"])
    rest, _ = A.build(ctx, walker_external=True)
    jobs.append(D.Job("ast_rest", rest))
    fid = jobs[0].unit.fidelity_report()
    fid_rest = rest.fidelity_report()
    if not fid["ok"] or not fid_rest["ok"]:
        bad = [i for i in fid["items"] + fid_rest["items"] if not i["ok"]]
        raise C.Unsupported("fidelity check failed: %r" % bad[:2])
    D.run_jobs(jobs + [term_job])
    # isolate resource-limit answers: re-run the arms of such a group one by one with a larger limit
    retry = []
    for j, g in zip(jobs, groups):
        if any(f["class"] != "definite" for f in j.failures) and len(g) > 1:
            for a in g:
                u, _ = A.build(ctx, check_arms={a}, helpers=helpers, plan=plan)
                retry.append(D.Job("ast_retry_%s" % abs(hash(a)), u, extra=["--verify-root", "--verify-function", "walk_node_for_targets"], rlimit=40))
            j.failures = [f for f in j.failures if f["class"] == "definite"]
    if retry:
        D.run_jobs(retry)
    all_jobs = jobs + retry + [term_job]
    all_obs = {"ast/" + o[0]: o[1] for o in (obligations or [])}
    for o in term.obligations:
        all_obs["ast/" + o[0]] = o[1]
    for o in rest.obligations:
        all_obs["ast/" + o[0]] = o[1]
    failed = {}
    for j in all_jobs:
        for f in j.failures:
            failed.setdefault(f["obligation"], []).append(f)
    smt_ms = sum((j.result or {}).get("smt_ms") or 0 for j in all_jobs)
    fn_stats = {}
    for j in all_jobs:
        for f in (j.result or {}).get("functions", []):
            name = f["function"].split("::", 1)[-1]
            if f["ms"] or name not in fn_stats:
                st = fn_stats.setdefault(name, {"ms": 0, "rlimit": 0, "queries": 0})
                st["ms"] += f["ms"]
                st["rlimit"] += f["rlimit"]
                st["queries"] += 1
    cov = {
        "obligations": len(all_obs),
        "discharged": len([o for o in all_obs if o not in failed]),
        "checker_cmd": "verus build/units/ast_gNN.rs --verify-root --verify-function walk_node_for_targets (one query per %d arm(s), %d queries) ; verus build/units/ast_rest.rs" % (size, len(groups)),
        "backend": "Verus 0.2026.09.13 / Z3",
        "solver_ms": smt_ms,
        "functions_under_contract": sorted(set(
            ["walk_node_for_targets"] + [o[0].split(":", 1)[1] for o in rest.obligations if o[0].startswith("post:")])),
        "queries": len(all_jobs),
        "walker_arms": len(labels),
        "walker_loops": len(plan["loops"]),
        "loop_helpers_inferred_by_rustc": sorted(set(helpers)),
        "function_solver_stats": {k: v for k, v in sorted(fn_stats.items()) if v["ms"] > 0},
        "fidelity": {"items": len(fid["items"]) , "all_token_streams_equal": True,
                     "walker_sha256": [i["sha256"] for i in fid["items"] if "walk_node_for_targets" in i["item"]][0]},
        "trusted_constructs_in_unit": D.scan_assumptions(jobs[0].unit.render()),
        "failed_obligations": sorted(failed),
    }
    return cov, failed, all_jobs


def run(tier, seed):
    vd = D.Verdict("C01", tier, seed)
    ctx = C.Ctx()
    assumptions = list(D.STANDING_TRUST) + [
        "termination of the walker IS proved (decreases all_nodes(node).len(), one generated size lemma per loop helper); stack depth is not modelled",
        "paired `assume(false)` at the head of arms that are checked in a sibling query are discharge bookkeeping: every arm is asserted in exactly one query",
    ]
    try:
        cov, failed, jobs = verus_part(ctx, tier, vd)
    except (C.LostAnchor, C.Unsupported) as e:
        vd.add_undecided("unit ast could not be assembled: %s" % e)
        cov, failed = {"obligations": 0, "discharged": 0, "checker_cmd": "verus", "trusted_base": []}, {}
    # bounded counterexample engine on the real compiled code (always; it is cheap)
    try:
        binary, bt = D.build_native()
        nat = D.run_native(binary, "c01", tier, seed)
    except D.BuildError as e:
        nat = None
        vd.add_undecided(str(e)[:500])
    nat_by_arm = {}
    if nat:
        for v in nat["violations"]:
            nat_by_arm[v["key"]] = v
    used = set()
    for ob, fs in failed.items():
        definite = [f for f in fs if f["class"] == "definite"]
        text = "\n".join(f["text"] for f in fs)[:6000]
        # find a counterexample for this arm
        ce = None
        if ob.startswith("ast/arm:"):
            arm = ob[len("ast/arm:"):].split("/")
            # 'Node::Expression/pt::Expression::Power' -> 'Expression::Power' ; '_' arms -> any variant of that category
            cat = arm[0].replace("Node::", "")
            leaf = arm[-1]
            for k, v in nat_by_arm.items():
                kk = k[len("walker-arm:"):]
                if leaf == "_":
                    hit = kk.startswith(cat + "::")
                else:
                    hit = kk == leaf.replace("pt::", "") or kk.split("::")[-1] == leaf.split("::")[-1] and kk.startswith(cat)
                if hit and k not in used:
                    ce = v
                    used.add(k)
                    break
        if definite or ce:
            vd.add_violation(ob, "obligation %s: %s" % (ob, (definite or fs)[0]["msg"]) + (" -- " + ce["what"] if ce else ""),
                             obligation=ob, verifier_output=text, counterexample=ce["replay"] if ce else None,
                             expected=ce["expected"] if ce else None, actual=ce["actual"] if ce else None)
        else:
            vd.add_undecided("%s: %s (no definite refutation, no counterexample found)" % (ob, fs[0]["msg"][:120]))
    if nat:
        for k, v in nat_by_arm.items():
            if k not in used:
                vd.add_violation(k, v["what"], obligation="ast/post:walk_node_for_targets (bounded search)", counterexample=v["replay"],
                                 expected=v["expected"], actual=v["actual"])
    cov["trusted_base"] = assumptions
    if nat:
        cov["bounded_counterexample_search"] = {k: nat.get(k) for k in (
            "evaluations", "distinct_nontrivial", "rule", "bound", "positions_total", "positions_covered", "positions_uncovered", "parse_failures", "wall_s")}
        cov["samples"] = nat.get("samples", [])[:2] + [{"obligation": o} for o in sorted(failed)[:3]]
        cov["evaluations"] = nat.get("evaluations", 0)
        cov["distinct_nontrivial"] = nat.get("distinct_nontrivial", 0)
    ev = {"level": "proof", "coverage": cov, "assumptions": assumptions + (nat.get("assumptions", []) if nat else [])}
    return vd.finish(ev)
