from . import _detprops


def run(tier, seed):
    return _detprops.run("C04", tier, seed)
