"""C16 -- only Solidity sources are analysed; test files and other files are inert (bounded: native check `c16`, module dirs.rs).

Real trees mixing eligible files with corner-case names and junk contents: the real analyze_dir on a tree must equal the
real analyze_dir on the same tree without its ineligible files, must not panic, must analyse every eligible file."""
from . import bounded


def run(tier, seed):
    return bounded.run_bounded("C16", "c16", tier, seed, "analyze_dir analyses exactly the '.sol' non-'.t.sol' files; every other file is inert")
