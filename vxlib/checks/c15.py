"""C15 -- each (file, pattern) verdict is independent of everything else in the run (bounded).

`c15` (repetition, file numbers, history of other patterns, threads incl. deeply nested files, fresh process) plus the
directory contract `c03` (a file's lines inside analyze_dir equal its lines when analysed alone, whatever its siblings)."""
from .. import driver as D
from . import bounded


def run(tier, seed):
    vd = D.Verdict("C15", tier, seed)
    try:
        binary, _ = D.build_native()
    except D.BuildError as e:
        vd.add_undecided(str(e)[:800])
        return vd.finish({"level": "exploration", "coverage": {"evaluations": 1, "distinct_nontrivial": 2, "rule": "native harness did not build", "samples": ["-"]}})
    nat = D.run_native(binary, "c15", tier, seed)
    bounded.add_native_violations(vd, nat, "library-call independence")
    ndir = D.run_native(binary, "c03", tier, seed)
    for v in ndir.get("violations", []):
        vd.add_violation("c15:" + v["key"], "inside a directory run: " + v["what"], obligation="analyze_dir result == union of the per-file results", counterexample=v.get("replay"),
                         expected=v.get("expected"), actual=v.get("actual"))
    ev = bounded.evidence_from_native(nat, ["thread interleavings are sampled by the OS scheduler, not explored systematically"])
    ev["coverage"]["evaluations"] += int(ndir.get("evaluations", 0))
    from .. import framescan
    fs = framescan.scan()
    ev["coverage"]["frame_scan"] = fs
    if fs["state_outside_arguments"]:
        ev["assumptions"].append("frame scan: constructs that can hold state outside the arguments were found in src/analyzer: %s" % fs["state_outside_arguments"][:5])
    ev["coverage"]["directory_part"] = {k: ndir.get(k) for k in ("evaluations", "distinct_nontrivial", "rule", "bound", "wall_s", "cmd")}
    return vd.finish(ev)
