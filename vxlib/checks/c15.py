"""C15 -- each (file, pattern) verdict is independent of everything else in the run: bounded executable contract
(history, repetition, file_number, fresh process, 8 concurrent threads; thread interleavings sampled, not explored)."""
from . import bounded


def run(tier, seed):
    return bounded.run_bounded(
        "C15", "c15", tier, seed,
        "analyze_for_*(content, _, p) is a function of (content, p) only: same lines alone, after other patterns in any order, repeated, "
        "for every file_number, in a fresh process and from concurrent threads")
